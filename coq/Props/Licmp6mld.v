(* Licmp6mld — the MLD message layers behind ICMPv6 (layers/mldv1.go, layers/mldv2.go): contributions to C19, C05, C06, C07, C01.
   Theorem name parts: mld1 (v1 query/report/done), mld2q (v2 query), mld2r (v2 report).
   Refuted for the code before the repairs: C05 (Contents/Payload never set; v2 lists appended to), C06 (auxiliary data padding). *)
From GP Require Import Base ListX Codec MiscLib LmldModel.
From Coq Require Import Lia ZifyBool ZifyNat.
Open Scope Z_scope.
Ltac Zify.zify_post_hook ::= Z.div_mod_to_equations.

Ltac xstep :=
  match goal with
  | |- context [ml_bind ?o _ _ _] => destruct o eqn:?; cbn [ml_bind]
  | |- context [if ?c then _ else _] => destruct c eqn:?
  end.
Ltac fresh_tac :=
  repeat (xstep; try solve [cbn [fst snd]; split; [reflexivity | split; [reflexivity | try (intros X; discriminate X); try reflexivity]]]);
  try (cbn [fst snd]; split; [reflexivity | split; [reflexivity | first [intros X; discriminate X | intros _; reflexivity]]]).

(* ---------------------------------------------------------------- shared lemmas *)
Lemma wrc_full n junk vs : zlen vs = n -> ml_wrc (cd_region n junk) 0 vs = Ok vs.
Proof.
  intros H. pose proof (zlen_nonneg vs). pose proof (ml_tile_init n junk ltac:(lia)) as T.
  destruct (ml_tile_wrc _ _ vs _ 0 T eq_refl) as [b [E T']]; [change (zlen []) with 0; lia|].
  rewrite E. apply ml_tile_done in T'; [|cbn [app]; exact H]. cbn [app] in T'. subst b. reflexivity.
Qed.
Lemma to16_len ip a : mld_to16 ip = Some a -> zlen a = 16.
Proof.
  unfold mld_to16. destruct (zlen ip =? 16) eqn:A; [intros [= <-]; lia|].
  destruct (zlen ip =? 4) eqn:B; [|discriminate]. intros [= <-]. unfold zlen in *. cbn [app length]. lia.
Qed.
Lemma addrs_closed junk l : mld_addrs junk l = mld_addrs [] l /\ is_panic (mld_addrs junk l) = false.
Proof.
  induction l as [|a r [IH1 IH2]]; [split; reflexivity|]. cbn [mld_addrs]. rewrite IH1.
  destruct (mld_addrs [] r) eqn:E; cbn [obind]; try (split; reflexivity).
  - destruct (mld_to16 a) eqn:T; [|split; reflexivity]. rewrite !wrc_full by (eapply to16_len; exact T). split; reflexivity.
  - rewrite IH1 in IH2. discriminate IH2.
Qed.
Lemma take_ok data : forall k off, 0 <= off -> exists r, mld_take data off k = Ok r /\ (snd r = true -> off <= zlen data -> off + 16 * Z.of_nat k <= zlen data).
Proof.
  induction k as [|k IH]; intros off H0; [eexists; split; [reflexivity|]; cbn [snd]; intros _ X; lia|].
  cbn [mld_take]. destruct (zlen data <? off + 16) eqn:C; [eexists; split; [reflexivity|cbn; discriminate]|].
  rewrite cd_slc_ok by lia. cbn [obind]. destruct (IH (off + 16)) as [r [E P]]; [lia|]. rewrite E. cbn [obind].
  eexists; split; [reflexivity|]. cbn [snd]. intros X _. specialize (P X). lia.
Qed.

(* ---------------------------------------------------------------- MLDv1 (kind 0 query, 1 report, 2 done) *)
Theorem C19_mld1_no_panic : forall orig kind old data, is_panic (snd (fst (m1_decode_gen orig kind old data))) = false.
Proof.
  intros orig kind old data. unfold m1_decode_gen. cbv zeta. destruct (zlen data <? 20) eqn:Hn; [reflexivity|].
  rewrite cd_rd16_ok by lia. rewrite !cd_slc_ok by lia. cbn [ml_bind]. destruct orig; reflexivity.
Qed.
Print Assumptions C19_mld1_no_panic.

Theorem C05_mld1_fresh : forall kind old data,
  let r1 := m1_decode_gen false kind old data in
  let r2 := m1_decode_gen false kind m1_fresh data in
  snd (fst r1) = snd (fst r2) /\ snd r1 = snd r2 /\ (snd (fst r1) = Ok tt -> fst (fst r1) = fst (fst r2)).
Proof. intros kind old data. cbv zeta. unfold m1_decode_gen. cbv zeta. fresh_tac. Qed.
Print Assumptions C05_mld1_fresh.

(* before the repair: a 20-octet message decoded into an object that held a query with trailing octets keeps them as Payload *)
Theorem C05_mld1_orig_refuted : exists kind old data,
  snd (fst (m1_decode_gen true kind old data)) = Ok tt /\
  fst (fst (m1_decode_gen true kind old data)) <> fst (fst (m1_decode_gen true kind m1_fresh data)).
Proof.
  exists 0, (fst (fst (m1_decode_gen true 0 m1_fresh (repeat 1 20 ++ [7;7])))), (repeat 2 20).
  split; [vm_compute; reflexivity|]. vm_compute. intros X. discriminate X.
Qed.

Theorem C01_mld_render_total : mld_render_panics = false.
Proof. reflexivity. Qed.

Lemma m1_hdr_len dms a16 : zlen a16 = 16 -> zlen (m1_hdr dms a16) = 20.
Proof. intros H. unfold m1_hdr. rewrite !zlen_app, zlen_put16. change (zlen [0;0]) with 2. lia. Qed.

Lemma m1_serialize_spec l payload fixl csum junk :
  m1_serialize l payload fixl csum junk =
  if m1_delay l <? 0 then (Err 2, l) else if 65535 <? m1_delay l / 1000000 then (Err 3, l) else
  match mld_to16 (m1_addr l) with None => (Err 4, l) | Some a16 => (Ok (m1_hdr (m1_delay l / 1000000) a16 ++ payload), l) end.
Proof.
  unfold m1_serialize. cbv zeta. destruct (m1_delay l <? 0); [reflexivity|]. destruct (65535 <? m1_delay l / 1000000); [reflexivity|].
  destruct (mld_to16 (m1_addr l)) eqn:T; [|reflexivity]. rewrite wrc_full by (apply m1_hdr_len; eapply to16_len; exact T). reflexivity.
Qed.

Theorem C07_mld1_no_panic : forall l payload fixl csum junk, is_panic (fst (m1_serialize l payload fixl csum junk)) = false.
Proof.
  intros. rewrite m1_serialize_spec. destruct (m1_delay l <? 0); [reflexivity|]. destruct (65535 <? _); [reflexivity|].
  destruct (mld_to16 _); reflexivity.
Qed.
Print Assumptions C07_mld1_no_panic.
Theorem C07_mld1_junk_free : forall l payload fixl csum junk1 junk2,
  m1_serialize l payload fixl csum junk1 = m1_serialize l payload fixl csum junk2.
Proof. intros. rewrite !m1_serialize_spec. reflexivity. Qed.
Print Assumptions C07_mld1_junk_free.

(* whole milliseconds up to 65535 and a 16-octet address come back *)
Definition m1_wf (l : mld1) : Prop := (exists k, 0 <= k < 65536 /\ m1_delay l = k * 1000000) /\ zlen (m1_addr l) = 16.

Theorem C06_mld1_roundtrip : forall kind l payload fixl csum junk bytes l' old,
  m1_wf l -> m1_serialize l payload fixl csum junk = (Ok bytes, l') ->
  l' = l /\ bytes = m1_hdr (m1_delay l / 1000000) (m1_addr l) ++ payload /\
  m1_decode_gen false kind old bytes = (mkM1 (m1_hdr (m1_delay l / 1000000) (m1_addr l)) payload (m1_delay l) (m1_addr l), Ok tt, false).
Proof.
  intros kind l payload fixl csum junk bytes l' old [[k [Hk Hd]] Ha]. rewrite m1_serialize_spec.
  assert (Dk : m1_delay l / 1000000 = k) by lia. rewrite Dk.
  destruct (m1_delay l <? 0) eqn:C1; [lia|]. destruct (65535 <? k) eqn:C2; [lia|].
  assert (T : mld_to16 (m1_addr l) = Some (m1_addr l)) by (unfold mld_to16; rewrite Ha; reflexivity). rewrite T. intros X.
  assert (E1 : bytes = m1_hdr k (m1_addr l) ++ payload) by congruence. assert (E2 : l' = l) by congruence. clear X.
  split; [exact E2|]. split; [exact E1|]. subst bytes l'. pose proof (zlen_nonneg payload) as Np.
  set (h := m1_hdr k (m1_addr l)). assert (Hh : zlen h = 20) by (apply m1_hdr_len; exact Ha).
  assert (Hl : length h = 20%nat) by (unfold zlen in Hh; lia).
  assert (Hn : zlen (h ++ payload) = 20 + zlen payload) by (rewrite zlen_app; lia).
  unfold m1_decode_gen. cbv zeta. destruct (zlen (h ++ payload) <? 20) eqn:C; [lia|].
  rewrite cd_rd16_ok by lia. rewrite !cd_slc_ok by lia. cbn [ml_bind].
  assert (S1 : slice (h ++ payload) (Z.to_nat 0) (Z.to_nat 20) = h) by (apply slice_from_start; rewrite Hl; reflexivity).
  assert (S2 : slice (h ++ payload) (Z.to_nat 20) (Z.to_nat (zlen (h ++ payload))) = payload).
  { apply slice_to_end; [rewrite Hl; reflexivity|]. rewrite Hn, Hl. unfold zlen. lia. }
  assert (S3 : slice (h ++ payload) (Z.to_nat 4) (Z.to_nat 20) = m1_addr l).
  { unfold h, m1_hdr. rewrite <- !app_assoc. change (cd_put16 k ++ [0;0] ++ m1_addr l ++ payload) with ((cd_put16 k ++ [0;0]) ++ m1_addr l ++ payload).
    apply slice_at; [reflexivity|]. unfold zlen in Ha. change (length (cd_put16 k ++ [0; 0])) with 4%nat. lia. }
  rewrite S1, S2, S3.
  assert (N0 : nth (Z.to_nat 0) (h ++ payload) 0 = (k / 256) mod 256) by reflexivity.
  assert (N1 : nth (Z.to_nat (0 + 1)) (h ++ payload) 0 = k mod 256) by reflexivity.
  rewrite N0, N1. rewrite (cd_put16_be k) by lia. rewrite Hd. reflexivity.
Qed.
Print Assumptions C06_mld1_roundtrip.

(* ---------------------------------------------------------------- MLDv2 query *)
Theorem C19_mld2q_no_panic : forall orig old data, bytes_ok data -> is_panic (snd (fst (mq_decode_gen orig old data))) = false.
Proof.
  intros orig old data Hb. unfold mq_decode_gen. cbv zeta. destruct (zlen data <? 24) eqn:Hn; [reflexivity|].
  rewrite !cd_rd16_ok by lia. rewrite !cd_idx_ok by lia. rewrite !(cd_slc_ok data 4) by lia. cbn [ml_bind].
  pose proof (bytes_ok_nth data (Z.to_nat 22) Hb). pose proof (bytes_ok_nth data (Z.to_nat (22 + 1)) Hb).
  set (ns := nth (Z.to_nat 22) data 0 * 256 + nth (Z.to_nat (22 + 1)) data 0) in *.
  destruct (take_ok data (Z.to_nat ns) 24) as [r [E P]]; [lia|]. rewrite E. cbn [ml_bind].
  destruct (snd r) eqn:Sr; cbn [negb]; [|reflexivity]. specialize (P eq_refl ltac:(lia)). rewrite Z2Nat.id in P by lia.
  rewrite !cd_slc_ok by lia. reflexivity.
Qed.
Print Assumptions C19_mld2q_no_panic.

Theorem C05_mld2q_fresh : forall old data,
  let r1 := mq_decode_into old data in
  let r2 := mq_decode_into mq_fresh data in
  snd (fst r1) = snd (fst r2) /\ snd r1 = snd r2 /\ (snd (fst r1) = Ok tt -> fst (fst r1) = fst (fst r2)).
Proof. intros old data. cbv zeta. unfold mq_decode_into, mq_decode_gen. cbv zeta. fresh_tac. Qed.
Print Assumptions C05_mld2q_fresh.

(* before the repair: the source addresses of the previous packet stay in front of the new ones *)
Theorem C05_mld2q_orig_refuted : exists old data,
  snd (fst (mq_decode_gen true old data)) = Ok tt /\
  fst (fst (mq_decode_gen true old data)) <> fst (fst (mq_decode_gen true mq_fresh data)).
Proof.
  exists (fst (fst (mq_decode_gen true mq_fresh (repeat 0 22 ++ [0;1] ++ repeat 5 16)))), (repeat 0 22 ++ [0;1] ++ repeat 6 16).
  split; [vm_compute; reflexivity|]. vm_compute. intros X. discriminate X.
Qed.

Lemma mq_hdr_len l a16 : zlen a16 = 16 -> zlen (mq_hdr l a16) = 24.
Proof. intros H. unfold mq_hdr. rewrite !zlen_app, !zlen_put16. change (zlen [0;0]) with 2. rewrite !zlen_cons. change (zlen []) with 0. lia. Qed.

Lemma mq_serialize_spec l payload fixl csum junk :
  mq_serialize l payload fixl csum junk = mq_serialize l payload fixl csum [] /\ is_panic (fst (mq_serialize l payload fixl csum junk)) = false.
Proof.
  unfold mq_serialize. cbv zeta. destruct (65535 <? mld_cnt (q_srcs l)); [split; reflexivity|].
  set (l' := if fixl then mq_set_n l (mld_cnt (q_srcs l)) else l).
  destruct (addrs_closed junk (q_srcs l')) as [A1 A2]. rewrite A1 in *.
  destruct (mld_addrs [] (q_srcs l')); [|split; reflexivity|discriminate A2].
  destruct (mld_to16 (q_addr l')) eqn:T; [|split; reflexivity].
  rewrite !wrc_full by (apply mq_hdr_len; eapply to16_len; exact T). split; reflexivity.
Qed.
Theorem C07_mld2q_no_panic : forall l payload fixl csum junk, is_panic (fst (mq_serialize l payload fixl csum junk)) = false.
Proof. intros. apply mq_serialize_spec. Qed.
Print Assumptions C07_mld2q_no_panic.
Theorem C07_mld2q_junk_free : forall l payload fixl csum junk1 junk2,
  mq_serialize l payload fixl csum junk1 = mq_serialize l payload fixl csum junk2.
Proof.
  intros. destruct (mq_serialize_spec l payload fixl csum junk1) as [E1 _]. destruct (mq_serialize_spec l payload fixl csum junk2) as [E2 _].
  rewrite E1, E2. reflexivity.
Qed.
Print Assumptions C07_mld2q_junk_free.

(* ---------------------------------------------------------------- MLDv2 report *)
Lemma mar_decode_ok rest : bytes_ok rest ->
  is_panic (fst (mar_decode rest)) = false /\ (forall m rd, fst (mar_decode rest) = Ok (m, rd) -> 20 <= rd <= zlen rest).
Proof.
  intros Hb. unfold mar_decode. destruct (zlen rest <? 20) eqn:C; [split; [reflexivity|intros m rd X; discriminate X]|].
  rewrite !cd_idx_ok by lia. rewrite cd_rd16_ok by lia. rewrite (cd_slc_ok rest 4) by lia.
  pose proof (bytes_ok_nth rest (Z.to_nat 1) Hb). pose proof (bytes_ok_nth rest (Z.to_nat 2) Hb). pose proof (bytes_ok_nth rest (Z.to_nat (2 + 1)) Hb).
  set (al := nth (Z.to_nat 1) rest 0) in *. set (ns := nth (Z.to_nat 2) rest 0 * 256 + nth (Z.to_nat (2 + 1)) rest 0) in *.
  destruct (take_ok rest (Z.to_nat ns) 20) as [[srcs ok] [E P]]; [lia|]. rewrite E. cbn [snd] in P.
  destruct ok; [|split; [reflexivity|intros m rd X; discriminate X]]. specialize (P eq_refl ltac:(lia)). rewrite Z2Nat.id in P by lia.
  destruct (zlen rest <? al * 4 + (20 + ns * 16)) eqn:C2; [split; [reflexivity|intros m rd X; discriminate X]|].
  rewrite cd_slc_ok by lia. split; [reflexivity|]. cbn [fst]. intros m rd X. assert (rd = al * 4 + (20 + ns * 16)) by congruence. lia.
Qed.

Lemma mr_loop_ok data : bytes_ok data -> forall k b, 0 <= b <= zlen data ->
  is_panic (snd (fst (mr_loop data b k))) = false /\ (snd (fst (mr_loop data b k)) = Ok tt -> b <= snd (fst (fst (mr_loop data b k))) <= zlen data).
Proof.
  intros Hb. induction k as [|k IH]; intros b H0; [cbn; split; [reflexivity|intros _; lia]|].
  cbn [mr_loop]. rewrite cd_slc_ok by lia.
  set (rest := slice data (Z.to_nat b) (Z.to_nat (zlen data))).
  assert (Hr : zlen rest = zlen data - b) by (unfold rest, zlen in *; rewrite slice_length by lia; lia).
  destruct (mar_decode_ok rest (bytes_ok_slice _ _ _ Hb)) as [P1 P2].
  destruct (mar_decode rest) as [[[m rd]|c|s] tr]; cbn [fst] in *; [|split; [reflexivity|intros X; discriminate X]|discriminate P1].
  specialize (P2 m rd eq_refl). destruct (IH (b + rd)) as [Q1 Q2]; [lia|].
  destruct (mr_loop data (b + rd) k) as [[[ms e] o] tr']. cbn [fst snd] in *. split; [exact Q1|]. intros X. specialize (Q2 X). lia.
Qed.

Theorem C19_mld2r_no_panic : forall orig old data, bytes_ok data -> is_panic (snd (fst (mr_decode_gen orig old data))) = false.
Proof.
  intros orig old data Hb. unfold mr_decode_gen. cbv zeta. destruct (zlen data <? 4) eqn:Hn; [reflexivity|].
  rewrite cd_rd16_ok by lia. cbn [ml_bind].
  match goal with |- context [mr_loop data 4 ?k] => destruct (mr_loop_ok data Hb k 4 ltac:(lia)) as [Q1 Q2]; destruct (mr_loop data 4 k) as [[[ms e] o] tr] end.
  cbn [fst snd] in *. destruct o as [[]|c|s]; [|reflexivity|discriminate Q1]. specialize (Q2 eq_refl).
  rewrite !cd_slc_ok by lia. reflexivity.
Qed.
Print Assumptions C19_mld2r_no_panic.

Theorem C05_mld2r_fresh : forall old data,
  let r1 := mr_decode_into old data in
  let r2 := mr_decode_into mr_fresh data in
  snd (fst r1) = snd (fst r2) /\ snd r1 = snd r2 /\ (snd (fst r1) = Ok tt -> fst (fst r1) = fst (fst r2)).
Proof.
  intros old data. cbv zeta. unfold mr_decode_into, mr_decode_gen. cbv zeta.
  destruct (zlen data <? 4); [cbn [fst snd]; split; [reflexivity|split; [reflexivity|intros X; discriminate X]]|].
  destruct (cd_rd16 data 2) as [k|c|s]; cbn [ml_bind]; try (cbn [fst snd]; split; [reflexivity|split; [reflexivity|intros X; discriminate X]]).
  destruct (mr_loop data 4 (Z.to_nat k)) as [[[ms e] o] tr]. destruct o as [[]|c|s]; fresh_tac.
Qed.
Print Assumptions C05_mld2r_fresh.

Theorem C05_mld2r_orig_refuted : exists old data,
  snd (fst (mr_decode_gen true old data)) = Ok tt /\
  fst (fst (mr_decode_gen true old data)) <> fst (fst (mr_decode_gen true mr_fresh data)).
Proof.
  exists (fst (fst (mr_decode_gen true mr_fresh ([0;0;0;1; 1;0;0;0] ++ repeat 5 16)))), ([0;0;0;1; 2;0;0;0] ++ repeat 6 16).
  split; [vm_compute; reflexivity|]. vm_compute. intros X. discriminate X.
Qed.

Lemma mar_ser_spec orig fixl junk r :
  mar_ser orig fixl junk r = mar_ser orig fixl [] r /\ is_panic (fst (mar_ser orig fixl junk r)) = false.
Proof.
  unfold mar_ser. cbv zeta. set (aux := mar_pad orig (r_aux r)).
  destruct (fixl && (255 <? zlen aux / 4)); [split; reflexivity|]. rewrite !wrc_full by reflexivity.
  destruct (fixl && (65535 <? mld_cnt (r_srcs r))); [split; reflexivity|].
  destruct (addrs_closed junk (r_srcs r)) as [A1 A2]. rewrite A1 in *.
  destruct (mld_addrs [] (r_srcs r)); [|split; reflexivity|discriminate A2].
  destruct (mld_to16 (r_addr r)) eqn:T; [|split; reflexivity].
  rewrite !wrc_full; [split; reflexivity| |].
  all: cbn [app]; rewrite !zlen_cons, zlen_app, zlen_put16, (to16_len _ _ T); lia.
Qed.
Lemma mr_ser_recs_spec orig fixl junk rs :
  mr_ser_recs orig fixl junk rs = mr_ser_recs orig fixl [] rs /\ is_panic (fst (mr_ser_recs orig fixl junk rs)) = false.
Proof.
  induction rs as [|r rest [IH1 IH2]]; [split; reflexivity|]. cbn [mr_ser_recs]. rewrite IH1 in *.
  destruct (mr_ser_recs orig fixl [] rest) as [[tl|c|s] rest']; [|split; reflexivity|discriminate IH2].
  destruct (mar_ser_spec orig fixl junk r) as [M1 M2]. rewrite M1 in *.
  destruct (mar_ser orig fixl [] r) as [[b|c|s] r']; [split; reflexivity|split; reflexivity|discriminate M2].
Qed.
Lemma mr_serialize_spec orig l payload fixl csum junk :
  mr_serialize_gen orig l payload fixl csum junk = mr_serialize_gen orig l payload fixl csum [] /\
  is_panic (fst (mr_serialize_gen orig l payload fixl csum junk)) = false.
Proof.
  unfold mr_serialize_gen. destruct (mr_ser_recs_spec orig fixl junk (mr_recs l)) as [R1 R2]. rewrite R1 in *.
  destruct (mr_ser_recs orig fixl [] (mr_recs l)) as [[recs|c|s] rs']; [|split; reflexivity|discriminate R2].
  cbv zeta. destruct (fixl && (65535 <? mld_cnt rs')); [split; reflexivity|].
  rewrite !wrc_full by reflexivity. split; reflexivity.
Qed.
Theorem C07_mld2r_no_panic : forall l payload fixl csum junk, is_panic (fst (mr_serialize l payload fixl csum junk)) = false.
Proof. intros. apply mr_serialize_spec. Qed.
Print Assumptions C07_mld2r_no_panic.
Theorem C07_mld2r_junk_free : forall l payload fixl csum junk1 junk2,
  mr_serialize l payload fixl csum junk1 = mr_serialize l payload fixl csum junk2.
Proof.
  intros. unfold mr_serialize. destruct (mr_serialize_spec false l payload fixl csum junk1) as [E1 _].
  destruct (mr_serialize_spec false l payload fixl csum junk2) as [E2 _]. rewrite E1, E2. reflexivity.
Qed.
Print Assumptions C07_mld2r_junk_free.

(* ---------------------------------------------------------------- round trips of the v2 messages: both proved (C06_mld2q_roundtrip, C06_mld2r_roundtrip) *)
Definition mld_addr_wf (a : list Z) : Prop := zlen a = 16 /\ bytes_ok a.
Definition mq_wf (l : mldq) : Prop :=
  0 <= q_mrc l < 65536 /\ mld_addr_wf (q_addr l) /\ 0 <= q_qrv l < 8 /\ 0 <= q_qqic l < 256 /\ Forall mld_addr_wf (q_srcs l) /\ mld_cnt (q_srcs l) < 65536.
Definition C06_mld2q_roundtrip_stmt : Prop := forall l csum junk bytes l' old,
  mq_wf l -> mq_serialize l [] true csum junk = (Ok bytes, l') ->
  l' = mq_set_n l (mld_cnt (q_srcs l)) /\
  mq_decode_into old bytes = (mkMq bytes [] (q_mrc l) (q_addr l) (q_s l) (q_qrv l) (q_qqic l) (mld_cnt (q_srcs l)) (q_srcs l), Ok tt, false).
(* the v2 query round trip, proved *)
Lemma addrs_wf_closed junk srcs : Forall mld_addr_wf srcs -> mld_addrs junk srcs = Ok (concat srcs).
Proof.
  induction 1 as [|a r [Ha _] _ IH]; [reflexivity|]. cbn [mld_addrs concat]. rewrite IH. cbn [obind].
  unfold mld_to16. rewrite Ha. cbn [Z.eqb Pos.eqb]. rewrite wrc_full by exact Ha. reflexivity.
Qed.

Lemma take_concat : forall srcs pre post, Forall mld_addr_wf srcs ->
  mld_take (pre ++ concat srcs ++ post) (zlen pre) (length srcs) = Ok (srcs, true).
Proof.
  induction srcs as [|a r IH]; intros pre post H; [reflexivity|].
  inversion H as [|? ? [Ha _] Hr]; subst. cbn [length mld_take concat].
  assert (La : length a = 16%nat) by (unfold zlen in Ha; lia).
  assert (Hn : zlen (pre ++ (a ++ concat r) ++ post) = zlen pre + 16 + zlen (concat r ++ post)) by (rewrite !zlen_app; lia).
  pose proof (zlen_nonneg (concat r ++ post)). pose proof (zlen_nonneg pre).
  destruct (zlen (pre ++ (a ++ concat r) ++ post) <? zlen pre + 16) eqn:C; [lia|].
  rewrite cd_slc_ok by lia. cbn [obind].
  assert (S : slice (pre ++ (a ++ concat r) ++ post) (Z.to_nat (zlen pre)) (Z.to_nat (zlen pre + 16)) = a).
  { rewrite <- app_assoc. apply slice_at; unfold zlen; lia. }
  rewrite S.
  assert (E : pre ++ (a ++ concat r) ++ post = (pre ++ a) ++ concat r ++ post) by (rewrite <- !app_assoc; reflexivity).
  assert (Z16 : zlen pre + 16 = zlen (pre ++ a)) by (rewrite zlen_app; lia).
  rewrite E, Z16, (IH (pre ++ a) post Hr). reflexivity.
Qed.

Lemma zlen_concat16 srcs : Forall mld_addr_wf srcs -> zlen (concat srcs) = 16 * mld_cnt srcs.
Proof.
  induction 1 as [|a r [Ha _] _ IH]; [reflexivity|]. cbn [concat]. rewrite zlen_app, IH, Ha. unfold mld_cnt. cbn [length]. lia.
Qed.

Theorem C06_mld2q_roundtrip : C06_mld2q_roundtrip_stmt.
Proof.
  unfold C06_mld2q_roundtrip_stmt. intros l csum junk bytes l' old [Hm [[Ha Hab] [Hq [Hc [Hs Hk]]]]].
  unfold mq_serialize. cbv zeta. destruct (65535 <? mld_cnt (q_srcs l)) eqn:C0; [lia|].
  set (k := mld_cnt (q_srcs l)) in *. set (l1 := mq_set_n l k).
  change (q_srcs l1) with (q_srcs l). change (q_addr l1) with (q_addr l).
  rewrite (addrs_wf_closed junk _ Hs).
  assert (T : mld_to16 (q_addr l) = Some (q_addr l)) by (unfold mld_to16; rewrite Ha; reflexivity). rewrite T.
  rewrite wrc_full by (apply mq_hdr_len; exact Ha). intros X.
  assert (E1 : bytes = mq_hdr l1 (q_addr l) ++ concat (q_srcs l) ++ []) by congruence. assert (E2 : l' = l1) by congruence. clear X.
  split; [exact E2|]. subst l'. 
  set (h := mq_hdr l1 (q_addr l)) in *. assert (Hh : zlen h = 24) by (apply mq_hdr_len; exact Ha).
  assert (Hl : length h = 24%nat) by (unfold zlen in Hh; lia).
  pose proof (zlen_concat16 _ Hs) as Zc. fold k in Zc. assert (K0 : 0 <= k) by (unfold k, mld_cnt; lia).
  assert (Hn : zlen bytes = 24 + 16 * k) by (subst bytes; rewrite !zlen_app, Zc; change (zlen []) with 0; lia).
  unfold mq_decode_into, mq_decode_gen. cbv zeta. destruct (zlen bytes <? 24) eqn:C; [lia|].
  assert (HnthZ : forall j, 0 <= j < 24 -> nth (Z.to_nat j) bytes 0 = nth (Z.to_nat j) h 0).
  { intros j Hj. subst bytes. apply app_nth1. lia. }
  rewrite !cd_rd16_ok by lia. rewrite !cd_idx_ok by lia. rewrite (cd_slc_ok bytes 4) by lia. cbn [ml_bind]. rewrite !HnthZ by lia.
  assert (S3 : slice bytes (Z.to_nat 4) (Z.to_nat 20) = q_addr l).
  { subst bytes. unfold h, mq_hdr. rewrite <- !app_assoc.
    change (cd_put16 (q_mrc l1) ++ [0; 0] ++ q_addr l ++ ?x) with ((cd_put16 (q_mrc l1) ++ [0;0]) ++ q_addr l ++ x).
    apply slice_at; [reflexivity|]. unfold zlen in Ha. change (length (cd_put16 (q_mrc l1) ++ [0; 0])) with 4%nat. lia. }
  rewrite S3.
  assert (N0 : nth (Z.to_nat 0) h 0 = (q_mrc l / 256) mod 256) by reflexivity.
  assert (N1 : nth (Z.to_nat (0 + 1)) h 0 = q_mrc l mod 256) by reflexivity.
  assert (La : length (q_addr l) = 16%nat) by (unfold zlen in Ha; lia).
  assert (Nx : forall j x, nth (4 + 16 + j) (cd_put16 (q_mrc l1) ++ [0; 0] ++ q_addr l ++ x) 0 = nth j x 0).
  { intros j x. change (cd_put16 (q_mrc l1) ++ [0; 0] ++ q_addr l ++ x) with ((cd_put16 (q_mrc l1) ++ [0;0]) ++ q_addr l ++ x).
    rewrite app_nth2 by (change (length (cd_put16 (q_mrc l1) ++ [0; 0])) with 4%nat; lia).
    change (length (cd_put16 (q_mrc l1) ++ [0; 0])) with 4%nat. rewrite app_nth2 by lia. f_equal. lia. }
  assert (N20 : nth (Z.to_nat 20) h 0 = q_qrv l mod 8 + (if q_s l then 8 else 0)) by (change (Z.to_nat 20) with (4 + 16 + 0)%nat; unfold h, mq_hdr; rewrite Nx; reflexivity).
  assert (N21 : nth (Z.to_nat 21) h 0 = q_qqic l mod 256) by (change (Z.to_nat 21) with (4 + 16 + 1)%nat; unfold h, mq_hdr; rewrite Nx; reflexivity).
  assert (N22 : nth (Z.to_nat 22) h 0 = (k / 256) mod 256) by (change (Z.to_nat 22) with (4 + 16 + 2)%nat; unfold h, mq_hdr; rewrite Nx; reflexivity).
  assert (N23 : nth (Z.to_nat (22 + 1)) h 0 = k mod 256) by (change (Z.to_nat (22 + 1)) with (4 + 16 + 3)%nat; unfold h, mq_hdr; rewrite Nx; reflexivity).
  rewrite N0, N1, N20, N21, N22, N23. rewrite (cd_put16_be (q_mrc l)) by lia. rewrite (cd_put16_be k) by lia.
  assert (Tk : mld_take bytes 24 (Z.to_nat k) = Ok (q_srcs l, true)).
  { subst bytes. rewrite <- Hh. unfold k, mld_cnt. rewrite Nat2Z.id. apply take_concat. exact Hs. }
  rewrite Tk. cbn [ml_bind fst snd negb app].
  rewrite !cd_slc_ok by lia. cbn [ml_bind].
  assert (S1 : slice bytes (Z.to_nat 0) (Z.to_nat (24 + 16 * k)) = bytes).
  { rewrite <- Hn. unfold slice, zlen. rewrite Nat2Z.id. change (Z.to_nat 0) with 0%nat. cbn [skipn]. apply firstn_all. }
  assert (S2 : slice bytes (Z.to_nat (24 + 16 * k)) (Z.to_nat (zlen bytes)) = []).
  { rewrite <- Hn. unfold slice, zlen. rewrite Nat2Z.id. rewrite firstn_all. apply skipn_all. }
  rewrite S1, S2.
  f_equal. f_equal. f_equal; try lia. all: try (destruct (q_s l); lia).
Qed.
Print Assumptions C06_mld2q_roundtrip.

Definition mar_wf (r : mar) : Prop :=
  0 <= r_type r < 256 /\ mld_addr_wf (r_addr r) /\ Forall mld_addr_wf (r_srcs r) /\ mld_cnt (r_srcs r) < 65536 /\ bytes_ok (r_aux r) /\ zlen (r_aux r) <= 1020.
Definition mar_fixed (r : mar) : mar :=
  let aux := mar_pad false (r_aux r) in mkMar (r_type r) (zlen aux / 4) (mld_cnt (r_srcs r)) (r_addr r) (r_srcs r) aux.
Definition C06_mld2r_roundtrip_stmt : Prop := forall l csum junk bytes l' old,
  Forall mar_wf (mr_recs l) -> mld_cnt (mr_recs l) < 65536 -> mr_serialize l [] true csum junk = (Ok bytes, l') ->
  mr_recs l' = map mar_fixed (mr_recs l) /\
  mr_decode_into old bytes = (mkMr bytes [] (mld_cnt (mr_recs l)) (map mar_fixed (mr_recs l)), Ok tt, false).
(* before the repair: one octet of auxiliary data is padded to two and announced as zero words: the octets are read as the next record *)
Theorem C06_mld2r_orig_refuted : exists l bytes l',
  Forall mar_wf (mr_recs l) /\ mr_serialize_gen true l [] true false [] = (Ok bytes, l') /\
  snd (fst (mr_decode_into mr_fresh bytes)) = Ok tt /\ mr_recs (fst (fst (mr_decode_into mr_fresh bytes))) <> mr_recs l'.
Proof.
  exists (mkMr [] [] 0 [mkMar 1 0 0 (repeat 1 16) [] [9]]). eexists. eexists.
  split; [repeat constructor; cbn; try lia; try apply Forall_forall; try (intros x Hx; apply repeat_spec in Hx; subst; unfold byte_ok; lia); unfold byte_ok; lia|].
  split; [vm_compute; reflexivity|]. split; [vm_compute; reflexivity|]. vm_compute. intros X. discriminate X.
Qed.

(* the v2 report round trip, proved: records as fixed by FixLengths (counts set, auxiliary data padded) come back *)
Definition rec_ok (r : mar) : Prop :=
  0 <= r_type r < 256 /\ mld_addr_wf (r_addr r) /\ Forall mld_addr_wf (r_srcs r) /\ r_n r = mld_cnt (r_srcs r) /\ r_n r < 65536 /\
  0 <= r_auxlen r < 256 /\ zlen (r_aux r) = 4 * r_auxlen r.
Definition rb (r : mar) : list Z := ([r_type r; r_auxlen r] ++ cd_put16 (r_n r) ++ r_addr r) ++ concat (r_srcs r) ++ r_aux r.

Lemma pad_len aux : zlen (mar_pad false aux) mod 4 = 0 /\ zlen aux <= zlen (mar_pad false aux) <= zlen aux + 3.
Proof.
  unfold mar_pad. cbv zeta. pose proof (zlen_nonneg aux). destruct (zlen aux mod 4 =? 0) eqn:C; cbv beta iota; [lia|].
  rewrite zlen_app. assert (R : zlen (repeat 0 (Z.to_nat (4 - zlen aux mod 4))) = 4 - zlen aux mod 4) by (unfold zlen; rewrite repeat_length; lia). rewrite R. lia.
Qed.
Lemma fixed_ok r : mar_wf r -> rec_ok (mar_fixed r).
Proof.
  intros [Ht [Ha [Hs [Hc [Hb Hl]]]]]. destruct (pad_len (r_aux r)) as [P1 P2]. pose proof (zlen_nonneg (r_aux r)).
  unfold rec_ok, mar_fixed. cbv zeta. cbn [r_type r_addr r_srcs r_n r_auxlen r_aux].
  assert (C0 : 0 <= mld_cnt (r_srcs r)) by (unfold mld_cnt; lia).
  split; [exact Ht|]. split; [exact Ha|]. split; [exact Hs|]. split; [reflexivity|]. split; [exact Hc|]. split; lia.
Qed.
Lemma rb_len r : rec_ok r -> zlen (rb r) = 20 + 16 * r_n r + zlen (r_aux r).
Proof.
  intros [Ht [[Ha _] [Hs [Hn _]]]]. unfold rb. rewrite !zlen_app, zlen_put16, Ha, (zlen_concat16 _ Hs), !zlen_cons. change (zlen []) with 0. lia.
Qed.

Lemma mar_ser_fixed junk r : mar_wf r -> mar_ser false true junk r = (Ok (rb (mar_fixed r)), mar_fixed r).
Proof.
  intros W. pose proof (fixed_ok r W) as [Ht [[Ha Hab] [Hs [Hn [Hn2 [Hal Hax]]]]]]. destruct W as [_ [_ [_ [Hc _]]]].
  unfold mar_ser. cbv zeta. set (aux := mar_pad false (r_aux r)) in *. cbn [andb].
  unfold mar_fixed in *. cbv zeta in *. fold aux in Ht, Ha, Hab, Hs, Hn, Hn2, Hal, Hax |- *. cbn [r_type r_addr r_srcs r_n r_auxlen r_aux] in *.
  destruct (255 <? zlen aux / 4) eqn:C1; [lia|]. rewrite wrc_full by reflexivity.
  destruct (65535 <? mld_cnt (r_srcs r)) eqn:C2; [lia|]. rewrite (addrs_wf_closed junk _ Hs).
  assert (T : mld_to16 (r_addr r) = Some (r_addr r)) by (unfold mld_to16; rewrite Ha; reflexivity). rewrite T.
  rewrite wrc_full by (cbn [app]; rewrite !zlen_cons, zlen_app, zlen_put16, Ha; lia).
  rewrite !Z.mod_small by lia. unfold rb. cbn [r_type r_addr r_srcs r_n r_auxlen r_aux]. reflexivity.
Qed.
Lemma mr_ser_recs_fixed junk rs : Forall mar_wf rs ->
  mr_ser_recs false true junk rs = (Ok (concat (map rb (map mar_fixed rs))), map mar_fixed rs).
Proof.
  induction 1 as [|r rest W _ IH]; [reflexivity|]. cbn [mr_ser_recs map concat]. rewrite IH, (mar_ser_fixed junk r W). reflexivity.
Qed.

Lemma mar_decode_rb r tail : rec_ok r -> mar_decode (rb r ++ tail) = (Ok (r, zlen (rb r)), false).
Proof.
  intros K. pose proof (rb_len r K) as RL. destruct K as [Ht [[Ha Hab] [Hs [Hn [Hn2 [Hal Hax]]]]]].
  pose proof (zlen_nonneg tail) as Nt. assert (N0 : 0 <= r_n r) by (rewrite Hn; unfold mld_cnt; lia).
  remember (rb r ++ tail) as rest eqn:Er. assert (Hr : zlen rest = zlen (rb r) + zlen tail) by (rewrite Er, zlen_app; reflexivity).
  unfold mar_decode. destruct (zlen rest <? 20) eqn:C; [lia|].
  rewrite !cd_idx_ok by lia. rewrite cd_rd16_ok by lia. rewrite (cd_slc_ok rest 4) by lia.
  assert (A0 : nth (Z.to_nat 0) rest 0 = r_type r) by (rewrite Er; reflexivity).
  assert (A1 : nth (Z.to_nat 1) rest 0 = r_auxlen r) by (rewrite Er; reflexivity).
  assert (A2 : nth (Z.to_nat 2) rest 0 = (r_n r / 256) mod 256) by (rewrite Er; reflexivity).
  assert (A3 : nth (Z.to_nat (2 + 1)) rest 0 = r_n r mod 256) by (rewrite Er; reflexivity).
  rewrite A0, A1, A2, A3. rewrite (cd_put16_be (r_n r)) by lia.
  assert (La : length (r_addr r) = 16%nat) by (unfold zlen in Ha; lia).
  assert (S1 : slice rest (Z.to_nat 4) (Z.to_nat 20) = r_addr r).
  { rewrite Er. unfold rb. rewrite <- !app_assoc. change ([r_type r; r_auxlen r] ++ cd_put16 (r_n r) ++ r_addr r ++ ?x) with (([r_type r; r_auxlen r] ++ cd_put16 (r_n r)) ++ r_addr r ++ x).
    apply slice_at; [reflexivity|]. change (length ([r_type r; r_auxlen r] ++ cd_put16 (r_n r))) with 4%nat. lia. }
  rewrite S1.
  set (pre := [r_type r; r_auxlen r] ++ cd_put16 (r_n r) ++ r_addr r).
  assert (P : zlen pre = 20) by (unfold pre; rewrite !zlen_app, zlen_put16, !zlen_cons, Ha; change (zlen []) with 0; lia).
  assert (E : rest = pre ++ concat (r_srcs r) ++ (r_aux r ++ tail)) by (rewrite Er; unfold rb; fold pre; rewrite <- !app_assoc; reflexivity).
  assert (Tk : mld_take rest 20 (Z.to_nat (r_n r)) = Ok (r_srcs r, true)).
  { rewrite E, <- P, Hn. unfold mld_cnt. rewrite Nat2Z.id. apply take_concat. exact Hs. }
  rewrite Tk. pose proof (zlen_concat16 _ Hs) as Zc. rewrite <- Hn in Zc.
  destruct (zlen rest <? r_auxlen r * 4 + (20 + r_n r * 16)) eqn:C2; [lia|].
  rewrite cd_slc_ok by lia.
  assert (S2 : slice rest (Z.to_nat (20 + r_n r * 16)) (Z.to_nat (r_auxlen r * 4 + (20 + r_n r * 16))) = r_aux r).
  { rewrite E. rewrite (app_assoc pre). apply slice_at; unfold zlen in *; rewrite ?app_length; lia. }
  rewrite S2. replace (r_auxlen r * 4 + (20 + r_n r * 16)) with (zlen (rb r)) by lia. destruct r; reflexivity.
Qed.

Lemma mr_loop_rb : forall rs pre, Forall rec_ok rs ->
  mr_loop (pre ++ concat (map rb rs)) (zlen pre) (length rs) = (rs, zlen pre + zlen (concat (map rb rs)), Ok tt, false).
Proof.
  induction rs as [|r rest IH]; intros pre H; [cbn; rewrite Z.add_0_r; reflexivity|].
  inversion H as [|? ? K Hr]; subst. cbn [map concat length mr_loop].
  pose proof (zlen_nonneg pre). pose proof (zlen_nonneg (rb r ++ concat (map rb rest))).
  remember (pre ++ rb r ++ concat (map rb rest)) as data eqn:Ed.
  assert (Hn : zlen data = zlen pre + zlen (rb r ++ concat (map rb rest))) by (rewrite Ed, zlen_app; reflexivity).
  rewrite cd_slc_ok by lia.
  assert (S : slice data (Z.to_nat (zlen pre)) (Z.to_nat (zlen data)) = rb r ++ concat (map rb rest)).
  { rewrite Ed. apply slice_to_end; [unfold zlen; lia|]. rewrite zlen_app. unfold zlen. lia. }
  rewrite S, (mar_decode_rb r _ K).
  assert (E : data = (pre ++ rb r) ++ concat (map rb rest)) by (rewrite Ed; apply app_assoc).
  assert (Z' : zlen pre + zlen (rb r) = zlen (pre ++ rb r)) by (rewrite zlen_app; reflexivity).
  rewrite E, Z', (IH (pre ++ rb r) Hr). rewrite !zlen_app. f_equal. f_equal. f_equal. lia.
Qed.

Theorem C06_mld2r_roundtrip : C06_mld2r_roundtrip_stmt.
Proof.
  unfold C06_mld2r_roundtrip_stmt. intros l csum junk bytes l' old W Hc.
  unfold mr_serialize, mr_serialize_gen. rewrite (mr_ser_recs_fixed junk _ W). cbv zeta.
  set (rs := map mar_fixed (mr_recs l)). assert (Cn : mld_cnt rs = mld_cnt (mr_recs l)) by (unfold rs, mld_cnt; rewrite map_length; reflexivity).
  cbn [andb]. destruct (65535 <? mld_cnt rs) eqn:C0; [lia|]. rewrite wrc_full by reflexivity. cbn [mr_n]. intros X.
  assert (E1 : bytes = ([0;0] ++ cd_put16 (mld_cnt rs)) ++ concat (map rb rs) ++ []) by congruence.
  assert (E2 : l' = mkMr (mr_contents l) (mr_payload l) (mld_cnt rs) rs) by congruence. clear X. subst l'. split; [reflexivity|].
  rewrite app_nil_r in E1. set (pre := [0;0] ++ cd_put16 (mld_cnt rs)) in *. assert (P : zlen pre = 4) by reflexivity.
  assert (K : Forall rec_ok rs) by (unfold rs; apply Forall_forall; intros x Hx; apply in_map_iff in Hx; destruct Hx as [y [<- Hy]]; apply fixed_ok; rewrite Forall_forall in W; apply W; exact Hy).
  assert (C1 : 0 <= mld_cnt rs) by (unfold mld_cnt; lia). pose proof (zlen_nonneg (concat (map rb rs))) as Nc.
  assert (Hn : zlen bytes = 4 + zlen (concat (map rb rs))) by (rewrite E1, zlen_app, P; reflexivity).
  unfold mr_decode_into, mr_decode_gen. cbv zeta. destruct (zlen bytes <? 4) eqn:C; [lia|]. rewrite cd_rd16_ok by lia. cbn [ml_bind].
  assert (A2 : nth (Z.to_nat 2) bytes 0 = (mld_cnt rs / 256) mod 256) by (rewrite E1; reflexivity).
  assert (A3 : nth (Z.to_nat (2 + 1)) bytes 0 = mld_cnt rs mod 256) by (rewrite E1; reflexivity).
  rewrite A2, A3, (cd_put16_be (mld_cnt rs)) by lia.
  assert (L : mr_loop bytes 4 (Z.to_nat (mld_cnt rs)) = (rs, zlen bytes, Ok tt, false)).
  { rewrite E1 at 1. rewrite <- P. unfold mld_cnt at 1. rewrite Nat2Z.id. rewrite (mr_loop_rb rs pre K). rewrite Hn, P. reflexivity. }
  rewrite L. rewrite !cd_slc_ok by lia. cbn [ml_bind app].
  assert (S1 : slice bytes (Z.to_nat 0) (Z.to_nat (zlen bytes)) = bytes).
  { unfold slice, zlen. rewrite Nat2Z.id. change (Z.to_nat 0) with 0%nat. cbn [skipn]. apply firstn_all. }
  assert (S2 : slice bytes (Z.to_nat (zlen bytes)) (Z.to_nat (zlen bytes)) = []).
  { unfold slice, zlen. rewrite Nat2Z.id. rewrite firstn_all. apply skipn_all. }
  rewrite S1, S2, Cn. reflexivity.
Qed.
Print Assumptions C06_mld2r_roundtrip.

Example Licmp6mld_nonvacuous :
  let q := mkMq [] [] 1000 (repeat 255 16) true 2 125 0 [repeat 1 16; repeat 2 16] in
  let r := mkMr [] [] 0 [mkMar 4 0 0 (repeat 255 16) [repeat 1 16] [9;8;7]] in
  mq_wf q /\ Forall mar_wf (mr_recs r) /\
  (exists b l', mq_serialize q [] true false [170] = (Ok b, l') /\ fst (fst (mq_decode_into mq_fresh b)) = mkMq b [] 1000 (repeat 255 16) true 2 125 2 [repeat 1 16; repeat 2 16]) /\
  (exists b l', mr_serialize r [] true false [170] = (Ok b, l') /\ zlen b = 4 + 20 + 16 + 4 /\
     mr_decode_into mr_fresh b = (mkMr b [] 1 [mkMar 4 1 1 (repeat 255 16) [repeat 1 16] [9;8;7;0]], Ok tt, false)) /\
  snd (mr_decode_into mr_fresh ([0;0;0;1] ++ repeat 0 19)) = true /\ snd (fst (mr_decode_into mr_fresh ([0;0;0;1; 1;1;0;0] ++ repeat 0 17))) = Err 4.
Proof.
  assert (A : forall v, 0 <= v < 256 -> mld_addr_wf (repeat v 16)).
  { intros v Hv. split; [reflexivity|]. apply Forall_forall. intros x Hx. apply repeat_spec in Hx. subst. exact Hv. }
  cbv zeta. split.
  { unfold mq_wf; cbn [q_mrc q_addr q_qrv q_qqic q_srcs]. split; [lia|]. split; [apply A; lia|]. split; [lia|]. split; [lia|].
    split; [constructor; [apply A; lia|constructor; [apply A; lia|constructor]]|vm_compute; reflexivity]. }
  split.
  { cbn [mr_recs]. constructor; [|constructor]. unfold mar_wf; cbn [r_type r_addr r_srcs r_aux]. split; [lia|]. split; [apply A; lia|].
    split; [constructor; [apply A; lia|constructor]|]. split; [vm_compute; reflexivity|].
    split; [repeat constructor; unfold byte_ok; lia|unfold zlen; cbn [length]; lia]. }
  split; [eexists; eexists; split; vm_compute; reflexivity|].
  split; [eexists; eexists; split; [vm_compute; reflexivity|split; vm_compute; reflexivity]|].
  split; vm_compute; reflexivity.
Qed.
