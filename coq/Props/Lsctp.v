(* Lsctp — layers/sctp.go common header and chunk walk.  Property theorems only. *)
From GP Require Import Base LtcpModel LsctpModel.
Open Scope Z_scope.

Definition shdr : list Z := [11;89;11;89;0;0;0;0;17;34;51;68].

(* unchanged tree: a 4-byte Init / Sack / Shutdown chunk at the end of the packet, a heartbeat
   parameter with length 0: slice bounds out of range *)
Theorem C19_sctp_orig_refuted :
  snd (sctp_packet_orig (shdr ++ [1;0;0;4]) []) = Panic 600 /\
  snd (sctp_packet_orig (shdr ++ [3;0;0;4]) []) = Panic 700 /\
  snd (sctp_packet_orig (shdr ++ [7;0;0;4]) []) = Panic 900 /\
  snd (sctp_packet_orig (shdr ++ [4;0;0;8;170;187;0;0]) []) = Panic 502.
Proof. vm_compute. repeat split. Qed.
Print Assumptions C19_sctp_orig_refuted.
