(* Lsctp — layers/sctp.go: SCTP common header and the chunk walk of packet decoding.
   Property theorems only; each is closed by a lemma of Proofs/LsctpProofs.v.
   sctp_packet true / sserialize true model the repaired tree (three fix: commits),
   the *_orig definitions the unchanged tree. *)
From GP Require Import Base LtcpModel LtcpProofs LsctpModel LsctpProofs.
Open Scope Z_scope.

Definition shdr : list Z := [11;89;11;89;0;0;0;0;17;34;51;68].

(* ---------------------------------------------------------------- C19 *)
(* Decoding an SCTP packet with panic recovery off (SCTP.DecodeFromBytes, then the chunk decoders
   chained through NextDecoder: Data, Init/InitAck with parameters, Sack, Heartbeat(/Ack), Abort/Error,
   Shutdown, ShutdownAck, CookieEcho, CookieAck/ShutdownComplete, unregistered types): no panic
   and no runaway loop, for every byte string and every content of the spare capacity behind it. *)
Theorem C19_sctp_no_panic : forall data extra s,
  bytes_ok data -> snd (sctp_packet true data extra) <> Panic s.
Proof. intros data extra s Hb. revert s. apply np_not_panic. apply sctp_packet_np. exact Hb. Qed.
Print Assumptions C19_sctp_no_panic.

Theorem C19_sctp_header_no_panic : forall old data s, snd (sdecode_into old data) <> Panic s.
Proof. intros old data. apply np_not_panic. apply sdecode_np. Qed.

(* non-vacuity: CookieEcho + Data + Sack with gap and duplicate blocks decode to three chunks;
   an Init with a parameter whose length is cut short is an error *)
Example C19_sctp_nonvacuous :
  (let r := sctp_packet true (shdr ++ [10;0;0;7;1;2;3;0] ++ [0;3;0;17;0;0;0;1;0;2;0;3;0;0;0;4;97;0;0;0]
                                    ++ [3;0;0;28;0;0;0;9;0;0;16;0;0;1;0;2;0;1;0;2;0;0;0;7;0;0;0;8]) [] in
   snd r = Ok tt /\ length (snd (fst (fst r))) = 3%nat) /\
  snd (sctp_packet true (shdr ++ [1;0;0;26] ++ repeat 0 16 ++ [0;5;0;9;10;0;0;0]) []) = Err 50.
Proof. vm_compute. repeat split. Qed.

(* unchanged tree: a 4-byte Init / Sack / Shutdown chunk at the end of the packet, a heartbeat
   parameter with length 0: slice bounds out of range *)
Theorem C19_sctp_orig_refuted :
  snd (sctp_packet_orig (shdr ++ [1;0;0;4]) []) = Panic 600 /\
  snd (sctp_packet_orig (shdr ++ [3;0;0;4]) []) = Panic 700 /\
  snd (sctp_packet_orig (shdr ++ [7;0;0;4]) []) = Panic 900 /\
  snd (sctp_packet_orig (shdr ++ [4;0;0;8;170;187;0;0]) []) = Panic 502.
Proof. vm_compute. repeat split. Qed.
Print Assumptions C19_sctp_orig_refuted.

(* ---------------------------------------------------------------- C05 *)
Theorem C05_sctp_fresh : forall old data,
  snd (sdecode_into old data) = snd (sdecode_into sctp0 data) /\
  (snd (sdecode_into old data) = Ok tt -> sdecode_into old data = sdecode_into sctp0 data).
Proof. exact sdecode_fresh. Qed.
Print Assumptions C05_sctp_fresh.

(* ---------------------------------------------------------------- C07 *)
(* SCTP.SerializeTo: never a panic; every byte of the 12-byte region is written (the output is a
   function of the layer, the payload and ComputeChecksums only) *)
Theorem C07_sctp_output : forall s payload cs junk,
  sserialize true s payload cs junk = Ok (shdr_bytes s cs payload ++ payload).
Proof. exact sser_spec. Qed.
Print Assumptions C07_sctp_output.

Theorem C07_sctp_no_panic : forall s payload cs junk site, sserialize true s payload cs junk <> Panic site.
Proof. intros. rewrite sser_spec. discriminate. Qed.

Theorem C07_sctp_junk_free : forall s payload cs junk1 junk2,
  sserialize true s payload cs junk1 = sserialize true s payload cs junk2.
Proof. intros. rewrite !sser_spec. reflexivity. Qed.
Print Assumptions C07_sctp_junk_free.

(* unchanged tree: the checksum bytes are the prior buffer content without ComputeChecksums, and
   the CRC32c depends on it with ComputeChecksums *)
Theorem C07_sctp_orig_refuted :
  sserialize_orig sctp0 [] false [] <> sserialize_orig sctp0 [] false (repeat 170 12) /\
  sserialize_orig sctp0 [] true [] <> sserialize_orig sctp0 [] true (repeat 170 12).
Proof. vm_compute. split; discriminate. Qed.
Print Assumptions C07_sctp_orig_refuted.

(* ---------------------------------------------------------------- C06 *)
(* in-range ports and verification tag: serialize (with or without checksum), decode: no error, the
   same ports, tag and payload; Contents = the 12 header bytes.  (The Checksum field is not
   compared when it is computed: SerializeTo has a value receiver and cannot store it.) *)
Theorem C06_sctp_roundtrip : forall s cs payload junk, sctp_wf s ->
  exists bytes s2,
    sserialize true s payload cs junk = Ok bytes /\
    sdecode_into sctp0 bytes = (s2, Ok tt) /\
    (s_sp s2, s_dp s2, s_vtag s2) = (s_sp s, s_dp s, s_vtag s) /\
    s_payload s2 = payload /\ s_contents s2 ++ s_payload s2 = bytes.
Proof.
  intros s cs payload junk Hwf. destruct (sdecode_ser s cs payload Hwf) as (sum & Hd).
  eexists. eexists. split; [apply sser_spec|]. split; [exact Hd|]. repeat split.
Qed.
Print Assumptions C06_sctp_roundtrip.

Example C06_sctp_nonvacuous :
  sctp_wf (fst (sdecode_into sctp0 shdr)) /\
  sserialize true (fst (sdecode_into sctp0 shdr)) [1;2;3] true (repeat 170 12)
    = Ok [11;89;11;89;0;0;0;0; 96;207;158;168; 1;2;3].
Proof. vm_compute. repeat split; try discriminate. Qed.
