(* C02 — decoding is deterministic and side-effect free; eager packets are shareable.
   Property theorems only. *)
From GP Require Import Base C02Model C02Proofs C04Model C04Proofs.
Open Scope nat_scope.

(* For ANY decoder family (pure functions of tables, bytes, first layer, options) whose
   tables are never written during decoding (source fact F4, re-checked on every run):
   the tables come back unchanged from every history, every result is the function of its
   own arguments, and decoding x after any history equals decoding x after any other. *)
Theorem C02_pure_globals : forall G Pkt decode g h, snd (run_hist G Pkt decode g h) = g.
Proof. exact hist_globals. Qed.
Theorem C02_pure_results : forall G Pkt decode g h,
  fst (run_hist G Pkt decode g h) = map (fun x => let '(d, f, o) := x in decode g d f o) h.
Proof. exact hist_results. Qed.
Theorem C02_history_independent : forall G Pkt decode g h1 h2 x,
  last (fst (run_hist G Pkt decode g (h1 ++ [x]))) (fst (new_packet G Pkt decode g x)) =
  last (fst (run_hist G Pkt decode g (h2 ++ [x]))) (fst (new_packet G Pkt decode g x)).
Proof. exact history_independent. Qed.
Print Assumptions C02_history_independent.

(* NewPacket, Dispose and pool activity never write a caller's buffer (memory model of C04):
   only the caller's own OMut changes it *)
Theorem C02_input_untouched : forall s o c,
  In c (callers s) -> (forall buf i v, o <> OMut buf i v) -> Inv s -> arr_of (step s o) c = arr_of s c.
Proof. exact run_unchanged_callers. Qed.
Print Assumptions C02_input_untouched.

(* Readers of an eager packet (repaired code): every accessor step has an empty write-set and
   leaves the shared state unchanged, hence under EVERY interleaving of any number of reader
   programs each call returns the answer it returns when run alone on the initial state, and
   no two steps conflict (lockset-free race freedom at the model level). *)
Theorem C02_readers_readonly : forall s o, rstep writes_fixed s o = (s, answer s o).
Proof. exact fixed_step_id. Qed.
Theorem C02_readers_any_interleaving : forall s sched,
  run_sched writes_fixed s sched = map (fun x => (fst x, snd x, answer s (snd x))) sched.
Proof. exact fixed_sched. Qed.
Theorem C02_readers_race_free : forall s sched, race_free writes_fixed s sched = true.
Proof. intros s sched. unfold race_free. apply forallb_forall. intros x _. reflexivity. Qed.
Print Assumptions C02_readers_any_interleaving.

(* The code before the repair: checksum verification wrote the shared buffer and the network
   layer (with unchanged values — answers still agree — but a write all the same: two
   concurrent verifiers, or a verifier and any reader, conflict). *)
Theorem C02_verify_orig_refuted :
  exists s sched, race_free writes_orig s sched = false.
Proof.
  exists {| buf := [1;2;3;4]%Z; hl := 2; src := [10]%Z; dst := [11]%Z |}, [(0, RVerify); (1, RVerify)].
  vm_compute. reflexivity.
Qed.
Theorem C02_verify_orig_value_preserving : forall l pre b h,
  b = pre ++ l -> h = length pre ->
  fold_left apply_write (payload_writes h l) {| buf := b; hl := 0; src := []; dst := [] |} =
  {| buf := b; hl := 0; src := []; dst := [] |}.
Proof. exact payload_writes_id. Qed.

Example C02_nonvacuous :
  run_sched writes_fixed {| buf := [1;2;3;4;5]%Z; hl := 2; src := [10;0;0;1]%Z; dst := [10;0;0;2]%Z |}
    [(0, RVerify); (1, RString); (0, RDump); (1, RVerify)] =
  [(0, RVerify, 7433%Z); (1, RString, 259%Z); (0, RDump, 2312%Z); (1, RVerify, 7433%Z)].
Proof. vm_compute. reflexivity. Qed.
