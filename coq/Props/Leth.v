(* Leth — Ethernet header codec (layers/ethernet.go): contributions to C19, C05, C06, C07, C01.
   Property theorems only.  `eth_serialize` models the code after the fix: commit of branch
   agent-lnet4 (Length >= 0x0600 refused); `eth_serialize_orig` the unchanged code. *)
From GP Require Import Base Codec LethModel LethProofs.
Open Scope Z_scope.

(* C19: DecodeFromBytes never panics on any byte string, for any receiver state *)
Theorem C19_eth_no_panic : forall old data, bytes_ok data ->
  is_panic (snd (fst (eth_decode_into old data))) = false.
Proof. exact eth_decode_no_panic. Qed.
Print Assumptions C19_eth_no_panic.

(* C05 *)
Theorem C05_eth_fresh : forall old data,
  let r1 := eth_decode_into old data in
  let r2 := eth_decode_into eth_fresh data in
  snd (fst r1) = snd (fst r2) /\ snd r1 = snd r2 /\
  (snd (fst r1) = Ok tt -> fst (fst r1) = fst (fst r2)).
Proof. exact eth_decode_fresh. Qed.
Print Assumptions C05_eth_fresh.

(* C06: every layer in range (EthernetType >= 0x0600 with Length 0, or the LLC pseudo-type, under
   which FixLengths sets the 802.3 length), every payload: the frame written is
   dst ++ src ++ type-or-length ++ payload ++ zero padding up to 60 bytes, and decoding it — into
   any object — gives no error, no truncation flag, the same addresses and type, Length as
   FixLengths left it, and the same payload; for an EtherType frame below the minimum size the
   payload comes back followed by the zero padding the layer itself added (no length field says
   where the payload ends — our reading of the protocol's minimum frame), under a length field
   the padding is stripped. *)
Theorem C06_eth_roundtrip : forall l payload csum junk bytes l' old,
  eth_wf l -> zlen payload < 65536 ->
  eth_serialize l payload true csum junk = (Ok bytes, l') ->
  bytes = e_dst l ++ e_src l ++ cd_put16 (if e_type l =? 0 then zlen payload else e_type l) ++ payload ++ eth_padding payload /\
  e_type l' = e_type l /\ e_length l' = (if e_type l =? 0 then zlen payload else 0) /\
  eth_decode_into old bytes =
    (mkEth (e_dst l ++ e_src l ++ cd_put16 (if e_type l =? 0 then zlen payload else e_type l))
           (if e_type l =? 0 then payload else payload ++ eth_padding payload)
           (e_src l) (e_dst l) (e_type l') (e_length l'), Ok tt, false).
Proof. exact eth_roundtrip. Qed.
Print Assumptions C06_eth_roundtrip.

(* C06: the decoded layer serialized over the payload it decoded to reproduces the frame *)
Theorem C06_eth_fixpoint : forall l payload csum junk junk' bytes l' d tr,
  eth_wf l -> zlen payload < 65536 ->
  eth_serialize l payload true csum junk = (Ok bytes, l') ->
  eth_decode_into eth_fresh bytes = (d, Ok tt, tr) ->
  fst (eth_serialize d (e_payload d) true csum junk') = Ok bytes.
Proof. exact eth_fixpoint. Qed.
Print Assumptions C06_eth_fixpoint.

(* every layer obtained by decoding is in range *)
Theorem C06_eth_decoded_wf : forall old data l tr, bytes_ok data ->
  eth_decode_into old data = (l, Ok tt, tr) -> eth_wf l.
Proof. exact eth_decoded_wf. Qed.
Print Assumptions C06_eth_decoded_wf.

(* unchanged code: a 1536 byte payload under a length field is written as Length 0x0600, which
   DecodeFromBytes reads as an EtherType: the round trip loses Length and the LLC type *)
Theorem C06_eth_roundtrip_orig_refuted :
  let l := mkEth [] [] [2;0;0;0;0;1] [2;0;0;0;0;2] 0 0 in
  let p := repeat 7 (Z.to_nat 1536) in
  eth_wf l /\ zlen p < 65536 /\
  match eth_serialize_orig l p true true [] with
  | (Ok bytes, l') => e_length l' = 1536 /\ e_type (fst (fst (eth_decode_into eth_fresh bytes))) = 1536 /\
                      e_length (fst (fst (eth_decode_into eth_fresh bytes))) = 0
  | _ => False
  end.
Proof. vm_compute. repeat split; try discriminate. left; reflexivity. Qed.
Print Assumptions C06_eth_roundtrip_orig_refuted.

(* C07 *)
Theorem C07_eth_no_panic : forall l payload fixl csum junk,
  is_panic (fst (eth_serialize l payload fixl csum junk)) = false.
Proof. intros. apply eth_serialize_no_panic. Qed.
Print Assumptions C07_eth_no_panic.

Theorem C07_eth_junk_free : forall l payload fixl csum junk1 junk2,
  eth_serialize l payload fixl csum junk1 = eth_serialize l payload fixl csum junk2.
Proof. intros. apply eth_serialize_junk_free. Qed.
Print Assumptions C07_eth_junk_free.

(* C01 *)
Theorem C01_eth_render_total : forall old data,
  eth_render_panics old = false -> eth_render_panics (fst (fst (eth_decode_into old data))) = false.
Proof. exact eth_decode_render. Qed.
Print Assumptions C01_eth_render_total.
Example C01_eth_render_fresh : eth_render_panics eth_fresh = false.
Proof. reflexivity. Qed.

(* non-vacuity *)
Example Leth_nonvacuous :
  let l := mkEth [] [] [2;0;0;0;0;1] [2;0;0;0;0;2] 2048 0 in
  eth_wf l /\ exists bytes l', eth_serialize l [69;0;0;1] true true (repeat 170 64) = (Ok bytes, l') /\ (length bytes = 60)%nat.
Proof. split; [right; cbn; lia|]. eexists; eexists. vm_compute. split; reflexivity. Qed.
Example Leth_nonvacuous_llc :
  let l := mkEth [] [] [2;0;0;0;0;1] [2;0;0;0;0;2] 0 0 in
  eth_wf l /\ exists bytes l', eth_serialize l [170;170;3] true true [] = (Ok bytes, l') /\ e_length l' = 3.
Proof. split; [left; reflexivity|]. eexists; eexists. vm_compute. split; reflexivity. Qed.
