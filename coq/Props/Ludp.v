(* Ludp — UDP header codec (layers/udp.go, pseudo-header sum of layers/tcpip.go):
   contributions to C19, C05, C06, C07, C01.  Property theorems only. *)
From GP Require Import Base Codec Lip4Model LudpModel LudpProofs.
Open Scope Z_scope.

(* C19: DecodeFromBytes never panics, for any receiver state and any data *)
Theorem C19_udp_no_panic : forall old data, is_panic (snd (fst (udp_decode_into old data))) = false.
Proof. exact udp_decode_no_panic. Qed.
Print Assumptions C19_udp_no_panic.

(* C05: same outcome, truncation flag and (on success) same layer as decoding into a fresh object *)
Theorem C05_udp_fresh : forall old data,
  let r1 := udp_decode_into old data in
  let r2 := udp_decode_into udp_fresh data in
  snd (fst r1) = snd (fst r2) /\ snd r1 = snd r2 /\
  (snd (fst r1) = Ok tt -> fst (fst r1) = fst (fst r2)).
Proof. exact udp_decode_fresh. Qed.
Print Assumptions C05_udp_fresh.

(* C06: for every layer with in-range ports, every payload that fits the length field (or any
   payload at all over IPv6: jumbogram, Length 0), every attached network layer for which the
   checksum can be computed: the bytes written with FixLengths (and ComputeChecksums, or a stored
   checksum in range) are header ++ payload, and decode — into any object — without error or
   truncation to the layer as SerializeTo left it and to the same payload. *)
Theorem C06_udp_roundtrip : forall l payload csum ph junk bytes l' old,
  udp_in_range l payload ph -> (csum = true \/ 0 <= u_csum l < 65536) ->
  udp_serialize l payload true csum ph junk = (Ok bytes, l') ->
  bytes = udp_hdr l' (u_csum l') ++ payload /\
  u_sport l' = u_sport l /\ u_dport l' = u_dport l /\
  udp_decode_into old bytes =
    (mkUdp (udp_hdr l' (u_csum l')) payload (u_sport l') (u_dport l') (u_length l') (u_csum l')
           (cd_put16 (u_sport l')) (cd_put16 (u_dport l')), Ok tt, false).
Proof. exact udp_roundtrip. Qed.
Print Assumptions C06_udp_roundtrip.

(* C06: serializing the decoded layer (any layer with the same ports) again gives the same bytes *)
Theorem C06_udp_fixpoint : forall l payload ph junk junk' bytes l' d,
  udp_serialize l payload true true ph junk = (Ok bytes, l') ->
  u_sport d = u_sport l -> u_dport d = u_dport l ->
  fst (udp_serialize d payload true true ph junk') = Ok bytes.
Proof. exact udp_fixpoint. Qed.
Print Assumptions C06_udp_fixpoint.

(* outside the range: a payload of 65535 bytes over IPv4 wraps the length field to 7 and the
   result does not decode (protocol limit, not a defect: stated so the range is visibly tight) *)
Example C06_udp_range_tight :
  let l := mkUdp [] [] 1 2 0 0 [] [] in
  let r := udp_serialize l (repeat 0 (Z.to_nat 65535)) true false (PH4 [10;0;0;1] [10;0;0;2]) [] in
  is_panic (fst r) = false /\ u_length (snd r) = 7.
Proof. vm_compute. split; reflexivity. Qed.

(* C07: never panics — every layer value, payload, option set, network layer *)
Theorem C07_udp_no_panic : forall l payload fixl csum ph junk,
  is_panic (fst (udp_serialize l payload fixl csum ph junk)) = false.
Proof. exact udp_serialize_no_panic. Qed.
Print Assumptions C07_udp_no_panic.

(* C07: output independent of the prior content of the prepended region *)
Theorem C07_udp_junk_free : forall l payload fixl csum ph junk1 junk2,
  udp_serialize l payload fixl csum ph junk1 = udp_serialize l payload fixl csum ph junk2.
Proof. exact udp_serialize_junk_free. Qed.
Print Assumptions C07_udp_junk_free.

(* C01: reflective renderers are total; TransportFlow's NewFlow panic condition (raw port
   slice longer than 16 bytes) is false initially and preserved by every decode *)
Theorem C01_udp_render_total : forall old data,
  udp_render_panics old = false -> udp_render_panics (fst (fst (udp_decode_into old data))) = false.
Proof. exact udp_decode_render. Qed.
Print Assumptions C01_udp_render_total.
Example C01_udp_render_fresh : udp_render_panics udp_fresh = false.
Proof. reflexivity. Qed.

(* the emitted checksum is never 0 (RFC 768 rule, udp.go:99-101) *)
Theorem C08_udp_emitted_nonzero : forall c, 0 <= c < 4294967296 -> 0 < udp_emit c < 65536.
Proof. exact udp_emit_range. Qed.
Print Assumptions C08_udp_emitted_nonzero.

(* non-vacuity: DNS query header, odd payload, checksum over IPv4 pseudo-header; and a jumbogram over IPv6 *)
Example Ludp_nonvacuous :
  let l := mkUdp [] [] 40000 53 0 0 [] [] in
  udp_in_range l [1;2;3] (PH4 [10;0;0;1] [10;0;0;2]) /\
  exists bytes l', udp_serialize l [1;2;3] true true (PH4 [10;0;0;1] [10;0;0;2]) [7;7;7;7;7;7;7;7] = (Ok bytes, l') /\
    u_length l' = 11 /\ (length bytes = 11)%nat.
Proof.
  split; [unfold udp_in_range; cbn; lia|]. eexists; eexists. vm_compute. repeat split.
Qed.
Example Ludp_nonvacuous_jumbo :
  let l := mkUdp [] [] 1 2 0 0 [] [] in
  let p := repeat 0 (Z.to_nat 65530) in
  let ph := PH6 (repeat 1 16) (repeat 2 16) in
  udp_in_range l p ph /\
  (let r := udp_serialize l p true true ph [] in
   match fst r with Ok b => zlen b = 65538 | _ => False end /\ u_length (snd r) = 0).
Proof.
  cbv zeta. split; [unfold udp_in_range; cbn [u_sport u_dport]; split; [lia|split; [lia|right; eexists; eexists; reflexivity]]|].
  vm_compute. split; reflexivity.
Qed.
