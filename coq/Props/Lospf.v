(* Lospf — OSPFv2 / OSPFv3 decoders (layers/ospf.go, as repaired): contributions to C19, C05, C01.
   The layers have no SerializeTo: C06 and C07 do not apply. *)
From GP Require Import Base Codec MiscLib MidLib LospfModel LospfProofs.
Open Scope Z_scope.

(* C19: header, the five packet bodies, getLSAsv2/getLSAs and every LSA body type of extractLSAInformation
   never index or slice out of range, for every byte string and every receiver state *)
Theorem C19_ospf2_no_panic : forall old data, bytes_ok data ->
  is_panic (snd (fst (os2_decode_into old data))) = false.
Proof. intros old data Hb. exact (proj1 (os2_decode_good true old data Hb)). Qed.
Print Assumptions C19_ospf2_no_panic.

Theorem C19_ospf3_no_panic : forall old data, bytes_ok data ->
  is_panic (snd (fst (os3_decode_into old data))) = false.
Proof. intros old data Hb. exact (proj1 (os3_decode_good true old data Hb)). Qed.
Print Assumptions C19_ospf3_no_panic.

(* the fuel of every loop (length of the slice it walks + 1) is never exhausted *)
Theorem C19_ospf2_fuel : forall old data, bytes_ok data -> snd (fst (os2_decode_into old data)) <> Err 99.
Proof. intros old data Hb. exact (proj2 (os2_decode_good true old data Hb)). Qed.
Theorem C19_ospf3_fuel : forall old data, bytes_ok data -> snd (fst (os3_decode_into old data)) <> Err 99.
Proof. intros old data Hb. exact (proj2 (os3_decode_good true old data Hb)). Qed.
Print Assumptions C19_ospf2_fuel.
Print Assumptions C19_ospf3_fuel.

(* C05: decoding into a reused object = decoding into an object that shares with it only what the decoder
   never writes (BaseLayer is never assigned by these decoders; OSPFv2 has no Instance/Reserved and OSPFv3 no
   AuType/Authentication field — they are carried by the common model record) *)
Theorem C05_ospf2_fresh : forall old data,
  let r1 := os2_decode_into old data in let r2 := os2_decode_into (os2_keep old) data in
  snd (fst r1) = snd (fst r2) /\ snd r1 = snd r2 /\ (snd (fst r1) = Ok tt -> fst (fst r1) = fst (fst r2)).
Proof. exact os2_decode_fresh. Qed.
Print Assumptions C05_ospf2_fresh.

Theorem C05_ospf3_fresh : forall old data,
  let r1 := os3_decode_into old data in let r2 := os3_decode_into (os3_keep old) data in
  snd (fst r1) = snd (fst r2) /\ snd r1 = snd r2 /\ (snd (fst r1) = Ok tt -> fst (fst r1) = fst (fst r2)).
Proof. exact os3_decode_fresh. Qed.
Print Assumptions C05_ospf3_fresh.

(* the original decoders assigned Content only in the five known packet types: a packet of another type
   decoded without error into a reused object kept the Content of the earlier packet *)
Definition ospf_unknown_type_witness : list Z := [2;9;0;24] ++ repeat 0 20.
Theorem C05_ospf2_orig_refuted : exists old data,
  snd (fst (os2_decode_into_orig old data)) = Ok tt /\ snd (fst (os2_decode_into_orig (os2_keep old) data)) = Ok tt /\
  fst (fst (os2_decode_into_orig old data)) <> fst (fst (os2_decode_into_orig (os2_keep old) data)).
Proof.
  exists (mkOs [] [] 2 3 24 0 0 0 0 0 0 0 (CL [CN 4; CL []])), ospf_unknown_type_witness.
  split; [vm_compute; reflexivity|split; [vm_compute; reflexivity|vm_compute; discriminate]].
Qed.
Print Assumptions C05_ospf2_orig_refuted.

Theorem C05_ospf3_orig_refuted : exists old data,
  snd (fst (os3_decode_into_orig old data)) = Ok tt /\ snd (fst (os3_decode_into_orig (os3_keep old) data)) = Ok tt /\
  fst (fst (os3_decode_into_orig old data)) <> fst (fst (os3_decode_into_orig (os3_keep old) data)).
Proof.
  exists (mkOs [] [] 3 3 16 0 0 0 0 0 0 0 (CL [CN 4; CL []])), ([3;9;0;16] ++ repeat 0 12).
  split; [vm_compute; reflexivity|split; [vm_compute; reflexivity|vm_compute; discriminate]].
Qed.

(* C01: reflective renderers only; OSPFType.String is a switch with a default *)
Theorem C01_ospf_render_total : forall old data,
  os_render_panics (fst (fst (os2_decode_into old data))) = false /\ os_render_panics (fst (fst (os3_decode_into old data))) = false.
Proof. split; reflexivity. Qed.

Example Lospf_nonvacuous :
  (* an OSPFv2 Link State Update with one Network-LSA (two attached routers) *)
  let p := [2;4;0;60; 1;1;1;1; 0;0;0;0; 0;0; 0;0; 0;0;0;0;0;0;0;0; 0;0;0;1;
            0;1;2;2; 10;0;0;1; 10;0;0;1; 128;0;0;1; 0;0; 0;32; 255;255;255;0; 1;1;1;1; 2;2;2;2] in
  exists d, os2_decode_into os_fresh p = (d, Ok tt, false) /\
    os_content d = CL [CN 5; CN 1; CL [CL [CL [CN 1; CN 2; CN 167772161; CN 167772161; CN 2147483649; CN 0; CN 32; CN 2];
                                           CL [CN 13; CN 4294967040; CL [CN 16843009; CN 33686018]]]]].
Proof. cbv zeta. eexists. split; vm_compute; reflexivity. Qed.
