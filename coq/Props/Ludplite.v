(* Ludplite — UDP-Lite header decoder (layers/udplite.go): contributions to C19, C01. No DecodeFromBytes (C05 n/a), no SerializeTo (C06/C07 n/a). *)
From GP Require Import Base ListX Codec MiscLib LudpliteModel.
From Coq Require Import Lia ZifyBool ZifyNat.
Open Scope Z_scope.
Ltac Zify.zify_post_hook ::= Z.div_mod_to_equations.

Ltac xstep :=
  match goal with
  | |- context [ml_bind ?o _ _ _] => destruct o eqn:?; cbn [ml_bind]
  | |- context [if ?c then _ else _] => destruct c eqn:?
  end.

Theorem C19_udplite_no_panic : forall data, is_panic (snd (fst (ul_decode data))) = false.
Proof.
  intros data. unfold ul_decode. cbv zeta. destruct (zlen data <? 8) eqn:Hn; [reflexivity|].
  rewrite ?cd_idx_ok by lia. rewrite ?cd_rd16_ok by lia. rewrite ?cd_slc_ok by lia. reflexivity.
Qed.
Print Assumptions C19_udplite_no_panic.

(* what success means: the header is the first 8 octets, the payload the rest *)
Theorem C19_udplite_shape : forall data l tr, ul_decode data = (l, Ok tt, tr) ->
  ul_contents l ++ ul_payload l = data /\ zlen (ul_contents l) = 8 /\ tr = false.
Proof.
  intros data l tr. unfold ul_decode. cbv zeta. destruct (zlen data <? 8) eqn:Hn; [discriminate|].
  rewrite ?cd_idx_ok by lia. rewrite ?cd_rd16_ok by lia. rewrite ?cd_slc_ok by lia. cbn [ml_bind]. intros X.
  match type of X with (?t, _, _) = _ => assert (El : l = t) by congruence end. assert (tr = false) by congruence. subst l. clear X.
  cbn [ul_contents ul_payload]. split; [|split; [|assumption]].
  - unfold slice. change (Z.to_nat 0) with 0%nat. cbn [skipn]. rewrite (firstn_all2 (n := Z.to_nat (zlen data)) data) by (unfold zlen; lia). apply firstn_skipn.
  - unfold zlen in *. rewrite slice_length by lia. lia.
Qed.
Print Assumptions C19_udplite_shape.

Theorem C01_udplite_render_total : forall data, ul_render_panics (fst (fst (ul_decode data))) = false.
Proof. reflexivity. Qed.

Example Ludplite_nonvacuous : ul_decode [0;53;1;0;0;8;18;52;9] = (mkUl [0;53;1;0;0;8;18;52] [9] 53 256 8 4660, Ok tt, false).
Proof. vm_compute. reflexivity. Qed.
