(* Llldp — LLDP codec (layers/lldp.go: decodeLinkLayerDiscovery with its LinkLayerDiscoveryInfo pass, SerializeTo):
   contributions to C19, C06, C07, C01.  The layer has no DecodeFromBytes: C05 does not apply (the decoder
   function builds new objects).  Management-address arithmetic and value zero-fill as repaired;
   `ll_decode_into_orig` / `ll_serialize_orig` keep the original code. *)
From GP Require Import Base Codec MiscLib MidLib LlldpModel LlldpProofs LlldpRt.
Open Scope Z_scope.

(* C19: the TLV loop, the mandatory-TLV pass and the Info pass (capabilities, management address, organisation
   specific) never index or slice out of range *)
Theorem C19_lldp_no_panic : forall old data, bytes_ok data ->
  is_panic (snd (fst (ll_decode_into old data))) = false.
Proof. intros old data Hb. exact (proj1 (ll_decode_good old data Hb)). Qed.
Print Assumptions C19_lldp_no_panic.

Theorem C19_lldp_fuel : forall old data, bytes_ok data -> snd (fst (ll_decode_into old data)) <> Err 99.
Proof. intros old data Hb. exact (proj2 (ll_decode_good old data Hb)). Qed.
Print Assumptions C19_lldp_fuel.

(* the original uint8 arithmetic: an address string length of 0 passes `len >= mlen+7` and slices Value[2:1] *)
Definition lldp_mgmt_witness : list Z :=
  [2;7;4;1;2;3;4;5;6; 4;4;5;101;116;104; 6;2;0;120; 16;12;0;1;10;0;0;1;2;0;0;0;1;0; 0;0].
Theorem C19_lldp_mgmt_orig_refuted : exists data, bytes_ok data /\
  is_panic (snd (fst (ll_decode_into_orig ll_fresh data))) = true.
Proof. exists lldp_mgmt_witness. split; [repeat constructor; cbv; intuition discriminate|vm_compute; reflexivity]. Qed.
Print Assumptions C19_lldp_mgmt_orig_refuted.

(* OID length: 5+7+250 wraps to 6 in uint8, the check passes and Value[12:6] is sliced *)
Theorem C19_lldp_oid_orig_refuted : exists data, bytes_ok data /\
  is_panic (snd (fst (ll_decode_into_orig ll_fresh data))) = true.
Proof.
  exists ([2;7;4;1;2;3;4;5;6; 4;4;5;101;116;104; 6;2;0;120; 16;12;5;1;10;0;0;1;2;0;0;0;1;250; 0;0]).
  split; [repeat constructor; cbv; intuition discriminate|vm_compute; reflexivity].
Qed.

(* C05 does not apply (no DecodeFromBytes); the decoder function ignores any previous object by construction *)
Theorem C05_lldp_fresh : forall old data, ll_decode_into old data = ll_decode_into ll_fresh data.
Proof. reflexivity. Qed.

Theorem C07_lldp_no_panic : forall l payload fixl csum junk,
  is_panic (fst (ll_serialize l payload fixl csum junk)) = false.
Proof. intros. apply ll_serialize_no_panic. Qed.
Print Assumptions C07_lldp_no_panic.

Theorem C07_lldp_junk_free : forall l payload fixl csum junk1 junk2,
  ll_serialize l payload fixl csum junk1 = ll_serialize l payload fixl csum junk2.
Proof. intros. apply ll_serialize_junk_free. Qed.
Print Assumptions C07_lldp_junk_free.

(* the original SerializeTo left the bytes between len(Value) and Length as AppendBytes returned them *)
Theorem C07_lldp_junk_orig_refuted : exists l junk1 junk2,
  ll_serialize_orig l [] true false junk1 <> ll_serialize_orig l [] true false junk2.
Proof.
  exists (mkLl [] [] 4 [1] 5 [2] 120 [mkLv 9 5 [1]] li_zero 0), [], (repeat 170 40).
  vm_compute. discriminate.
Qed.
Print Assumptions C07_lldp_junk_orig_refuted.

(* C06: a layer with non-zero subtypes, ids of 1..510 octets and values of types 4..127 with
   Length = len(Value) <= 511 that the Info pass accepts, serialized into an empty buffer (the layer is appended),
   decodes without error or truncation to the same ChassisID, PortID, TTL and Values; Contents = the bytes written;
   SerializeTo does not change the layer. *)
Theorem C06_lldp_roundtrip : forall l csum junk bytes l' old,
  lldp_wf l -> ll_serialize l [] true csum junk = (Ok bytes, l') ->
  exists d, ll_decode_into old bytes = (d, Ok tt, false) /\
    ll_csub d = ll_csub l /\ ll_cid d = ll_cid l /\ ll_psub d = ll_psub l /\ ll_pid d = ll_pid l /\
    ll_ttl d = ll_ttl l /\ ll_values d = ll_values l /\ ll_contents d = bytes /\ ll_payload d = [] /\ l' = l.
Proof. exact ll_roundtrip. Qed.
Print Assumptions C06_lldp_roundtrip.

(* ... and re-serializing the decoded layer gives the same bytes *)
Theorem C06_lldp_fixpoint : forall l csum junk bytes l' old d junk2,
  lldp_wf l -> ll_serialize l [] true csum junk = (Ok bytes, l') -> ll_decode_into old bytes = (d, Ok tt, false) ->
  fst (ll_serialize d [] true csum junk2) = Ok bytes.
Proof. exact ll_fixpoint. Qed.
Print Assumptions C06_lldp_fixpoint.

Theorem C01_lldp_render_total : forall old data, ll_render_panics (fst (fst (ll_decode_into old data))) = false.
Proof. reflexivity. Qed.

Example Llldp_nonvacuous :
  let p := [2;7;4;1;2;3;4;5;6; 4;4;5;101;116;104; 6;2;0;120; 10;2;115;119; 14;4;0;20;0;4;
            16;12;5;1;10;0;0;1;2;0;0;0;7;0; 254;6;0;128;194;1;0;9; 0;0] in
  (exists d, ll_decode_into ll_fresh p = (d, Ok tt, false) /\ lldp_wf d /\ ll_csub d = 4 /\ ll_ttl d = 120 /\
     li_sysname (ll_info d) = [115;119] /\ li_syscap (ll_info d) = 20 /\ li_maddr (ll_info d) = [10;0;0;1] /\
     li_mifnum (ll_info d) = 7 /\ li_orgs (ll_info d) = [mkOrg 32962 1 [0;9]] /\
     fst (ll_serialize d [] true false [9;9]) = Ok p).
Proof.
  cbv zeta. eexists. split; [vm_compute; reflexivity|]. split.
  - unfold lldp_wf, okv. cbn [ll_csub ll_psub ll_cid ll_pid ll_ttl ll_values].
    repeat split; try (cbn; lia); try (vm_compute; reflexivity).
    repeat constructor; cbn; lia.
  - repeat split; vm_compute; reflexivity.
Qed.
