(* Lasfpong — ASF presence pong codec (layers/asf_presencepong.go): contributions to C19, C05, C06, C07, C01. *)
From GP Require Import Base ListX Codec MiscLib LasfpongModel.
From Coq Require Import Lia ZifyBool ZifyNat.
Open Scope Z_scope.
Ltac Zify.zify_post_hook ::= Z.div_mod_to_equations.

Ltac xstep :=
  match goal with
  | |- context [ml_bind ?o _ _ _] => destruct o eqn:?; cbn [ml_bind]
  | |- context [if ?c then _ else _] => destruct c eqn:?
  end.

Theorem C19_asfpong_no_panic : forall old data, is_panic (snd (fst (pg_decode_into old data))) = false.
Proof.
  intros old data. unfold pg_decode_into. cbv zeta. destruct (zlen data <? 16) eqn:Hn; [reflexivity|].
  rewrite ?cd_idx_ok by lia. rewrite ?ml_rd32_ok by lia. rewrite ?cd_slc_ok by lia. reflexivity.
Qed.
Print Assumptions C19_asfpong_no_panic.

Theorem C05_asfpong_fresh : forall old data,
  let r1 := pg_decode_into old data in
  let r2 := pg_decode_into pg_fresh data in
  snd (fst r1) = snd (fst r2) /\ snd r1 = snd r2 /\
  (snd (fst r1) = Ok tt -> fst (fst r1) = fst (fst r2)).
Proof.
  intros old data. cbv zeta. unfold pg_decode_into. cbv zeta. destruct (zlen data <? 16) eqn:Hn.
  - cbn [fst snd]. split; [reflexivity|]. split; [reflexivity|]. intros X; discriminate X.
  - rewrite ?cd_idx_ok by lia. rewrite ?ml_rd32_ok by lia. rewrite ?cd_slc_ok by lia. cbn [ml_bind fst snd]. repeat split; reflexivity.
Qed.
Print Assumptions C05_asfpong_fresh.

Theorem C01_asfpong_render_total : forall old data, pg_render_panics (fst (fst (pg_decode_into old data))) = false.
Proof. reflexivity. Qed.
Print Assumptions C01_asfpong_render_total.

Lemma pg_hdr_len l : zlen (pg_hdr l) = 16. Proof. reflexivity. Qed.

Lemma pg_serialize_spec l payload fixl csum junk : pg_serialize l payload fixl csum junk = (Ok (pg_hdr l ++ payload), l).
Proof.
  unfold pg_serialize.
  pose proof (ml_tile_init 16 junk ltac:(lia)) as T.
  destruct (ml_tile_wrc _ _ (pg_hdr l) _ 0 T eq_refl ltac:(rewrite pg_hdr_len; change (zlen []) with 0; lia)) as [b [E T']].
  rewrite E. apply ml_tile_done in T'; [|reflexivity]. subst b. reflexivity.
Qed.

Theorem C07_asfpong_no_panic : forall l payload fixl csum junk, is_panic (fst (pg_serialize l payload fixl csum junk)) = false.
Proof. intros. rewrite pg_serialize_spec. reflexivity. Qed.
Print Assumptions C07_asfpong_no_panic.

Theorem C07_asfpong_junk_free : forall l payload fixl csum junk1 junk2,
  pg_serialize l payload fixl csum junk1 = pg_serialize l payload fixl csum junk2.
Proof. intros. rewrite !pg_serialize_spec. reflexivity. Qed.
Print Assumptions C07_asfpong_junk_free.

Definition pg_wf (l : pong) : Prop :=
  0 <= pg_ent l < 4294967296 /\ 0 <= pg_o0 l < 256 /\ 0 <= pg_o1 l < 256 /\ 0 <= pg_o2 l < 256 /\ 0 <= pg_o3 l < 256.

Lemma pg_bits a b : pg_bit (pg_b2z a 128 + pg_b2z b 1) 7 = a /\ pg_bit (pg_b2z a 128 + pg_b2z b 1) 0 = b /\
  pg_bit (pg_b2z a 128 + pg_b2z b 32) 7 = a /\ pg_bit (pg_b2z a 128 + pg_b2z b 32) 5 = b.
Proof. destruct a, b; vm_compute; repeat split; reflexivity. Qed.

(* serialize then decode gives every field back, the payload, no error, no truncation; the options are ignored *)
Theorem C06_asfpong_roundtrip : forall l payload fixl csum junk bytes l' old,
  pg_wf l -> pg_serialize l payload fixl csum junk = (Ok bytes, l') ->
  l' = l /\ bytes = pg_hdr l ++ payload /\
  pg_decode_into old bytes = (mkPg (pg_hdr l) payload (pg_ent l) (pg_o0 l) (pg_o1 l) (pg_o2 l) (pg_o3 l)
                                   (pg_ipmi l) (pg_asf1 l) (pg_sec l) (pg_dash l), Ok tt, false).
Proof.
  intros l payload fixl csum junk bytes l' old W. rewrite pg_serialize_spec. intros X.
  assert (E2 : l' = l) by congruence. assert (E1 : bytes = pg_hdr l ++ payload) by congruence. clear X.
  split; [exact E2|]. split; [exact E1|]. clear E2.
  destruct W as [H1 [H2 [H3 [H4 H5]]]]. subst bytes. pose proof (zlen_nonneg payload) as Np.
  remember (pg_hdr l ++ payload) as data eqn:Hd.
  assert (Hn : zlen data = 16 + zlen payload) by (subst data; rewrite zlen_app; reflexivity).
  assert (HnthZ : forall k, 0 <= k < 16 -> nth (Z.to_nat k) data 0 = nth (Z.to_nat k) (pg_hdr l) 0).
  { intros k Hk. subst data. apply app_nth1. change (length (pg_hdr l)) with 16%nat. lia. }
  unfold pg_decode_into. cbv zeta. destruct (zlen data <? 16) eqn:C; [lia|].
  rewrite !cd_idx_ok by lia. rewrite ml_rd32_ok by lia. rewrite !cd_slc_ok by lia. cbn [ml_bind].
  assert (S1 : slice data (Z.to_nat 0) (Z.to_nat 16) = pg_hdr l) by (subst data; apply slice_from_start; reflexivity).
  assert (S2 : slice data (Z.to_nat 16) (Z.to_nat (zlen data)) = payload).
  { rewrite Hn. subst data. apply slice_to_end; [reflexivity|]. change (length (pg_hdr l)) with 16%nat. unfold zlen. lia. }
  rewrite S1, S2. rewrite !HnthZ by lia.
  repeat match goal with |- context [Z.to_nat ?k] => let v := eval vm_compute in (Z.to_nat k) in change (Z.to_nat k) with v end.
  unfold pg_hdr. cbn [nth app ml_put32].
  rewrite (ml_put32_be (pg_ent l) H1).
  destruct (pg_bits (pg_ipmi l) (pg_asf1 l)) as [B1 [B2 _]]. destruct (pg_bits (pg_sec l) (pg_dash l)) as [_ [_ [B3 B4]]].
  rewrite B1, B2, B3, B4.
  rewrite (Z.mod_small (pg_o0 l) 256), (Z.mod_small (pg_o1 l) 256), (Z.mod_small (pg_o2 l) 256), (Z.mod_small (pg_o3 l) 256) by lia.
  reflexivity.
Qed.
Print Assumptions C06_asfpong_roundtrip.

(* re-serializing the decoded layer gives the same bytes (fixpoint) *)
Theorem C06_asfpong_fixpoint : forall l payload old l2 o tr,
  pg_wf l -> pg_decode_into old (pg_hdr l ++ payload) = (l2, o, tr) -> pg_hdr l2 = pg_hdr l.
Proof.
  intros l payload old l2 o tr W H.
  destruct (C06_asfpong_roundtrip l payload false false [] (pg_hdr l ++ payload) l old W (pg_serialize_spec _ _ _ _ _)) as [_ [_ D]].
  rewrite D in H. assert (E : l2 = mkPg (pg_hdr l) payload (pg_ent l) (pg_o0 l) (pg_o1 l) (pg_o2 l) (pg_o3 l) (pg_ipmi l) (pg_asf1 l) (pg_sec l) (pg_dash l)) by congruence.
  subst l2. reflexivity.
Qed.
Print Assumptions C06_asfpong_fixpoint.

Example Lasfpong_nonvacuous :
  let l := mkPg [] [] 36465 1 2 3 4 true true false true in
  pg_wf l /\ fst (pg_serialize l [9;9] true false [170;170]) = Ok [0;0;142;113;1;2;3;4;129;32;0;0;0;0;0;0;9;9] /\ pg_dcmi l = true /\
  snd (fst (pg_decode_into l [1;2;3])) = Err 1 /\ fst (fst (pg_decode_into l [1;2;3])) = l.
Proof. split; [unfold pg_wf; cbn; lia|]. repeat split; vm_compute; reflexivity. Qed.
