(* Ldot1q — 802.1Q tag codec (layers/dot1q.go): contributions to C19, C05, C06, C07, C01. *)
From GP Require Import Base Codec Ldot1qModel Ldot1qProofs.
Open Scope Z_scope.

Theorem C19_dot1q_no_panic : forall old data, is_panic (snd (fst (q_decode_into old data))) = false.
Proof. exact q_decode_no_panic. Qed.
Print Assumptions C19_dot1q_no_panic.

Theorem C05_dot1q_fresh : forall old data,
  let r1 := q_decode_into old data in
  let r2 := q_decode_into q_fresh data in
  snd (fst r1) = snd (fst r2) /\ snd r1 = snd r2 /\
  (snd (fst r1) = Ok tt -> fst (fst r1) = fst (fst r2)).
Proof. exact q_decode_fresh. Qed.
Print Assumptions C05_dot1q_fresh.

(* C06: every in-range tag (priority < 8, VLAN id < 4096, type < 65536, either drop-eligible
   value), every payload, every option set: written as 4 bytes ++ payload, decoded — into any
   object — to the same fields and payload, no error, no truncation; the layer is not mutated,
   so serializing the decoded layer again gives the same bytes (C06_dot1q_fixpoint). *)
Theorem C06_dot1q_roundtrip : forall l payload fixl csum junk bytes l' old,
  q_wf l -> q_serialize l payload fixl csum junk = (Ok bytes, l') ->
  l' = l /\ bytes = cd_put16 (q_firstbytes l) ++ cd_put16 (q_type l) ++ payload /\
  q_decode_into old bytes =
    (mkQ (cd_put16 (q_firstbytes l) ++ cd_put16 (q_type l)) payload (q_prio l) (q_dei l) (q_vid l) (q_type l), Ok tt, false).
Proof. exact q_roundtrip. Qed.
Print Assumptions C06_dot1q_roundtrip.

Theorem C06_dot1q_fixpoint : forall l payload fixl csum junk junk' bytes l' d tr,
  q_wf l -> q_serialize l payload fixl csum junk = (Ok bytes, l') ->
  q_decode_into q_fresh bytes = (d, Ok tt, tr) ->
  fst (q_serialize d (q_payload d) fixl csum junk') = Ok bytes.
Proof.
  intros l payload fixl csum junk junk' bytes l' d tr Hwf H D.
  destruct (q_roundtrip l payload fixl csum junk bytes l' q_fresh Hwf H) as [_ [Eb Ed]].
  rewrite Ed in D. inversion D; subst d tr. cbn [q_payload].
  rewrite q_serialize_spec in *. unfold q_ser_spec in *. cbn [q_vid q_type q_firstbytes q_prio q_dei] in *.
  destruct (q_vid l >? 4095); [discriminate|]. inversion H; subst. reflexivity.
Qed.
Print Assumptions C06_dot1q_fixpoint.

Theorem C06_dot1q_decoded_wf : forall old data l tr, bytes_ok data ->
  q_decode_into old data = (l, Ok tt, tr) -> q_wf l.
Proof. exact q_decoded_wf. Qed.
Print Assumptions C06_dot1q_decoded_wf.

Theorem C07_dot1q_no_panic : forall l payload fixl csum junk,
  is_panic (fst (q_serialize l payload fixl csum junk)) = false.
Proof. exact q_serialize_no_panic. Qed.
Print Assumptions C07_dot1q_no_panic.

Theorem C07_dot1q_junk_free : forall l payload fixl csum junk1 junk2,
  q_serialize l payload fixl csum junk1 = q_serialize l payload fixl csum junk2.
Proof. exact q_serialize_junk_free. Qed.
Print Assumptions C07_dot1q_junk_free.

(* C01: no hand-written String method, no flow accessor: only the reflective, total renderers *)
Theorem C01_dot1q_render_total : forall old data,
  q_render_panics (fst (fst (q_decode_into old data))) = false.
Proof. reflexivity. Qed.

Example Ldot1q_nonvacuous :
  let l := mkQ [] [] 5 true 100 2048 in
  q_wf l /\ exists bytes, q_serialize l [69;0] false false [9;9;9;9] = (Ok bytes, l) /\ bytes = [176;100;8;0;69;0].
Proof. split; [unfold q_wf; cbn; lia|]. eexists. vm_compute. split; reflexivity. Qed.
