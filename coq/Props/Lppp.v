(* Lppp — PPP codec (layers/ppp.go): contributions to C19, C06, C07, C01.
   PPP has no DecodeFromBytes: decodePPP allocates a new layer per call, so there is no receiver
   state and C05 has nothing to say (ppp_decode has no `old` argument). *)
From GP Require Import Base Codec MiscLib LpppModel LpppProofs.
Open Scope Z_scope.

Theorem C19_ppp_no_panic : forall data, is_panic (snd (fst (ppp_decode data))) = false.
Proof. exact ppp_decode_no_panic. Qed.
Print Assumptions C19_ppp_no_panic.

(* C06: protocol numbers the decoder accepts (low octet odd, high octet even), with or without
   the ff 03 address/control prefix: the same type, flag and payload come back.  The type is always
   written in two octets, so Contents of a decoded one-octet type differs (2 bytes, not 1) —
   fields and payload are what C06 compares. *)
Theorem C06_ppp_roundtrip : forall l payload fixl csum junk bytes l',
  ppp_wf l -> ppp_serialize l payload fixl csum junk = (Ok bytes, l') ->
  l' = l /\ bytes = ppp_hdr l ++ payload /\
  ppp_decode bytes = (mkPpp (cd_put16 (p_type l)) payload (p_type l) (p_pptp l), Ok tt, false).
Proof. exact ppp_roundtrip. Qed.
Print Assumptions C06_ppp_roundtrip.

Theorem C06_ppp_decoded_wf : forall data l tr, bytes_ok data -> ppp_decode data = (l, Ok tt, tr) -> ppp_wf l.
Proof. exact ppp_decoded_wf. Qed.
Print Assumptions C06_ppp_decoded_wf.

Theorem C07_ppp_no_panic : forall l payload fixl csum junk,
  is_panic (fst (ppp_serialize l payload fixl csum junk)) = false.
Proof. exact ppp_serialize_no_panic. Qed.
Print Assumptions C07_ppp_no_panic.

Theorem C07_ppp_junk_free : forall l payload fixl csum junk1 junk2,
  ppp_serialize l payload fixl csum junk1 = ppp_serialize l payload fixl csum junk2.
Proof. exact ppp_serialize_junk_free. Qed.
Print Assumptions C07_ppp_junk_free.

(* C01: no String method; LinkFlow returns the package constant PPPFlow *)
Theorem C01_ppp_render_total : forall data, ppp_render_panics (fst (fst (ppp_decode data))) = false.
Proof. reflexivity. Qed.

Example Lppp_nonvacuous :
  let l := mkPpp [] [] 33 true in
  ppp_wf l /\ fst (ppp_serialize l [69] false false [9;9;9;9]) = Ok [255;3;0;33;69] /\
  ppp_decode [255;3;33;69] = (mkPpp [33] [69] 33 true, Ok tt, false).
Proof. split; [unfold ppp_wf; cbn; lia|]. split; vm_compute; reflexivity. Qed.
