(* Lusb — usbmon header and USB setup request block decoders (layers/usb.go): contributions to C19, C05, C01.
   No SerializeTo, so C06 and C07 do not apply. *)
From GP Require Import Base ListX Codec MiscLib LusbModel.
From Coq Require Import Lia ZifyBool ZifyNat.
Open Scope Z_scope.
Ltac Zify.zify_post_hook ::= Z.div_mod_to_equations.

Lemma ml_le_ok l a b : 0 <= a <= b -> b <= zlen l -> ml_le l a b = Ok (le_val (slice l (Z.to_nat a) (Z.to_nat b))).
Proof. intros. unfold ml_le. rewrite cd_slc_ok by lia. reflexivity. Qed.

Lemma le_val_bounds : forall s, bytes_ok s -> 0 <= le_val s < 256 ^ Z.of_nat (length s).
Proof.
  induction s as [|x t IH]; intros Hb; [cbn; lia|]. inversion Hb as [|? ? Hx Ht]; subst. specialize (IH Ht).
  cbn [le_val length]. rewrite Nat2Z.inj_succ, Z.pow_succ_r by lia. unfold byte_ok in Hx. nia.
Qed.

Theorem C19_usb_no_panic : forall orig old data, bytes_ok data -> is_panic (snd (fst (usb_decode_gen orig old data))) = false.
Proof.
  intros orig old data Hb. unfold usb_decode_gen. cbv zeta. destruct (zlen data <? 40) eqn:Hn; [reflexivity|].
  rewrite !ml_le_ok by lia. rewrite !cd_idx_ok by lia. rewrite !cd_slc_ok by lia. cbn [ml_bind].
  match goal with |- context [if ?s then _ else if ?d then _ else _] => destruct s; [reflexivity|destruct d; [|reflexivity]] end.
  set (udl := le_val (slice data (Z.to_nat 36) (Z.to_nat 40))).
  assert (Hu : 0 <= udl) by (unfold udl; apply le_val_bounds, bytes_ok_slice; exact Hb).
  destruct (zlen data - 40 <? udl) eqn:C; [reflexivity|]. rewrite cd_slc_ok by lia. reflexivity.
Qed.
Print Assumptions C19_usb_no_panic.

Theorem C19_usbsetup_no_panic : forall old data, is_panic (snd (fst (us_decode_into old data))) = false.
Proof.
  intros old data. unfold us_decode_into. cbv zeta. destruct (zlen data <? 8) eqn:Hn; [reflexivity|].
  rewrite !ml_le_ok by lia. rewrite !cd_idx_ok by lia. rewrite !cd_slc_ok by lia. reflexivity.
Qed.
Print Assumptions C19_usbsetup_no_panic.

Ltac ustep :=
  match goal with
  | |- context [ml_bind ?o _ _ _] => destruct o eqn:?; cbn [ml_bind]
  | |- context [if ?c then _ else _] => destruct c eqn:?
  end.

Theorem C05_usb_fresh : forall old data,
  let r1 := usb_decode_into old data in
  let r2 := usb_decode_into usb_fresh data in
  snd (fst r1) = snd (fst r2) /\ snd r1 = snd r2 /\
  (snd (fst r1) = Ok tt -> fst (fst r1) = fst (fst r2)).
Proof.
  intros old data. cbv zeta. unfold usb_decode_into, usb_decode_gen. cbv zeta.
  repeat (ustep; try solve [cbn [fst snd]; split; [reflexivity | split; [reflexivity | try (intros X; discriminate X); try reflexivity]]]).
  all: try (cbn [fst snd]; split; [reflexivity | split; [reflexivity | intros _; reflexivity]]).
Qed.
Print Assumptions C05_usb_fresh.

Definition usb_hdr (b14 b15 : Z) : list Z := repeat 0 14 ++ [b14; b15] ++ repeat 0 24.

(* before the repair the Setup flag of an earlier packet stayed set: the next layer of a later non-setup packet changed *)
Theorem C05_usb_orig_refuted : exists l1 l2,
  usb_decode_orig usb_fresh (usb_hdr 0 1) = (l1, Ok tt, false) /\ usb_decode_orig l1 (usb_hdr 1 1) = (l2, Ok tt, false) /\
  u_setup l2 = true /\ u_setup (fst (fst (usb_decode_orig usb_fresh (usb_hdr 1 1)))) = false /\ u_setup (fst (fst (usb_decode_into l1 (usb_hdr 1 1)))) = false.
Proof. eexists. eexists. split; [vm_compute; reflexivity|]. split; [vm_compute; reflexivity|]. repeat split; vm_compute; reflexivity. Qed.
Print Assumptions C05_usb_orig_refuted.

Theorem C05_usbsetup_fresh : forall old data,
  let r1 := us_decode_into old data in
  let r2 := us_decode_into us_fresh data in
  snd (fst r1) = snd (fst r2) /\ snd r1 = snd r2 /\
  (snd (fst r1) = Ok tt -> fst (fst r1) = fst (fst r2)).
Proof.
  intros old data. cbv zeta. unfold us_decode_into. cbv zeta.
  repeat (ustep; try solve [cbn [fst snd]; split; [reflexivity | split; [reflexivity | try (intros X; discriminate X); try reflexivity]]]).
  all: try (cbn [fst snd]; split; [reflexivity | split; [reflexivity | intros _; reflexivity]]).
Qed.
Print Assumptions C05_usbsetup_fresh.

Theorem C01_usb_render_total : forall orig old data, usb_render_panics (fst (fst (usb_decode_gen orig old data))) = false.
Proof. reflexivity. Qed.
Theorem C01_usbsetup_render_total : forall old data, us_render_panics (fst (fst (us_decode_into old data))) = false.
Proof. reflexivity. Qed.

Example Lusb_nonvacuous :
  exists l, usb_decode_into usb_fresh (usb_hdr 1 0 ++ [7;8]) = (l, Ok tt, false) /\ u_payload l = [] /\ u_data l = true /\ u_setup l = false /\
  snd (fst (usb_decode_into usb_fresh (repeat 0 14 ++ [1;0] ++ repeat 0 20 ++ [3;0;0;0] ++ [7;8]))) = Err 2.
Proof. eexists. split; [vm_compute; reflexivity|]. repeat split; vm_compute; reflexivity. Qed.
