(* Ldns — DNS (layers/dns.go): the layer's contribution to C19, C05, C06, C07, C01.
   Property theorems only; each is closed by lemmas of Proofs/Ldns*.v.
   The model is of the REPAIRED code (two fix: commits on dns.go); the *_orig definitions are the
   unchanged code and carry the ..._refuted witnesses. *)
From GP Require Import Base N6Lib LdnsModel LdnsDec LdnsSer.
Open Scope Z_scope.

(* ------------------------------------------------------------------ C19 *)
(* DNS.DecodeFromBytes returns or errors for every byte string and every prior state of the
   receiver.  It never panics, and it never hangs: the name-decompression recursion is bounded by
   the 255-level limit (structural in the model), and the loops over labels, over collected wire
   labels and over character strings never exhaust their fuel len(data)+1 (an exhausted fuel is the
   outcome Panic N6_FUEL, which is_panic counts). *)
Theorem C19_dns_no_panic : forall old data, bytes_ok data ->
  is_panic (snd (fst (decode_into old data))) = false.
Proof. exact decode_into_no_panic. Qed.
Print Assumptions C19_dns_no_panic.

(* a pointer loop: the question's name is a pointer to itself; 255 levels deep, then an error *)
Example C19_dns_nonvacuous :
  bytes_ok [0;1;1;0; 0;1;0;0;0;0;0;0; 192;12; 0;1;0;1] /\
  snd (fst (decode_into dns_fresh [0;1;1;0; 0;1;0;0;0;0;0;0; 192;12; 0;1;0;1])) = Err E_NAME.
Proof. split; [repeat constructor; unfold byte_ok; lia|vm_compute; reflexivity]. Qed.

(* ------------------------------------------------------------------ C05 *)
(* Decoding into a reused object = decoding into a fresh one: same outcome and truncated flag for
   every input and every prior state; and as soon as the 12-byte header check passes — on success
   and on every later error path alike — the WHOLE state (header fields, the four lists with all
   RDATA fields and the private name metadata, contents, payload) is the one a fresh object gets.
   A shorter input leaves the receiver exactly as it was (and is an error). *)
Theorem C05_dns_fresh : forall old data,
  let '(l1, r1, t1) := decode_into old data in
  let '(l2, r2, t2) := decode_into dns_fresh data in
  r1 = r2 /\ t1 = t2 /\ (12 <= n6_len data -> l1 = l2) /\ (n6_len data < 12 -> l1 = old /\ r1 = Err E_SHORT).
Proof. exact decode_into_fresh. Qed.
Print Assumptions C05_dns_fresh.

Example C05_dns_nonvacuous :
  let a := [0;1;129;128; 0;1;0;1;0;0;0;0; 1;97;0; 0;1;0;1; 192;12; 0;1;0;1; 0;0;0;9; 0;4; 1;2;3;4] in
  let old := fst (fst (decode_into dns_fresh a)) in
  length (d_answers old) = 1%nat /\
  d_answers (fst (fst (decode_into old [0;2;1;0; 0;0;0;0;0;0;0;0]))) = [] /\
  snd (fst (decode_into old [0;2;1;0; 0;0;0;0;0;0;0;0])) = Ok tt.
Proof. vm_compute. repeat split. Qed.

(* ------------------------------------------------------------------ C07 *)
(* DNS.SerializeTo never panics: for EVERY layer value — whatever a successful or failed decode left
   behind, or any value built from the public fields, with any private name metadata — every payload,
   both option flags and every prior content of the buffer, each checked write of the model (data[i] =,
   PutUint16/32(data[i:]), copy(data[i:], ..)) is in range: the sizing pass (computeSize, recSize,
   dnsNameSize, the nil-data run of encodeDNSPresentationName) and the writing pass agree. *)
Theorem C07_dns_no_panic : forall d payload fix_ csum junk,
  is_panic (fst (serialize d payload fix_ csum junk)) = false.
Proof. intros. rewrite serialize_eq_spec. apply ser_spec_no_panic. Qed.
Print Assumptions C07_dns_no_panic.

(* The outcome (bytes or error class) and the layer left behind (FixLengths stores the counts and the
   DataLengths) do not depend on what the region returned by PrependBytes held before: every byte of
   the 12+dsz requested bytes is written (ser_spec is a function of the value and the options only). *)
Theorem C07_dns_junk_free : forall d payload fix_ csum junk1 junk2,
  serialize d payload fix_ csum junk1 = serialize d payload fix_ csum junk2.
Proof. intros. rewrite !serialize_eq_spec. reflexivity. Qed.
Print Assumptions C07_dns_junk_free.

(* the bytes written are the wire function of the value *)
Theorem C07_dns_wire : forall d payload fix_ csum junk, serialize d payload fix_ csum junk = ser_spec d payload fix_.
Proof. exact serialize_eq_spec. Qed.
Print Assumptions C07_dns_wire.

Example C07_dns_nonvacuous :
  let d := fst (fst (decode_into dns_fresh
     [0;1;129;128; 0;1;0;1;0;0;0;0; 1;97;0; 0;1;0;1; 192;12; 0;1;0;1; 0;0;0;9; 0;4; 1;2;3;4])) in
  fst (serialize d [7] true true [170;170;170]) =
  Ok [0;1;129;128; 0;1;0;1;0;0;0;0; 1;97;0; 0;1;0;1; 1;97;0; 0;1;0;1; 0;0;0;9; 0;4; 1;2;3;4; 7].
Proof. vm_compute. reflexivity. Qed.

(* the unchanged code: an A record decoded with RDLENGTH 0 has no address; its 4 RDATA bytes were
   sized but never written, so the output showed the buffer's previous content *)
Theorem C07_dns_junk_free_orig_refuted : exists d junk1 junk2,
  d = fst (fst (decode_into dns_fresh [0;0;0;0; 0;0;0;0;0;0;0;1; 1;97;0; 0;1;0;1; 0;0;0;0; 0;0])) /\
  snd (fst (decode_into dns_fresh [0;0;0;0; 0;0;0;0;0;0;0;1; 1;97;0; 0;1;0;1; 0;0;0;0; 0;0])) = Ok tt /\
  fst (serialize_orig d [] true true junk1) <> fst (serialize_orig d [] true true junk2).
Proof.
  eexists. exists [], (repeat 170 40). split; [reflexivity|]. split; [vm_compute; reflexivity|].
  vm_compute. discriminate.
Qed.

(* ------------------------------------------------------------------ C01 *)
(* The renderers of a DNS layer are total on every state (see the comment at render_panics: the
   hand-written String methods of dns.go contain no partial operation and the reflective renderers
   are total on non-nil values), in particular on every state a decode — successful or failed, into
   a fresh or a reused object — leaves behind. *)
Theorem C01_dns_render_total : forall old data,
  render_panics (fst (fst (decode_into old data))) = false.
Proof. intros. reflexivity. Qed.
Print Assumptions C01_dns_render_total.
