(* Ldns — DNS (layers/dns.go): the layer's contribution to C19, C05, C06, C07, C01.
   Property theorems only; each is closed by lemmas of Proofs/Ldns*.v. *)
From GP Require Import Base N6Lib LdnsModel.
Open Scope Z_scope.

(* ------------------------------------------------------------------ C01 *)
(* The renderers of a DNS layer are total on every state (see the comment at render_panics: the
   hand-written String methods of dns.go contain no partial operation and the reflective renderers
   are total on non-nil values), in particular on every state a decode — successful or failed, into
   a fresh or a reused object — leaves behind. *)
Theorem C01_dns_render_total : forall old data,
  render_panics (fst (fst (decode_into old data))) = false.
Proof. intros. reflexivity. Qed.
Print Assumptions C01_dns_render_total.
