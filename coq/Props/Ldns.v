(* Ldns — DNS (layers/dns.go): the layer's contribution to C19, C05, C06, C07, C01.
   Property theorems only; each is closed by lemmas of Proofs/Ldns*.v.
   The model is of the REPAIRED code (two fix: commits on dns.go); the *_orig definitions are the
   unchanged code and carry the ..._refuted witnesses. *)
From GP Require Import Base N6Lib LdnsModel LdnsDec LdnsSer LdnsRt LdnsIdem LdnsWf LdnsWf2 LdnsWf3.
Open Scope Z_scope.

(* ------------------------------------------------------------------ C19 *)
(* DNS.DecodeFromBytes returns or errors for every byte string and every prior state of the
   receiver.  It never panics, and it never hangs: the name-decompression recursion is bounded by
   the 255-level limit (structural in the model), and the loops over labels, over collected wire
   labels and over character strings never exhaust their fuel len(data)+1 (an exhausted fuel is the
   outcome Panic N6_FUEL, which is_panic counts). *)
Theorem C19_dns_no_panic : forall old data, bytes_ok data ->
  is_panic (snd (fst (decode_into old data))) = false.
Proof. exact decode_into_no_panic. Qed.
Print Assumptions C19_dns_no_panic.

(* a pointer loop: the question's name is a pointer to itself; 255 levels deep, then an error *)
Example C19_dns_nonvacuous :
  bytes_ok [0;1;1;0; 0;1;0;0;0;0;0;0; 192;12; 0;1;0;1] /\
  snd (fst (decode_into dns_fresh [0;1;1;0; 0;1;0;0;0;0;0;0; 192;12; 0;1;0;1])) = Err E_NAME.
Proof. split; [repeat constructor; unfold byte_ok; lia|vm_compute; reflexivity]. Qed.

(* ------------------------------------------------------------------ C05 *)
(* Decoding into a reused object = decoding into a fresh one: same outcome and truncated flag for
   every input and every prior state; and as soon as the 12-byte header check passes — on success
   and on every later error path alike — the WHOLE state (header fields, the four lists with all
   RDATA fields and the private name metadata, contents, payload) is the one a fresh object gets.
   A shorter input leaves the receiver exactly as it was (and is an error). *)
Theorem C05_dns_fresh : forall old data,
  let '(l1, r1, t1) := decode_into old data in
  let '(l2, r2, t2) := decode_into dns_fresh data in
  r1 = r2 /\ t1 = t2 /\ (12 <= n6_len data -> l1 = l2) /\ (n6_len data < 12 -> l1 = old /\ r1 = Err E_SHORT).
Proof. exact decode_into_fresh. Qed.
Print Assumptions C05_dns_fresh.

Example C05_dns_nonvacuous :
  let a := [0;1;129;128; 0;1;0;1;0;0;0;0; 1;97;0; 0;1;0;1; 192;12; 0;1;0;1; 0;0;0;9; 0;4; 1;2;3;4] in
  let old := fst (fst (decode_into dns_fresh a)) in
  length (d_answers old) = 1%nat /\
  d_answers (fst (fst (decode_into old [0;2;1;0; 0;0;0;0;0;0;0;0]))) = [] /\
  snd (fst (decode_into old [0;2;1;0; 0;0;0;0;0;0;0;0])) = Ok tt.
Proof. vm_compute. repeat split. Qed.

(* ------------------------------------------------------------------ C06 *)
(* Round trip for every well-formed message value (dns_wf, LdnsRt.v): header fields in range, fewer than
   65536 entries per section, every name as the decoder presents it — labels of 1..63 octets, wire
   length at most 255, joined by dots, with the private label metadata present exactly when some
   label holds a literal dot or backslash (wf_q, wf_rr with canon_names) — records of every type
   that has an encoder (A, AAAA, NS, CNAME, PTR, SOA, MX, TXT, SRV, NAPTR, URI, OPT, RRSIG, DNSKEY,
   SVCB, HTTPS) with their fields in range (wf_rdata), and a response code whose upper bits are the
   extended-RCODE bits of the OPT records among the Additionals (as decoding computes them).
   Serializing with FixLengths+ComputeChecksums over any payload into any buffer succeeds; decoding
   the DNS part succeeds, is not truncated, and gives back the same header fields, the counts the
   serializer stored, the same questions (metadata included) and records with the same fields
   (rr_same: name, type, class, TTL, the type's RDATA fields, the metadata; DataLength/Data describe
   the new wire form), Contents = the bytes written, empty payload.
   Not covered by a theorem: that every successfully decoded value is dns_wf after FixLengths (it is
   not: HINFO and unknown types have no encoder, A/AAAA may carry a wrong-size address, a name may
   exceed 255 octets only after decompression); the harness checks the round trip of decoded values
   with exactly these exceptions (oracle clauses C06:roundtrip, C06:serialize-error, C06:fixpoint). *)
Theorem C06_dns_roundtrip : forall d payload junk, dns_wf d ->
  exists w d2,
    roundtrip d payload junk = (Ok (w ++ payload), (d2, Ok tt, false)) /\
    d_id d2 = d_id d /\ d_qr d2 = d_qr d /\ d_opcode d2 = d_opcode d /\ d_aa d2 = d_aa d /\ d_tc d2 = d_tc d /\
    d_rd d2 = d_rd d /\ d_ra d2 = d_ra d /\ d_z d2 = d_z d /\ d_rcode d2 = d_rcode d /\
    d_qdcount d2 = zlen (d_questions d) /\ d_ancount d2 = zlen (d_answers d) /\
    d_nscount d2 = zlen (d_authorities d) /\ d_arcount d2 = zlen (d_additionals d) /\
    d_questions d2 = d_questions d /\
    Forall2 rr_same (d_answers d) (d_answers d2) /\ Forall2 rr_same (d_authorities d) (d_authorities d2) /\
    Forall2 rr_same (d_additionals d) (d_additionals d2) /\
    d_contents d2 = w /\ d_payload d2 = [].
Proof. exact roundtrip_ok. Qed.
Print Assumptions C06_dns_roundtrip.

(* re-serializing the decoded layer, with any options into any buffer, gives the same bytes *)
Theorem C06_dns_fixpoint : forall d payload junk, dns_wf d ->
  exists w d2,
    roundtrip d payload junk = (Ok (w ++ payload), (d2, Ok tt, false)) /\
    forall fix_ csum junk', fst (serialize d2 payload fix_ csum junk') = Ok (w ++ payload).
Proof. exact roundtrip_fixpoint. Qed.
Print Assumptions C06_dns_fixpoint.

(* a response with a compressed owner name and a label holding a literal dot: the decoded value is
   well formed after FixLengths, i.e. the hypothesis is satisfiable by decoder output *)
Example C06_dns_nonvacuous :
  exists d, dns_wf d /\ length (d_answers d) = 2%nat /\ d_questions d <> [] /\
            exists r, In r (d_answers d) /\ r_names r <> None.
Proof.
  exists (mkDns 7 true 0 false false true true 0 0 1 2 0 0
    [mkQ [119;119;119;46;97] 1 1 None]
    [mkRR [119;119;119;46;97] 5 1 300 0 [] [] [] [120;46;121;46;97] [] [] soa0 srv0 mx0 naptr0 [] rrsig0 dnskey0 svcb0 uri0 []
          (Some (mkRmeta nmeta0 (mkNmeta (Some [[120;46;121];[97]]) [120;46;121;46;97]) nmeta0));
     mkRR [97] 1 1 60 4 [1;2;3;4] [1;2;3;4] [] [] [] [] soa0 srv0 mx0 naptr0 [] rrsig0 dnskey0 svcb0 uri0 [] None]
    [] [] [] []).
  split.
  - unfold dns_wf. cbn [d_id d_opcode d_z d_rcode d_questions d_answers d_authorities d_additionals].
    repeat split; try (unfold u16_ok; lia); try (cbn; lia); try constructor; try constructor; try constructor.
    + exists [[119;119;119];[97]]. repeat split; try (cbn; lia); try (vm_compute; reflexivity); try (vm_compute; intro; discriminate).
      repeat constructor; unfold byte_ok; cbn; lia.
    + exists [[119;119;119];[97]], [[120;46;121];[97]], []. unfold u16_ok, u32_ok. cbn [r_name r_type r_class r_ttl r_names].
      repeat split; try lia; try (vm_compute; reflexivity); try (vm_compute; intro; discriminate);
        try (repeat constructor; unfold byte_ok; cbn; lia).
    + exists [[97]], [], []. unfold u16_ok, u32_ok. cbn [r_name r_type r_class r_ttl r_names].
      repeat split; try lia; try (vm_compute; reflexivity); try (vm_compute; intro; discriminate);
        try (repeat constructor; unfold byte_ok; cbn; lia).
  - split; [reflexivity|]. split; [discriminate|]. eexists. split; [left; reflexivity|discriminate].
Qed.

(* Towards "decoder output is well formed": whatever decodeName returns — directly or through any
   chain of compression pointers (collectDNSWireLabels, the bytes.Split of a pointed-to name, Go's
   append on possibly-nil label slices) — is the dotted join of labels of 1..63 octets, appended to
   the name buffer with their dots, and carries label metadata exactly when one label holds a
   literal dot or backslash, and then ALL labels of the name in order (meta_of).  So the names of
   every decoded question and record have the shape dns_wf asks for, up to the 255-octet bound that
   decompression can exceed. *)
Theorem C06_dns_decoded_names : forall data offset buf, bytes_ok data ->
  match decode_name data offset buf with
  | NOk name l next buf' =>
      exists ls, Forall label_ok ls /\ buf' = buf ++ dotted ls /\ l = meta_of ls /\ name = join ls
  | _ => True
  end.
Proof. intros data offset buf Hb. exact (decode_name_labels data offset buf Hb). Qed.
Print Assumptions C06_dns_decoded_names.

(* a name reached through a pointer whose target holds a label with a literal dot *)
Example C06_dns_decoded_names_nonvacuous :
  decode_name [0;0;0;0;0;0;0;0;0;0;0;0; 3;97;46;98; 1;99; 0; 1;120; 192;12] 19 []
  = NOk [120;46;97;46;98;46;99] (Some [[120]; [97;46;98]; [99]]) 23 [46;120;46;97;46;98;46;99].
Proof. vm_compute. reflexivity. Qed.

(* Decoder output meets the hypothesis of the round trip: every value a SUCCESSFUL decode of any byte
   string produces is dns_wf as soon as it is encodable at all (dns_encodable, LdnsWf3.v: every record
   type has an encoder — not HINFO or an unknown type —, A/AAAA carry 4/16 address bytes, every name
   still fits 255 octets after decompression, and the RDATA of an RRSIG/SVCB/HTTPS record still fits
   65535 octets with its name written uncompressed).  These are exactly the exceptions the harness
   oracle makes (ldnsWellFormed); everything else — ranges of all fields, shape and metadata of all
   names incl. those reached through compression pointers, option/parameter/string lists, counts,
   the extended RCODE — follows from the decoder. *)
Theorem C06_dns_decoded_wf : forall data d, bytes_ok data ->
  decode_into dns_fresh data = (d, Ok tt, false) -> dns_encodable d -> dns_wf d.
Proof. exact decoded_wf. Qed.
Print Assumptions C06_dns_decoded_wf.

(* hence the round trip for decoder output: decode, serialize, decode again *)
Theorem C06_dns_decoded_roundtrip : forall data d payload junk, bytes_ok data ->
  decode_into dns_fresh data = (d, Ok tt, false) -> dns_encodable d ->
  exists w d2,
    roundtrip d payload junk = (Ok (w ++ payload), (d2, Ok tt, false)) /\
    d_questions d2 = d_questions d /\
    Forall2 rr_same (d_answers d) (d_answers d2) /\ Forall2 rr_same (d_authorities d) (d_authorities d2) /\
    Forall2 rr_same (d_additionals d) (d_additionals d2) /\
    d_rcode d2 = d_rcode d /\ d_z d2 = d_z d /\ d_contents d2 = w /\
    forall fix_ csum junk', fst (serialize d2 payload fix_ csum junk') = Ok (w ++ payload).
Proof.
  intros data d payload junk Hb Hd He. pose proof (decoded_wf data d Hb Hd He) as Hwf.
  destruct (roundtrip_ok d payload junk Hwf) as (w & d2 & HR & _ & _ & _ & _ & _ & _ & _ & Hz & Hrc & _ & _ & _ & _ & Hq & Ha & Hn & Hr & Hc & _).
  destruct (roundtrip_fixpoint d payload junk Hwf) as (w' & d2' & HR' & Hfix).
  rewrite HR in HR'. injection HR' as Hw Hd2. apply app_inv_tail in Hw. subst w' d2'.
  exists w, d2. repeat split; assumption.
Qed.
Print Assumptions C06_dns_decoded_roundtrip.

Example C06_dns_decoded_nonvacuous :
  let data := [0;7;129;128; 0;1;0;2;0;0;0;0; 3;119;119;119;1;97;0; 0;1;0;1;
               192;12; 0;5;0;1; 0;0;1;44; 0;6; 3;120;46;121;192;16;
               192;16; 0;1;0;1; 0;0;0;60; 0;4; 1;2;3;4] in
  bytes_okb data = true /\ snd (fst (decode_into dns_fresh data)) = Ok tt /\
  length (d_answers (fst (fst (decode_into dns_fresh data)))) = 2%nat.
Proof. vm_compute. repeat split. Qed.

(* a BADVERS response: the extended RCODE lives in the OPT record's TTL; dns_wf holds of it *)
Example C06_dns_nonvacuous_opt :
  dns_wf (mkDns 1 true 0 false false false false 0 16 0 0 0 1 [] [] []
    [mkRR [] 41 4096 16777216 0 [] [] [] [] [] [] soa0 srv0 mx0 naptr0 [mkDopt 10 [1;2;3;4;5;6;7;8]] rrsig0 dnskey0 svcb0 uri0 [] None] [] []).
Proof.
  unfold dns_wf. cbn [d_id d_opcode d_z d_rcode d_questions d_answers d_authorities d_additionals].
  repeat split; try (unfold u16_ok; lia); try (cbn; lia); try constructor; try constructor.
  exists [], [], []. unfold u16_ok, u32_ok. cbn [r_name r_type r_class r_ttl r_names].
  repeat split; try lia; try (vm_compute; reflexivity); try (vm_compute; intro; discriminate);
    try (repeat constructor; unfold byte_ok; cbn; lia).
Qed.

(* the unchanged code ORed the whole ResponseCode — whose upper bits decoding takes from the OPT
   record's TTL (extended RCODE, here BADVERS = 16) — into header byte 3: the Z bits changed *)
Theorem C06_dns_rcode_orig_refuted : exists data d,
  decode_into dns_fresh data = (d, Ok tt, false) /\ d_z d = 0 /\ d_rcode d = 16 /\
  match serialize_orig d [] true true [] with
  | (Ok b, _) => snd (fst (decode_into dns_fresh b)) = Ok tt /\ d_z (fst (fst (decode_into dns_fresh b))) = 1
  | _ => False
  end /\
  match serialize d [] true true [] with
  | (Ok b, _) => d_z (fst (fst (decode_into dns_fresh b))) = 0 /\ d_rcode (fst (fst (decode_into dns_fresh b))) = 16
  | _ => False
  end.
Proof.
  exists [0;0;0;0; 0;0;0;0;0;0;0;1; 0; 0;41; 16;0; 1;0;0;0; 0;0]. eexists. split; [vm_compute; reflexivity|].
  vm_compute. repeat split.
Qed.

(* ------------------------------------------------------------------ C07 *)
(* DNS.SerializeTo never panics: for EVERY layer value — whatever a successful or failed decode left
   behind, or any value built from the public fields, with any private name metadata — every payload,
   both option flags and every prior content of the buffer, each checked write of the model (data[i] =,
   PutUint16/32(data[i:]), copy(data[i:], ..)) is in range: the sizing pass (computeSize, recSize,
   dnsNameSize, the nil-data run of encodeDNSPresentationName) and the writing pass agree. *)
Theorem C07_dns_no_panic : forall d payload fix_ csum junk,
  is_panic (fst (serialize d payload fix_ csum junk)) = false.
Proof. intros. rewrite serialize_eq_spec. apply ser_spec_no_panic. Qed.
Print Assumptions C07_dns_no_panic.

(* The outcome (bytes or error class) and the layer left behind (FixLengths stores the counts and the
   DataLengths) do not depend on what the region returned by PrependBytes held before: every byte of
   the 12+dsz requested bytes is written (ser_spec is a function of the value and the options only). *)
Theorem C07_dns_junk_free : forall d payload fix_ csum junk1 junk2,
  serialize d payload fix_ csum junk1 = serialize d payload fix_ csum junk2.
Proof. intros. rewrite !serialize_eq_spec. reflexivity. Qed.
Print Assumptions C07_dns_junk_free.

(* the bytes written are the wire function of the value *)
Theorem C07_dns_wire : forall d payload fix_ csum junk, serialize d payload fix_ csum junk = ser_spec d payload fix_.
Proof. exact serialize_eq_spec. Qed.
Print Assumptions C07_dns_wire.

(* a successful SerializeTo is repeatable: serializing the layer it left behind (FixLengths stored the
   counts and every DataLength in it) gives the same bytes again and leaves the layer unchanged *)
Theorem C07_dns_repeat : forall d payload fix_ csum junk bytes d',
  serialize d payload fix_ csum junk = (Ok bytes, d') ->
  forall junk', serialize d' payload fix_ csum junk' = (Ok bytes, d').
Proof.
  intros d payload fix_ csum junk bytes d' H junk'. rewrite serialize_eq_spec in H. rewrite serialize_eq_spec.
  exact (ser_spec_repeat d payload fix_ bytes d' H).
Qed.
Print Assumptions C07_dns_repeat.

Example C07_dns_nonvacuous :
  let d := fst (fst (decode_into dns_fresh
     [0;1;129;128; 0;1;0;1;0;0;0;0; 1;97;0; 0;1;0;1; 192;12; 0;1;0;1; 0;0;0;9; 0;4; 1;2;3;4])) in
  fst (serialize d [7] true true [170;170;170]) =
  Ok [0;1;129;128; 0;1;0;1;0;0;0;0; 1;97;0; 0;1;0;1; 1;97;0; 0;1;0;1; 0;0;0;9; 0;4; 1;2;3;4; 7].
Proof. vm_compute. reflexivity. Qed.

(* the unchanged code: an A record decoded with RDLENGTH 0 has no address; its 4 RDATA bytes were
   sized but never written, so the output showed the buffer's previous content *)
Theorem C07_dns_junk_free_orig_refuted : exists d junk1 junk2,
  d = fst (fst (decode_into dns_fresh [0;0;0;0; 0;0;0;0;0;0;0;1; 1;97;0; 0;1;0;1; 0;0;0;0; 0;0])) /\
  snd (fst (decode_into dns_fresh [0;0;0;0; 0;0;0;0;0;0;0;1; 1;97;0; 0;1;0;1; 0;0;0;0; 0;0])) = Ok tt /\
  fst (serialize_orig d [] true true junk1) <> fst (serialize_orig d [] true true junk2).
Proof.
  eexists. exists [], (repeat 170 40). split; [reflexivity|]. split; [vm_compute; reflexivity|].
  vm_compute. discriminate.
Qed.

(* ------------------------------------------------------------------ C01 *)
(* The renderers of a DNS layer are total on every state (see the comment at render_panics: the
   hand-written String methods of dns.go contain no partial operation and the reflective renderers
   are total on non-nil values), in particular on every state a decode — successful or failed, into
   a fresh or a reused object — leaves behind. *)
Theorem C01_dns_render_total : forall old data,
  render_panics (fst (fst (decode_into old data))) = false.
Proof. intros. reflexivity. Qed.
Print Assumptions C01_dns_render_total.
