(* Lenip — EtherNet/IP encapsulation decoder (layers/enip.go): contributions to C19, C05, C01.
   ENIP has no SerializeTo: C06 and C07 do not apply. *)
From GP Require Import Base Codec MiscLib MidLib LenipModel LenipProofs.
Open Scope Z_scope.

(* C19: header reads, the RegisterSession / SendRRData / SendUnitData paths and the common-packet-format item walk
   (getDataFormatIDLen) never index or slice out of range; the walk's fuel (input length + 1) is never exhausted *)
Theorem C19_enip_no_panic : forall old data, bytes_ok data ->
  is_panic (snd (fst (en_decode_into old data))) = false.
Proof. intros old data Hb. exact (proj1 (en_decode_good old data Hb)). Qed.
Print Assumptions C19_enip_no_panic.

Theorem C19_enip_fuel : forall old data, bytes_ok data -> snd (fst (en_decode_into old data)) <> Err 99.
Proof. intros old data Hb. exact (proj2 (en_decode_good old data Hb)). Qed.
Print Assumptions C19_enip_fuel.

(* C05: every field (and Contents, Payload, CommandSpecific) is assigned on each successful decode *)
Theorem C05_enip_fresh : forall old data,
  let r1 := en_decode_into old data in let r2 := en_decode_into en_fresh data in
  snd (fst r1) = snd (fst r2) /\ snd r1 = snd r2 /\ (snd (fst r1) = Ok tt -> fst (fst r1) = fst (fst r2)).
Proof. exact en_decode_fresh. Qed.
Print Assumptions C05_enip_fresh.

(* C01: NextLayerType/NextLayer check len(Data) before reading; ENIPCommand/ENIPStatus.String have a default *)
Theorem C01_enip_render_total : forall old data, en_render_panics (fst (fst (en_decode_into old data))) = false.
Proof. reflexivity. Qed.

Example Lenip_nonvacuous :
  (* SendRRData, interface handle 0, two items (null address, connected data of 2 octets), 3 octets of payload *)
  let p := [111;0;14;0; 1;0;0;0; 0;0;0;0; 1;2;3;4;5;6;7;8; 0;0;0;0;  0;0;0;0; 5;0; 2;0; 0;0;0;0; 161;0;2;0;9;9; 7;7;7] in
  exists d, en_decode_into en_fresh p = (d, Ok tt, false) /\ en_payload d = [7;7;7] /\ zlen (en_cs_data d) = 18 /\ en_next d = 1.
Proof. cbv zeta. eexists. split; [vm_compute; reflexivity|]. repeat split; vm_compute; reflexivity. Qed.
