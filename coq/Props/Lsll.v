(* Lsll — Linux cooked capture v1 header decoder (layers/linux_sll.go): contributions to C19, C05, C01.  No SerializeTo (C06/C07 n/a). *)
From GP Require Import Base ListX Codec MiscLib LsllModel.
From Coq Require Import Lia ZifyBool ZifyNat.
Open Scope Z_scope.
Ltac Zify.zify_post_hook ::= Z.div_mod_to_equations.

Ltac xstep :=
  match goal with
  | |- context [ml_bind ?o _ _ _] => destruct o eqn:?; cbn [ml_bind]
  | |- context [if ?c then _ else _] => destruct c eqn:?
  end.

Theorem C19_sll_no_panic : forall old data, bytes_ok data -> is_panic (snd (fst (sll_decode_into old data))) = false.
Proof.
  intros old data Hb. unfold sll_decode_into. cbv zeta. destruct (zlen data <? 16) eqn:Hn; [reflexivity|].
  rewrite ?cd_rd16_ok by lia. rewrite ?ml_rd32_ok by lia. rewrite ?cd_idx_ok by lia. cbn [ml_bind].
  pose proof (bytes_ok_nth data (Z.to_nat 4) Hb) as B4. pose proof (bytes_ok_nth data (Z.to_nat (4 + 1)) Hb) as B5.
  set (al := nth (Z.to_nat 4) data 0 * 256 + nth (Z.to_nat (4 + 1)) data 0) in *.
  destruct (zlen data <? al + 6) eqn:C; [reflexivity|].
  rewrite !cd_slc_ok by lia. rewrite ?cd_rd16_ok by lia. reflexivity.
Qed.
Print Assumptions C19_sll_no_panic.

Theorem C05_sll_fresh : forall old data,
  let r1 := sll_decode_into old data in
  let r2 := sll_decode_into sll_fresh data in
  snd (fst r1) = snd (fst r2) /\ snd r1 = snd r2 /\
  (snd (fst r1) = Ok tt -> fst (fst r1) = fst (fst r2)).
Proof.
  intros old data. cbv zeta. unfold sll_decode_into. cbv zeta.
  repeat (xstep; try solve [cbn [fst snd]; split; [reflexivity | split; [reflexivity | try (intros X; discriminate X); try reflexivity]]]).
  all: try (cbn [fst snd]; split; [reflexivity | split; [reflexivity | intros _; reflexivity]]).
Qed.
Print Assumptions C05_sll_fresh.

Theorem C01_sll_render_total : forall old data, sll_render_panics (fst (fst (sll_decode_into old data))) = false.
Proof. reflexivity. Qed.

Example Lsll_nonvacuous :
  sll_decode_into sll_fresh [0;0;0;1;0;6;1;2;3;4;5;6;0;0;8;0;69] = (mkSll [0;0;0;1;0;6;1;2;3;4;5;6;0;0;8;0] [69] 0 6 [1;2;3;4;5;6] 2048 1, Ok tt, false) /\
  snd (fst (sll_decode_into sll_fresh [0;0;0;1;0;12;1;2;3;4;5;6;0;0;8;0;69])) = Err 2.
Proof. split; vm_compute; reflexivity. Qed.
