(* C08 — written checksums are correct; verification accepts exactly the correct ones.
   Property theorems only; each is closed by a lemma of Proofs/C08Proofs.v or Proofs/C08Refs.v.

   Model (Model/C08Model.v): ComputeChecksum, FoldChecksum, pseudoheaderChecksum, computeChecksum,
   and per layer L in {IPv4 header, TCP, UDP, ICMPv4, ICMPv6, GRE}:
     L_emit   : bytes at the moment of checksum computation -> (checksum written, bytes with the field)
     L_decode : bytes handed to DecodeFromBytes -> region covered by the checksum, stored field (or Err)
     L_verify : bytes -> ChecksumVerificationResult (Valid, Correct, Actual)
   Reference: wordsum (big-endian 16-bit words, odd tail padded), oc (one's-complement fold),
   rfc1071 bs = 65535 - oc (wordsum bs); `reference p proto b0` = rfc1071 (pseudo-header ++ b0).
   udpmap x = if x = 0 then 0xffff else x (RFC 768). *)
From GP Require Import Base C08Model C08Proofs C08Refs C08Total.
Open Scope Z_scope.

(* ---- helpers ---- *)

(* all 2^32 accumulators, by arithmetic *)
Theorem C08_fold : forall c, 0 <= c < 4294967296 -> FoldChecksum c = 65535 - oc c.
Proof. exact fold_correct. Qed.
Print Assumptions C08_fold.

(* the fuelled loop of the model has left by its own exit condition: fuel is not what ends it *)
Theorem C08_fold_fuel : forall c n, 0 <= c < 4294967296 -> (2 <= n)%nat -> fold_loop n c = fold_loop 2 c.
Proof. exact fold_fuel_enough. Qed.

Theorem C08_compute : forall bs c, 0 <= c < 4294967296 -> ComputeChecksum bs c = (c + wordsum bs) mod 4294967296.
Proof. exact compute_spec. Qed.
Print Assumptions C08_compute.

(* below the wrap of the uint32 accumulator the helpers are RFC 1071 *)
Theorem C08_helpers_rfc1071_acc : forall bs c, 0 <= c -> 0 <= wordsum bs -> c + wordsum bs < 4294967296 ->
  FoldChecksum (ComputeChecksum bs c) = 65535 - oc (c + wordsum bs).
Proof. exact helpers_rfc1071_gen. Qed.

Theorem C08_helpers_rfc1071 : forall bs, bytes_ok bs -> Z.of_nat (length bs) <= 131074 ->
  FoldChecksum (ComputeChecksum bs 0) = rfc1071 bs.
Proof. exact helpers_rfc1071. Qed.
Print Assumptions C08_helpers_rfc1071.

(* FULL STATEMENT (properties.jsonl: "agree with RFC 1071 for every input") *)
Definition C08_helpers_unbounded : Prop :=
  forall bs, bytes_ok bs -> FoldChecksum (ComputeChecksum bs 0) = rfc1071 bs.

(* ... is false of the code as written: 131076 bytes of 0xff (known finding C08-accumulator-wrap) *)
Theorem C08_helpers_unbounded_refuted : ~ C08_helpers_unbounded.
Proof.
  intros Hall. destruct helpers_unbounded_refuted as (Hok & _ & Hf & Hr).
  assert (N : 1 <> 0) by discriminate. apply N.
  exact (eq_trans (eq_sym Hf) (eq_trans (Hall wrap_witness Hok) Hr)).
Qed.
Print Assumptions C08_helpers_unbounded_refuted.

(* ---- emitted checksum = reference over the bytes with the field zeroed ----
   bounds: 131034 + 40 (pseudo-header) = 131074 bytes is the longest input whose word sum cannot
   wrap; len_ok: length < 2^32, and < 2^16 under an IPv4 pseudo-header (16-bit length field) *)

Theorem C08_emit_ip4 : forall hdr, bytes_ok hdr -> (20 <= length hdr)%nat -> Z.of_nat (length hdr) <= 131074 ->
  let h0 := put16 hdr 10 0 in ip4_emit hdr = Ok (rfc1071 h0, put16 h0 10 (rfc1071 h0)).
Proof. exact ip4_emit_ref. Qed.

Theorem C08_emit_tcp : forall p bs, pseudo_ok p -> len_ok p bs -> bytes_ok bs -> (20 <= length bs)%nat ->
  Z.of_nat (length bs) <= 131034 ->
  let b0 := put16 bs 16 0 in
  tcp_emit p bs = Ok (reference p IPProtocolTCP b0, put16 b0 16 (reference p IPProtocolTCP b0)).
Proof. exact tcp_emit_ref. Qed.

Theorem C08_emit_udp : forall p bs, pseudo_ok p -> len_ok p bs -> bytes_ok bs -> (8 <= length bs)%nat ->
  Z.of_nat (length bs) <= 131034 ->
  let b0 := put16 bs 6 0 in
  udp_emit p bs = Ok (udpmap (reference p IPProtocolUDP b0), put16 b0 6 (udpmap (reference p IPProtocolUDP b0))).
Proof. exact udp_emit_ref. Qed.

Theorem C08_emit_icmp4 : forall bs, bytes_ok bs -> (8 <= length bs)%nat -> Z.of_nat (length bs) <= 131074 ->
  let b0 := put16 bs 2 0 in icmp4_emit bs = Ok (rfc1071 b0, put16 b0 2 (rfc1071 b0)).
Proof. exact icmp4_emit_ref. Qed.

Theorem C08_emit_icmp6 : forall p bs, pseudo_ok p -> len_ok p bs -> bytes_ok bs -> (4 <= length bs)%nat ->
  Z.of_nat (length bs) <= 131034 ->
  let b0 := put16 bs 2 0 in
  icmp6_emit p bs = Ok (reference p IPProtocolICMPv6 b0, put16 b0 2 (reference p IPProtocolICMPv6 b0)).
Proof. exact icmp6_emit_ref. Qed.

Theorem C08_emit_gre : forall bs, bytes_ok bs -> (8 <= length bs)%nat -> 128 <= nthZ bs 0 -> Z.of_nat (length bs) <= 131074 ->
  let b0 := put16 bs 4 0 in gre_emit bs = Ok (Some (rfc1071 b0), put16 b0 4 (rfc1071 b0)).
Proof. exact gre_emit_ref. Qed.
Print Assumptions C08_emit_udp.
Print Assumptions C08_emit_gre.

(* ---- junk in the checksum field position: the emitters clear the field before summing, so the
   written checksum (and the written bytes) do not depend on what the buffer held there (reused
   SerializeBuffer).  Independence of the other bytes from buffer leftovers is C07_<layer>_junk_free. ---- *)
Theorem C08_emit_junk_free_ip4 : forall hdr v, ip4_emit (put16 hdr 10 v) = ip4_emit hdr.
Proof. exact ip4_emit_put16. Qed.
Theorem C08_emit_junk_free_tcp : forall p bs v, tcp_emit p (put16 bs 16 v) = tcp_emit p bs.
Proof. exact tcp_emit_put16. Qed.
Theorem C08_emit_junk_free_udp : forall p bs v, udp_emit p (put16 bs 6 v) = udp_emit p bs.
Proof. exact udp_emit_put16. Qed.
Theorem C08_emit_junk_free_icmp4 : forall bs v, icmp4_emit (put16 bs 2 v) = icmp4_emit bs.
Proof. exact icmp4_emit_put16. Qed.
Theorem C08_emit_junk_free_icmp6 : forall p bs v, icmp6_emit p (put16 bs 2 v) = icmp6_emit p bs.
Proof. exact icmp6_emit_put16. Qed.
Theorem C08_emit_junk_free_gre : forall bs v, (8 <= length bs)%nat -> 128 <= nthZ bs 0 ->
  gre_emit (put16 bs 4 v) = gre_emit bs.
Proof. exact gre_emit_put16. Qed.
Print Assumptions C08_emit_junk_free_tcp.

(* with a pseudo-header the sum is never 0, so 0xffff is written only through the UDP rule *)
Theorem C08_pseudo_never_ffff : forall p proto b0, pseudo_ok p -> 0 < proto < 256 -> bytes_ok b0 -> len_ok p b0 ->
  reference p proto b0 <> 65535.
Proof. exact reference_not_ffff. Qed.

(* ---- VerifyChecksum: Correct is what the emitter writes over the covered region, Actual the stored
   field, Valid their equality (UDP: or stored 0; GRE: or no checksum flag).  No length bound. ---- *)

Theorem C08_verify_core_tcp : forall p r, pseudo_ok p -> len_ok p r -> bytes_ok r -> (20 <= length r)%nat ->
  exists ck out, tcp_emit p r = Ok (ck, out) /\ 0 <= ck <= 65535 /\
    tcp_VerifyChecksum p r (get16 r 16) = Ok {| v_valid := ck =? get16 r 16; v_correct := ck; v_actual := get16 r 16 |}.
Proof. exact tcp_verify_core. Qed.

Theorem C08_verify_core_udp : forall p r, pseudo_ok p -> len_ok p r -> bytes_ok r -> (8 <= length r)%nat ->
  exists ck out, udp_emit p r = Ok (ck, out) /\ 1 <= ck <= 65535 /\
    udp_VerifyChecksum p r (get16 r 6) =
      Ok {| v_valid := (get16 r 6 =? 0) || (ck =? get16 r 6); v_correct := ck; v_actual := get16 r 6 |}.
Proof. exact udp_verify_core. Qed.

Theorem C08_verify_core_icmp6 : forall p r, pseudo_ok p -> len_ok p r -> bytes_ok r -> (4 <= length r)%nat ->
  exists ck out, icmp6_emit p r = Ok (ck, out) /\ 0 <= ck <= 65535 /\
    icmp6_VerifyChecksum p r (get16 r 2) = Ok {| v_valid := ck =? get16 r 2; v_correct := ck; v_actual := get16 r 2 |}.
Proof. exact icmp6_verify_core. Qed.

Theorem C08_verify_core_ip4 : forall c, bytes_ok c -> (20 <= length c)%nat ->
  exists ck out, ip4_emit c = Ok (ck, out) /\ 0 <= ck <= 65535 /\
    ip4_VerifyChecksum c (get16 c 10) = {| v_valid := ck =? get16 c 10; v_correct := ck; v_actual := get16 c 10 |}.
Proof. exact ip4_verify_core. Qed.

Theorem C08_verify_core_icmp4 : forall c, bytes_ok c -> (8 <= length c)%nat ->
  exists ck out, icmp4_emit c = Ok (ck, out) /\ 0 <= ck <= 65535 /\
    plain_VerifyChecksum c (get16 c 2) = {| v_valid := ck =? get16 c 2; v_correct := ck; v_actual := get16 c 2 |}.
Proof. exact icmp4_verify_core. Qed.

Theorem C08_verify_core_gre : forall c, bytes_ok c -> (8 <= length c)%nat -> 128 <= nthZ c 0 ->
  exists ck out, gre_emit c = Ok (Some ck, out) /\ 0 <= ck <= 65535 /\
    gre_VerifyChecksum c (get16 c 4) true = {| v_valid := ck =? get16 c 4; v_correct := ck; v_actual := get16 c 4 |}.
Proof. exact gre_verify_core. Qed.
Print Assumptions C08_verify_core_udp.

(* what the decoders hand over *)
Theorem C08_region_tcp : forall data r e, tcp_decode data = Ok (r, e) -> r = data /\ e = get16 data 16 /\ (20 <= length data)%nat.
Proof. exact tcp_decode_inv. Qed.
Theorem C08_region_udp : forall data r e, udp_decode data = Ok (r, e) -> (exists k, r = firstn k data) /\ e = get16 r 6 /\ (8 <= length r)%nat.
Proof. exact udp_decode_inv. Qed.
Theorem C08_region_ip4 : forall data c e, ip4_decode data = Ok (c, e) -> (exists k, c = firstn k data) /\ e = get16 c 10 /\ (20 <= length c)%nat.
Proof. exact ip4_decode_inv. Qed.
Theorem C08_region_gre : forall data r e c, gre_decode data = Ok (r, e, c) ->
  r = data /\ c = (128 <=? nthZ data 0) /\ (c = true -> e = get16 data 4 /\ (8 <= length data)%nat).
Proof. exact gre_decode_inv. Qed.

(* ---- verification accepts what the emitters wrote (any length: emitter and verifier wrap alike) ---- *)

Theorem C08_verify_accepts_tcp : forall p bs ck pk r e, pseudo_ok p -> len_ok p bs -> bytes_ok bs -> (20 <= length bs)%nat ->
  tcp_emit p bs = Ok (ck, pk) -> tcp_decode pk = Ok (r, e) ->
  tcp_verify p pk = Ok {| v_valid := true; v_correct := ck; v_actual := ck |}.
Proof. exact tcp_accepts. Qed.

Theorem C08_verify_accepts_udp : forall p bs ck pk e, pseudo_ok p -> len_ok p bs -> bytes_ok bs -> (8 <= length bs)%nat ->
  udp_emit p bs = Ok (ck, pk) -> udp_decode pk = Ok (pk, e) ->
  udp_verify p pk = Ok {| v_valid := true; v_correct := ck; v_actual := ck |} /\ 1 <= ck <= 65535.
Proof. exact udp_accepts. Qed.

Theorem C08_verify_accepts_icmp6 : forall p bs ck pk r e, pseudo_ok p -> len_ok p bs -> bytes_ok bs -> (4 <= length bs)%nat ->
  icmp6_emit p bs = Ok (ck, pk) -> icmp6_decode pk = Ok (r, e) ->
  icmp6_verify p pk = Ok {| v_valid := true; v_correct := ck; v_actual := ck |}.
Proof. exact icmp6_accepts. Qed.

Theorem C08_verify_accepts_icmp4 : forall bs ck pk r e, bytes_ok bs -> (8 <= length bs)%nat ->
  icmp4_emit bs = Ok (ck, pk) -> icmp4_decode pk = Ok (r, e) ->
  icmp4_verify pk = Ok {| v_valid := true; v_correct := ck; v_actual := ck |}.
Proof. exact icmp4_accepts. Qed.

Theorem C08_verify_accepts_gre : forall bs ck pk r e c, bytes_ok bs -> (8 <= length bs)%nat -> 128 <= nthZ bs 0 ->
  gre_emit bs = Ok (Some ck, pk) -> gre_decode pk = Ok (r, e, c) ->
  gre_verify pk = Ok {| v_valid := true; v_correct := ck; v_actual := ck |}.
Proof. exact gre_accepts. Qed.

Theorem C08_verify_accepts_ip4 : forall hdr ck h payload e, bytes_ok hdr -> (20 <= length hdr)%nat ->
  ip4_emit hdr = Ok (ck, h) -> ip4_decode (h ++ payload) = Ok (h, e) ->
  ip4_verify (h ++ payload) = Ok {| v_valid := true; v_correct := ck; v_actual := ck |}.
Proof. exact ip4_accepts. Qed.
Print Assumptions C08_verify_accepts_udp.
Print Assumptions C08_verify_accepts_ip4.

(* the code before `fix: UDP VerifyChecksum expects 0xffff ...` rejected its own emitter's 0xffff *)
Theorem C08_udp_unrepaired_refuted :
  exists pk, udp_emit (P4 udp_ffff_src udp_ffff_dst) udp_ffff_bytes = Ok (65535, pk) /\
    udp_verify_orig (P4 udp_ffff_src udp_ffff_dst) pk = Ok {| v_valid := false; v_correct := 0; v_actual := 65535 |} /\
    udp_verify (P4 udp_ffff_src udp_ffff_dst) pk = Ok {| v_valid := true; v_correct := 65535; v_actual := 65535 |}.
Proof. exact udp_unrepaired_refuted. Qed.

(* ---- one flipped bit of an emitted packet is reported, with the reference as Correct ----
   for every bit i of the packet such that the flipped packet still decodes (the decode hypothesis
   fixes the covered region to the same extent; flips of length-determining fields that re-parse to
   another region are outside: for those C08_verify_core_* says what is computed).
   Exceptions stated as hypotheses: UDP stored value 0 ("no checksum"), GRE checksum flag cleared. *)

Theorem C08_bitflip_tcp : forall p bs ck pk i r e, pseudo_ok p -> len_ok p bs -> bytes_ok bs -> (20 <= length bs)%nat ->
  Z.of_nat (length bs) <= 131034 ->
  tcp_emit p bs = Ok (ck, pk) -> (i < 8 * length pk)%nat -> tcp_decode (flip_bit pk i) = Ok (r, e) ->
  tcp_verify p (flip_bit pk i) =
    Ok {| v_valid := false; v_correct := reference p IPProtocolTCP (put16 (flip_bit pk i) 16 0); v_actual := get16 (flip_bit pk i) 16 |}.
Proof. exact tcp_bitflip. Qed.

Theorem C08_bitflip_udp : forall p bs ck pk i e, pseudo_ok p -> len_ok p bs -> bytes_ok bs -> (8 <= length bs)%nat ->
  Z.of_nat (length bs) <= 131034 ->
  udp_emit p bs = Ok (ck, pk) -> (i < 8 * length pk)%nat ->
  udp_decode (flip_bit pk i) = Ok (flip_bit pk i, e) -> get16 (flip_bit pk i) 6 <> 0 ->
  udp_verify p (flip_bit pk i) =
    Ok {| v_valid := false; v_correct := udpmap (reference p IPProtocolUDP (put16 (flip_bit pk i) 6 0));
          v_actual := get16 (flip_bit pk i) 6 |}.
Proof. exact udp_bitflip. Qed.

Theorem C08_bitflip_icmp6 : forall p bs ck pk i r e, pseudo_ok p -> len_ok p bs -> bytes_ok bs -> (4 <= length bs)%nat ->
  Z.of_nat (length bs) <= 131034 ->
  icmp6_emit p bs = Ok (ck, pk) -> (i < 8 * length pk)%nat -> icmp6_decode (flip_bit pk i) = Ok (r, e) ->
  icmp6_verify p (flip_bit pk i) =
    Ok {| v_valid := false; v_correct := reference p IPProtocolICMPv6 (put16 (flip_bit pk i) 2 0); v_actual := get16 (flip_bit pk i) 2 |}.
Proof. exact icmp6_bitflip. Qed.

Theorem C08_bitflip_icmp4 : forall bs ck pk i r e, bytes_ok bs -> (8 <= length bs)%nat -> Z.of_nat (length bs) <= 131074 ->
  icmp4_emit bs = Ok (ck, pk) -> (i < 8 * length pk)%nat -> icmp4_decode (flip_bit pk i) = Ok (r, e) ->
  icmp4_verify (flip_bit pk i) =
    Ok {| v_valid := false; v_correct := rfc1071 (put16 (flip_bit pk i) 2 0); v_actual := get16 (flip_bit pk i) 2 |}.
Proof. exact icmp4_bitflip. Qed.

Theorem C08_bitflip_gre : forall bs ck pk i r e, bytes_ok bs -> (8 <= length bs)%nat -> 128 <= nthZ bs 0 ->
  Z.of_nat (length bs) <= 131074 ->
  gre_emit bs = Ok (Some ck, pk) -> (i < 8 * length pk)%nat -> gre_decode (flip_bit pk i) = Ok (r, e, true) ->
  gre_verify (flip_bit pk i) =
    Ok {| v_valid := false; v_correct := rfc1071 (put16 (flip_bit pk i) 4 0); v_actual := get16 (flip_bit pk i) 4 |}.
Proof. exact gre_bitflip. Qed.

Theorem C08_bitflip_ip4 : forall hdr ck h i payload e, bytes_ok hdr -> (20 <= length hdr)%nat -> Z.of_nat (length hdr) <= 131074 ->
  ip4_emit hdr = Ok (ck, h) -> (i < 8 * length h)%nat ->
  ip4_decode (flip_bit h i ++ payload) = Ok (flip_bit h i, e) ->
  ip4_verify (flip_bit h i ++ payload) =
    Ok {| v_valid := false; v_correct := rfc1071 (put16 (flip_bit h i) 10 0); v_actual := get16 (flip_bit h i) 10 |}.
Proof. exact ip4_bitflip. Qed.
Print Assumptions C08_bitflip_udp.
Print Assumptions C08_bitflip_ip4.

(* ---- verification of ANY byte string: decoding fails, or Correct = what the emitter writes over
   the covered region, Actual = stored field, Valid = their equality (UDP: or stored 0; GRE: or
   checksum flag clear).  Hence "accepts exactly the correct ones"; also covers flips of
   length-determining fields (the result is computed over the new region).  No length bound. ---- *)

Theorem C08_verify_total_tcp : forall p data, pseudo_ok p -> bytes_ok data -> len_ok p data ->
  (exists c, tcp_verify p data = Err c) \/
  (exists ck out, tcp_emit p data = Ok (ck, out) /\
     tcp_verify p data = Ok {| v_valid := ck =? get16 data 16; v_correct := ck; v_actual := get16 data 16 |}).
Proof. exact tcp_verify_total. Qed.

Theorem C08_verify_total_udp : forall p data, pseudo_ok p -> bytes_ok data -> len_ok p data ->
  (exists c, udp_verify p data = Err c) \/
  (exists k ck out, let r := firstn k data in udp_decode data = Ok (r, get16 r 6) /\ udp_emit p r = Ok (ck, out) /\
     udp_verify p data = Ok {| v_valid := (get16 r 6 =? 0) || (ck =? get16 r 6); v_correct := ck; v_actual := get16 r 6 |}).
Proof. exact udp_verify_total. Qed.

Theorem C08_verify_total_icmp6 : forall p data, pseudo_ok p -> bytes_ok data -> len_ok p data ->
  (exists c, icmp6_verify p data = Err c) \/
  (exists ck out, icmp6_emit p data = Ok (ck, out) /\
     icmp6_verify p data = Ok {| v_valid := ck =? get16 data 2; v_correct := ck; v_actual := get16 data 2 |}).
Proof. exact icmp6_verify_total. Qed.

Theorem C08_verify_total_icmp4 : forall data, bytes_ok data ->
  (exists c, icmp4_verify data = Err c) \/
  (exists ck out, icmp4_emit data = Ok (ck, out) /\
     icmp4_verify data = Ok {| v_valid := ck =? get16 data 2; v_correct := ck; v_actual := get16 data 2 |}).
Proof. exact icmp4_verify_total. Qed.

Theorem C08_verify_total_ip4 : forall data, bytes_ok data ->
  (exists c, ip4_verify data = Err c) \/
  (exists k ck out, let c := firstn k data in ip4_decode data = Ok (c, get16 c 10) /\ ip4_emit c = Ok (ck, out) /\
     ip4_verify data = Ok {| v_valid := ck =? get16 c 10; v_correct := ck; v_actual := get16 c 10 |}).
Proof. exact ip4_verify_total. Qed.

Theorem C08_verify_total_gre : forall data, bytes_ok data ->
  (exists c, gre_verify data = Err c) \/
  (128 <= nthZ data 0 /\ exists ck out, gre_emit data = Ok (Some ck, out) /\
     gre_verify data = Ok {| v_valid := ck =? get16 data 4; v_correct := ck; v_actual := get16 data 4 |}) \/
  (nthZ data 0 < 128 /\ exists v, gre_verify data = Ok v /\ v_valid v = true).
Proof. exact gre_verify_total. Qed.
Print Assumptions C08_verify_total_udp.
Print Assumptions C08_verify_total_gre.

(* ICMP: every single bit of an emitted message is protected, no decode hypothesis needed *)
Theorem C08_bitflip_icmp4_all : forall bs ck pk i, bytes_ok bs -> (8 <= length bs)%nat -> Z.of_nat (length bs) <= 131074 ->
  icmp4_emit bs = Ok (ck, pk) -> (i < 8 * length pk)%nat ->
  icmp4_verify (flip_bit pk i) =
    Ok {| v_valid := false; v_correct := rfc1071 (put16 (flip_bit pk i) 2 0); v_actual := get16 (flip_bit pk i) 2 |}.
Proof. exact icmp4_bitflip_all. Qed.

Theorem C08_bitflip_icmp6_all : forall p bs ck pk i, pseudo_ok p -> len_ok p bs -> bytes_ok bs -> (4 <= length bs)%nat ->
  Z.of_nat (length bs) <= 131034 ->
  icmp6_emit p bs = Ok (ck, pk) -> (i < 8 * length pk)%nat ->
  icmp6_verify p (flip_bit pk i) =
    Ok {| v_valid := false; v_correct := reference p IPProtocolICMPv6 (put16 (flip_bit pk i) 2 0); v_actual := get16 (flip_bit pk i) 2 |}.
Proof. exact icmp6_bitflip_all. Qed.
Print Assumptions C08_bitflip_icmp6_all.

(* ---- non-vacuity: concrete packets meeting the hypotheses ---- *)
Definition ex_src4 : list Z := [10; 0; 0; 1].
Definition ex_dst4 : list Z := [10; 0; 0; 2].
Definition ex_udp : list Z := [0; 53; 4; 210; 0; 11; 0; 0; 1; 2; 3].      (* odd length *)
Definition ex_tcp : list Z := [0; 80; 4; 210; 0; 0; 0; 1; 0; 0; 0; 2; 80; 24; 1; 0; 0; 0; 0; 0; 9].
Definition ex_ip4 : list Z := [69; 0; 0; 24; 0; 1; 0; 0; 64; 253; 0; 0; 10; 0; 0; 1; 10; 0; 0; 2].

Example C08_nonvacuous_udp :
  pseudo_ok (P4 ex_src4 ex_dst4) /\ len_ok (P4 ex_src4 ex_dst4) ex_udp /\ bytes_ok ex_udp /\
  exists ck pk e, udp_emit (P4 ex_src4 ex_dst4) ex_udp = Ok (ck, pk) /\ udp_decode pk = Ok (pk, e) /\
    udp_decode (flip_bit pk 70%nat) = Ok (flip_bit pk 70%nat, get16 (flip_bit pk 70%nat) 6) /\ get16 (flip_bit pk 70%nat) 6 <> 0.
Proof.
  unfold pseudo_ok, len_ok, bytes_ok, ex_src4, ex_dst4, ex_udp.
  repeat split; try reflexivity; try (repeat constructor; unfold byte_ok; lia).
  do 3 eexists. vm_compute. repeat split; discriminate.
Qed.

Example C08_nonvacuous_tcp :
  bytes_ok ex_tcp /\ exists ck pk r e r' e', tcp_emit (P4 ex_src4 ex_dst4) ex_tcp = Ok (ck, pk) /\ tcp_decode pk = Ok (r, e) /\
    tcp_decode (flip_bit pk 3%nat) = Ok (r', e').
Proof.
  split; [unfold bytes_ok, ex_tcp; repeat constructor; unfold byte_ok; lia|].
  do 6 eexists. vm_compute. repeat split.
Qed.

Example C08_nonvacuous_ip4 :
  bytes_ok ex_ip4 /\ exists ck h e e', ip4_emit ex_ip4 = Ok (ck, h) /\ ip4_decode (h ++ [1; 2; 3; 4]) = Ok (h, e) /\
    ip4_decode (flip_bit h 37%nat ++ [1; 2; 3; 4]) = Ok (flip_bit h 37%nat, e').
Proof.
  split; [unfold bytes_ok, ex_ip4; repeat constructor; unfold byte_ok; lia|].
  exists 26086, [69; 0; 0; 24; 0; 1; 0; 0; 64; 253; 101; 230; 10; 0; 0; 1; 10; 0; 0; 2], 26086, 26086.
  vm_compute. repeat split.
Qed.

(* the bound of C08_helpers_rfc1071 is attained without wrapping: 131074 bytes of 0xff *)
Example C08_nonvacuous_helpers :
  FoldChecksum (ComputeChecksum (repeat 255 (Z.to_nat 131074)) 0) = rfc1071 (repeat 255 (Z.to_nat 131074)).
Proof. vm_compute. reflexivity. Qed.
