(* C14 (classic pcap half): what pcapgo.Writer writes, pcapgo.Reader reads back; every prefix of
   the file yields exactly the packets wholly contained in it, then EOF (cut at a record
   boundary) or unexpected EOF.  Property theorems only; proofs in Proofs/PcapRoundtrip.v.

   The file may reach the reader in any chunking (s is any stream with flat s = the bytes and no
   read error); zc selects ZeroCopyReadPacketData; fuel > number of packets is the number of
   read calls allowed; rd_pkt is the packet with its timestamp at the file's resolution. *)
From GP Require Import Base PcapModel PcapStream PcapRoundtrip.
Open Scope Z_scope.

(* hypotheses on a packet: exactly what WritePacket enforces (caplen = |data| <= len), plus
   caplen <= snaplen (which the format requires and the reader checks), a length and a
   timestamp representable in the 32-bit fields *)
Definition C14_pkt_ok := pkt_ok.

Theorem C14_pcap_roundtrip : forall zc nano snaplen lt ps s fuel,
  0 <= snaplen < 4294967296 -> 0 <= lt < 65536 -> Forall (pkt_ok snaplen) ps ->
  flat s = fst (write_file nano snaplen lt ps) -> failed s = false -> (length ps < fuel)%nat ->
  snd (write_file nano snaplen lt ps) = map (fun _ => 0) ps /\          (* every WritePacket returns nil *)
  exists rd al rs, pcap_run zc fuel s = (Ok rd, al, rs, true) /\
     r_snaplen rd = snaplen /\ r_lt rd = lt /\ r_factor rd = scaler nano /\
     map fst rs = map (fun p => Ok (rd_pkt nano p)) ps ++ [Err E_EOF].
Proof. exact pcap_roundtrip. Qed.
Print Assumptions C14_pcap_roundtrip.

(* the same for a file in either byte order (as other tools write them) *)
Theorem C14_pcap_roundtrip_any_byte_order : forall zc be nano snaplen lt ps s fuel,
  0 <= snaplen < 4294967296 -> 0 <= lt < 65536 -> Forall (pkt_ok snaplen) ps ->
  flat s = enc_file be nano snaplen lt ps -> failed s = false -> (length ps < fuel)%nat ->
  exists rd al rs, pcap_run zc fuel s = (Ok rd, al, rs, true) /\
     r_snaplen rd = snaplen /\ r_lt rd = lt /\ r_factor rd = scaler nano /\
     map fst rs = map (fun p => Ok (rd_pkt nano p)) ps ++ [Err E_EOF].
Proof. exact pcap_roundtrip_enc. Qed.
Print Assumptions C14_pcap_roundtrip_any_byte_order.

Theorem C14_pcap_writer_is_little_endian_encoder : forall nano snaplen lt ps,
  Forall (pkt_ok snaplen) ps ->
  write_file nano snaplen lt ps = (enc_file false nano snaplen lt ps, map (fun _ => 0) ps).
Proof. exact write_file_ok. Qed.

(* every truncation offset k: k < 24 fails in NewReader (EOF for k < 2, where Peek(2) fails, else
   unexpected EOF); otherwise the reader returns the packets wholly contained in the first k
   bytes, unaltered, then EOF iff k is a record boundary, else unexpected EOF *)
Theorem C14_pcap_prefix : forall zc be nano snaplen lt ps k s fuel,
  0 <= snaplen < 4294967296 -> 0 <= lt < 65536 -> Forall (pkt_ok snaplen) ps ->
  (k <= length (enc_file be nano snaplen lt ps))%nat ->
  flat s = firstn k (enc_file be nano snaplen lt ps) -> failed s = false -> (length ps < fuel)%nat ->
  if (k <? 24)%nat
  then exists al, pcap_run zc fuel s = (Err (if (k <? 2)%nat then E_EOF else E_UEOF), al, [], true)
  else exists rd al rs, pcap_run zc fuel s = (Ok rd, al, rs, true) /\
         r_snaplen rd = snaplen /\ r_lt rd = lt /\ r_factor rd = scaler nano /\
         map fst rs = map (fun p => Ok (rd_pkt nano p)) (whole (k - 24) ps)
                      ++ [Err (if at_boundary (k - 24) ps then E_EOF else E_UEOF)].
Proof. exact pcap_prefix. Qed.
Print Assumptions C14_pcap_prefix.

(* whole / at_boundary are what they should be: all packets, at a boundary, for the whole file *)
Theorem C14_pcap_whole_all : forall be nano ps, whole (length (body be nano ps)) ps = ps.
Proof. exact whole_all. Qed.
Theorem C14_pcap_boundary_all : forall be nano ps, at_boundary (length (body be nano ps)) ps = true.
Proof. exact at_boundary_all. Qed.

(* the self-delimiting record lemmas (DESIGN.md A.5) *)
Theorem C14_pcap_record_ok : forall zc be nano snaplen rd p s r,
  rd_matches rd be nano snaplen -> pkt_ok snaplen p -> flat s = enc_record be nano p ++ r ->
  exists rd' s' al, read_packet zc rd s = (Ok (rd_pkt nano p), rd', s', al) /\
     rd_matches rd' be nano snaplen /\ flat s' = r /\ failed s' = failed s.
Proof. exact read_record_ok. Qed.
Theorem C14_pcap_record_cut : forall zc be nano snaplen rd p s k,
  rd_matches rd be nano snaplen -> pkt_ok snaplen p -> (0 < k < reclen p)%nat ->
  flat s = firstn k (enc_record be nano p) -> failed s = false ->
  exists rd' s' al, read_packet zc rd s = (Err E_UEOF, rd', s', al).
Proof. exact read_record_cut. Qed.
Theorem C14_pcap_record_eof : forall zc rd s, flat s = [] -> failed s = false ->
  exists rd' s' al, read_packet zc rd s = (Err E_EOF, rd', s', al).
Proof. exact read_record_empty. Qed.
Print Assumptions C14_pcap_record_cut.

(* ---------------------------------------------------------------- non-vacuity *)
Definition ex_ps : list pkt :=
  [ {| p_sec := 1411042394; p_nsec := 1999; p_caplen := 4; p_len := 8; p_data := [1;2;3;4] |};
    {| p_sec := 4294967295; p_nsec := 999999999; p_caplen := 0; p_len := 4294967295; p_data := [] |};
    {| p_sec := 0; p_nsec := 0; p_caplen := 2; p_len := 2; p_data := [255;0] |} ].

Example C14_pcap_nonvacuous_hyp : Forall (pkt_ok 4) ex_ps.
Proof. repeat constructor; cbn; lia. Qed.

(* the file written (microseconds) delivered in two chunks reads back: timestamps at 1 us *)
Example C14_pcap_nonvacuous_roundtrip :
  let file := fst (write_file false 4 1 ex_ps) in
  length file = 78%nat /\
  map fst (snd (fst (pcap_run true 4 [Chunk (firstn 30 file); Chunk (skipn 30 file)]))) =
    [ Ok {| k_sec := 1411042394; k_nsec := 1000; k_caplen := 4; k_len := 8; k_data := [1;2;3;4] |};
      Ok {| k_sec := 4294967295; k_nsec := 999999000; k_caplen := 0; k_len := 4294967295; k_data := [] |};
      Ok {| k_sec := 0; k_nsec := 0; k_caplen := 2; k_len := 2; k_data := [255;0] |};
      Err E_EOF ].
Proof. vm_compute. split; reflexivity. Qed.

(* cuts: k = 40 (right after the first record header) and k = 43 are inside record 1; k = 44 is
   the boundary after it; k = 60 is the boundary after the (empty) second record *)
Example C14_pcap_nonvacuous_prefix :
  (whole (40 - 24) ex_ps, at_boundary (40 - 24) ex_ps) = ([], false) /\
  (whole (44 - 24) ex_ps, at_boundary (44 - 24) ex_ps) = (firstn 1 ex_ps, true) /\
  (whole (60 - 24) ex_ps, at_boundary (60 - 24) ex_ps) = (firstn 2 ex_ps, true) /\
  (whole (61 - 24) ex_ps, at_boundary (61 - 24) ex_ps) = (firstn 2 ex_ps, false) /\
  map fst (snd (fst (pcap_run false 4 [Chunk (firstn 40 (enc_file true true 4 1 ex_ps))]))) = [Err E_UEOF].
Proof. vm_compute. repeat split; reflexivity. Qed.
