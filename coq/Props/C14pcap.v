(* C14 (classic pcap half) -- theorems are added in Proofs/PcapProofs.v; this file holds the
   property statements only. *)
From GP Require Import Base PcapModel.
Open Scope Z_scope.

(* sanity: a two-packet microsecond file written by the model's writer reads back *)
Example C14_pcap_sample :
  let ps := [ {| p_sec := 1411042394; p_nsec := 1000; p_caplen := 4; p_len := 8; p_data := [1;2;3;4] |};
              {| p_sec := 5; p_nsec := 999999999; p_caplen := 0; p_len := 0; p_data := [] |} ] in
  let '(file, _) := write_file false 65535 1 ps in
  map fst (snd (fst (pcap_read_file false 5 file))) =
    [ Ok {| k_sec := 1411042394; k_nsec := 1000; k_caplen := 4; k_len := 8; k_data := [1;2;3;4] |};
      Ok {| k_sec := 5; k_nsec := 999999000; k_caplen := 0; k_len := 0; k_data := [] |};
      Err E_EOF ].
Proof. vm_compute. reflexivity. Qed.
