(* Ltcp — layers/tcp.go.  Property theorems only. *)
From GP Require Import Base LtcpModel.
Open Scope Z_scope.

(* the 20-byte header 04d2 0050 00000001 00000002 <off>0 10 0064 0000 0000 with data offset [off] *)
Definition hdr (off : Z) (opts : list Z) : list Z :=
  [4;210;0;80;0;0;0;1;0;0;0;2;off*16;16;0;100;0;0;0;0] ++ opts.

(* unchanged tree: kind 30 as the last option byte -> index out of range *)
Theorem C19_tcp_orig_refuted :
  exists data, snd (decode_into_orig tcp0 data []) = Panic 100.
Proof. exists (hdr 6 [1;1;1;30]). vm_compute. reflexivity. Qed.
Print Assumptions C19_tcp_orig_refuted.
