(* Ltcp — layers/tcp.go (TCP header, generic options, all MPTCP option subtypes, TCPOption.String,
   SerializeTo, checksum).  Property theorems only; each is closed by a lemma of Proofs/LtcpProofs.v.
   decode_into / render_panics / serialize model the repaired tree (three fix: commits),
   the *_orig definitions the unchanged tree. *)
From GP Require Import Base LtcpModel LtcpProofs.
Open Scope Z_scope.

(* the 20-byte header 04d2 0050 00000001 00000002 <off>0 10 0064 0000 0000 with data offset [off] *)
Definition hdr (off : Z) (opts : list Z) : list Z :=
  [4;210;0;80;0;0;0;1;0;0;0;2;off*16;16;0;100;0;0;0;0] ++ opts.

(* ---------------------------------------------------------------- C19 *)
(* DecodeFromBytes never panics: for every receiver state, every byte string (any list of
   integers, even out-of-range ones) and every content of the spare capacity behind it.
   Running out of loop fuel is a Panic outcome in the model, so termination is included. *)
Theorem C19_tcp_no_panic : forall old data extra s, snd (decode_into old data extra) <> Panic s.
Proof. intros old data extra. apply np_not_panic. apply decode_np. Qed.
Print Assumptions C19_tcp_no_panic.

(* non-vacuity: a DSS option with all fields (28 bytes) is parsed to the end, and its 27-byte
   prefix is rejected with an error and the truncation flag *)
Example C19_tcp_nonvacuous :
  snd (decode_into tcp0 (hdr 12 ([30;28;32;31] ++ repeat 7 24)) []) = Ok tt /\
  (let r := decode_into tcp0 (hdr 12 ([1;30;28;32;31] ++ repeat 7 23)) [] in
   snd r = Err 22 /\ snd (fst r) = true).
Proof. vm_compute. repeat split. Qed.

(* unchanged tree: kind 30 as the last option byte -> index out of range; MP_FAIL with length 12
   and 4 bytes present -> slice bounds out of range; unknown subtype with length 9 > 4 remaining *)
Theorem C19_tcp_orig_refuted :
  snd (decode_into_orig tcp0 (hdr 6 [1;1;1;30]) []) = Panic 100 /\
  snd (decode_into_orig tcp0 (hdr 6 [30;12;96;0]) []) = Panic 160 /\
  snd (decode_into_orig tcp0 (hdr 6 [30;9;240;0]) []) = Panic 199.
Proof. vm_compute. repeat split. Qed.
Print Assumptions C19_tcp_orig_refuted.

(* unchanged tree: with payload behind the options the fixed-offset slices silently read the
   payload (cap, not len) before the final reslice panics *)
Theorem C19_tcp_orig_overread_refuted :
  snd (decode_into_orig tcp0 (hdr 6 [30;12;112;0] ++ [80;65;89;76;79;65;68;80;65;89]) []) = Panic 199.
Proof. vm_compute. reflexivity. Qed.

(* ---------------------------------------------------------------- C05 *)
(* Decoding into a reused object: outcome and truncation flag never depend on the previous
   state, and whenever the decode does not fail in the header (Err 1: shorter than 20 bytes,
   Err 2: data offset < 5 — "a returned error leaves the layer in an unknown state",
   parser.go:19-25) every field, Contents and Payload equal those of a fresh object. *)
Theorem C05_tcp_fresh : forall old data extra,
  snd (decode_into old data extra) = snd (decode_into tcp0 data extra) /\
  snd (fst (decode_into old data extra)) = snd (fst (decode_into tcp0 data extra)) /\
  (snd (decode_into old data extra) = Ok tt -> decode_into old data extra = decode_into tcp0 data extra) /\
  ((forall c, snd (decode_into old data extra) <> Err c \/ (c <> 1 /\ c <> 2)) ->
     decode_into old data extra = decode_into tcp0 data extra).
Proof.
  intros old data extra. destruct (decode_outcome_fresh old data extra) as [H1 H2].
  repeat split; auto using decode_fresh_ok, decode_fresh.
Qed.
Print Assumptions C05_tcp_fresh.

Definition with_mp : tcp := fst (fst (decode_into tcp0 (hdr 6 [30;3;80;0]) [])).
Example C05_tcp_nonvacuous :
  t_mp with_mp = true /\ t_opts with_mp <> [] /\
  snd (decode_into with_mp (hdr 5 []) []) = Ok tt /\
  t_mp (fst (fst (decode_into with_mp (hdr 5 []) []))) = false.
Proof. vm_compute. repeat split. discriminate. Qed.

(* unchanged tree: Multipath of the first packet survives into the second *)
Theorem C05_tcp_orig_refuted :
  let t1 := fst (fst (decode_into_orig tcp0 (hdr 6 [30;3;80;0]) [])) in
  snd (decode_into_orig t1 (hdr 5 []) []) = Ok tt /\
  t_mp (fst (fst (decode_into_orig t1 (hdr 5 []) []))) = true /\
  t_mp (fst (fst (decode_into_orig tcp0 (hdr 5 []) []))) = false.
Proof. vm_compute. repeat split. Qed.
Print Assumptions C05_tcp_orig_refuted.

(* ---------------------------------------------------------------- C01 *)
(* LayerString / LayerDump / every TCPOption.String on any layer value (in particular on what a
   failed decode leaves behind): no nil dereference.  (LayerGoString and TransportFlow have no
   panic condition; see the comment at render_gen.) *)
Theorem C01_tcp_render_total : forall t, render_panics t = (false, false).
Proof. exact render_total. Qed.
Print Assumptions C01_tcp_render_total.

(* unchanged tree: MP_CAPABLE with length 5 is a decode error that leaves a half-built option, and
   String() on it dereferences nil; the same with the repaired decoder and the unchanged String
   (the nil guards are needed independently of the length checks) *)
Theorem C01_tcp_orig_refuted :
  (let r := decode_into_orig tcp0 (hdr 6 [30;5;0;0]) [] in
   snd r = Err 10 /\ render_panics_orig (fst (fst r)) = (true, true)) /\
  (let r := decode_into tcp0 (hdr 7 [30;5;0;0;0;1;1;1]) [] in
   snd r = Err 10 /\ render_panics_orig (fst (fst r)) = (true, true)).
Proof. vm_compute. repeat split. Qed.
Print Assumptions C01_tcp_orig_refuted.

(* ---------------------------------------------------------------- C07 *)
(* SerializeTo never panics: for EVERY layer value (any field values, any option list, any
   padding - in particular everything decoding leaves behind, error residues included, and
   everything that can be built from the public fields), every payload, the four option
   combinations, with or without a network layer, whatever the buffer region held before. *)
Theorem C07_tcp_no_panic : forall t payload fx csum ph junk s,
  fst (serialize t payload fx csum ph junk) <> Panic s.
Proof. intros t payload fx csum ph junk. apply np_not_panic. apply serialize_np. Qed.
Print Assumptions C07_tcp_no_panic.

(* every byte of the region returned by PrependBytes is written: bytes, error and the layer left
   behind do not depend on the region's prior content *)
Theorem C07_tcp_junk_free : forall t payload fx csum ph junk1 junk2,
  serialize t payload fx csum ph junk1 = serialize t payload fx csum ph junk2.
Proof. exact serialize_junk_free. Qed.
Print Assumptions C07_tcp_junk_free.

(* the closed form: what is written, as a function of the layer alone *)
Theorem C07_tcp_output : forall t payload fx csum ph junk,
  serialize t payload fx csum ph junk = ser_spec t payload fx csum ph.
Proof. exact serialize_spec. Qed.

(* repeating SerializeTo on the layer it mutated (FixLengths, ComputeChecksums) gives the same
   bytes and the same layer *)
Theorem C07_tcp_idempotent_fields : forall t payload fx csum ph junk1 junk2,
  serialize (snd (serialize t payload fx csum ph junk1)) payload fx csum ph junk2
  = serialize t payload fx csum ph junk1.
Proof. exact serialize_again. Qed.
Print Assumptions C07_tcp_idempotent_fields.

(* non-vacuity: a layer with a 3-byte option (padding needed), odd payload, dirty buffer *)
Example C07_tcp_nonvacuous :
  let t := fst (fst (decode_into tcp0 (hdr 6 [3;3;7;0]) [])) in
  fst (serialize t [1;2;3] true true (Some (ph4 [10;0;0;1] [10;0;0;2])) (repeat 170 64)) =
  Ok [4;210;0;80;0;0;0;1;0;0;0;2;96;16;0;100;120;61;0;0;3;3;7;0;1;2;3].
Proof. vm_compute. reflexivity. Qed.

(* ---------------------------------------------------------------- C06 *)
From GP Require Import LtcpRoundtrip.

(* For every representable layer value [tcp_wf]: in-range header fields, options as the decoder
   builds them (NOP; kind/length/data with OptionLength = 2+len(OptionData); End-of-list last),
   no MPTCP option, at most 40 option bytes, padding only behind End-of-list — every payload,
   every pseudo-header, every prior buffer content: SerializeTo with FixLengths+ComputeChecksums
   succeeds; decoding the bytes succeeds without truncation flag and yields the fields of the
   layer as SerializeTo left it (which differ from the input layer only in DataOffset, Padding,
   Checksum), options in order, the same payload, Contents ++ Payload = the bytes; serializing
   the decoded layer again gives the same bytes. *)
Theorem C06_tcp_roundtrip : forall t payload ph junk, tcp_wf t ->
  exists bytes t' t2,
    serialize t payload true true (Some ph) junk = (Ok bytes, t') /\
    decode_into tcp0 bytes [] = (t2, false, Ok tt) /\
    core t2 = core t' /\ t_payload t2 = payload /\ t_contents t2 ++ t_payload t2 = bytes /\
    (t_sp t', t_dp t', t_seq t', t_ack t', t_flags t', t_win t', t_urg t', t_opts t', t_mp t') =
    (t_sp t, t_dp t, t_seq t, t_ack t, t_flags t, t_win t, t_urg t, t_opts t, t_mp t) /\
    (forall junk2, fst (serialize t2 (t_payload t2) true true (Some ph) junk2) = Ok bytes).
Proof. exact roundtrip. Qed.
Print Assumptions C06_tcp_roundtrip.

(* non-vacuity: MSS, NOP, NOP, End-of-list and one junk padding byte (7 option bytes: the padding
   is recomputed) is representable *)
Example C06_tcp_nonvacuous :
  tcp_wf (fst (fst (decode_into tcp0 (hdr 7 [2;4;5;180;1;1;0;9]) []))).
Proof.
  vm_compute. repeat split; try lia; try discriminate.
  - apply ok_gen; [vm_compute; repeat split; try lia; discriminate|].
    apply ok_nop. apply ok_nop. apply ok_eol.
  - right. exists [mkopt 2 4 [5;180] 0 MPnone; nop; nop]. reflexivity.
Qed.

(* ... and every layer value obtained by successfully decoding ANY byte string into ANY receiver is
   representable unless it carries an MPTCP option (kind 30, the known finding below) - so the
   round trip holds "for all field values reachable by decoding" *)
From GP Require Import LtcpDecoded.
Theorem C06_tcp_decoded_wf : forall old data extra t tr,
  bytes_ok data -> decode_into old data extra = (t, tr, Ok tt) -> no_mptcp (t_opts t) ->
  tcp_wf t /\ tr = false.
Proof. exact decode_wf. Qed.
Print Assumptions C06_tcp_decoded_wf.

Theorem C06_tcp_roundtrip_decoded : forall old data extra t tr payload ph junk,
  bytes_ok data -> decode_into old data extra = (t, tr, Ok tt) -> no_mptcp (t_opts t) ->
  exists bytes t' t2,
    serialize t payload true true (Some ph) junk = (Ok bytes, t') /\
    decode_into tcp0 bytes [] = (t2, false, Ok tt) /\
    core t2 = core t' /\ t_payload t2 = payload /\ t_contents t2 ++ t_payload t2 = bytes /\
    (forall junk2, fst (serialize t2 (t_payload t2) true true (Some ph) junk2) = Ok bytes).
Proof.
  intros old data extra t tr payload ph junk Hb Hd Hn.
  destruct (decode_wf old data extra t tr Hb Hd Hn) as [Hwf _].
  destruct (roundtrip t payload ph junk Hwf) as (bytes & t' & t2 & H1 & H2 & H3 & H4 & H5 & _ & H7).
  exists bytes, t', t2. repeat split; assumption.
Qed.
Print Assumptions C06_tcp_roundtrip_decoded.

(* known finding: a decoded layer with an MPTCP option (MP_CAPABLE, 4 bytes) is written as kind 30,
   length 2, no body, and the bytes do not decode back *)
Theorem C06_tcp_mptcp_refuted :
  let r := decode_into tcp0 (hdr 6 [30;4;1;129]) [] in
  snd r = Ok tt /\
  match fst (serialize (fst (fst r)) [] true true (Some 0) []) with
  | Ok bytes => snd (decode_into tcp0 bytes []) = Err 21
  | _ => False
  end.
Proof. vm_compute. split; reflexivity. Qed.
Print Assumptions C06_tcp_mptcp_refuted.
