(* Lbfd — BFD control packet codec (layers/bfd.go): contributions to C19, C05, C06, C07, C01. *)
From GP Require Import Base Codec MiscLib LbfdModel LbfdProofs LbfdRt.
Open Scope Z_scope.

(* for both variants of the decoder (with and without the AuthHeader reset) *)
Theorem C19_bfd_no_panic : forall orig old data, is_panic (snd (fst (bfd_decode_gen orig old data))) = false.
Proof. exact bfd_decode_no_panic. Qed.
Print Assumptions C19_bfd_no_panic.

Theorem C05_bfd_fresh : forall old data,
  let r1 := bfd_decode_into old data in
  let r2 := bfd_decode_into bfd_fresh data in
  snd (fst r1) = snd (fst r2) /\ snd r1 = snd r2 /\
  (snd (fst r1) = Ok tt -> fst (fst r1) = fst (fst r2)).
Proof. exact bfd_decode_fresh. Qed.
Print Assumptions C05_bfd_fresh.

(* before the repair: a packet without authentication section decoded into a layer that held one *)
Theorem C05_bfd_orig_refuted : exists a b l1 l2,
  bfd_decode_orig bfd_fresh a = (l1, Ok tt, false) /\ bfd_decode_orig l1 b = (l2, Ok tt, false) /\
  b_auth l2 <> None /\ b_auth (fst (fst (bfd_decode_orig bfd_fresh b))) = None.
Proof. exact bfd_decode_orig_stale. Qed.
Print Assumptions C05_bfd_orig_refuted.

(* closed form of SerializeTo: 24 header octets, the payload, the authentication section behind it *)
Theorem C07_bfd_closed_form : forall l payload fixl csum junk,
  bfd_serialize l payload fixl csum junk =
  if bfd_rej l then (Err 1, l) else (Ok (bfd_hdr l ++ payload ++ bfd_authbytes l), l).
Proof. exact bfd_serialize_spec. Qed.
Print Assumptions C07_bfd_closed_form.

Theorem C07_bfd_no_panic : forall l payload fixl csum junk,
  is_panic (fst (bfd_serialize l payload fixl csum junk)) = false.
Proof. exact bfd_serialize_no_panic. Qed.
Print Assumptions C07_bfd_no_panic.

Theorem C07_bfd_junk_free : forall l payload fixl csum junk1 junk2,
  bfd_serialize l payload fixl csum junk1 = bfd_serialize l payload fixl csum junk2.
Proof. exact bfd_serialize_junk_free. Qed.
Print Assumptions C07_bfd_junk_free.

Theorem C01_bfd_render_total : forall orig old data, bfd_render_panics (fst (fst (bfd_decode_gen orig old data))) = false.
Proof. reflexivity. Qed.

(* C06: field ranges, an authentication header exactly of a known type with the A bit (sequence number 0
   for the password type), packet below 256 octets, nothing under the layer: decoding the written bytes
   into any object gives the same layer back (Contents = the bytes), no error, no truncation. *)
Theorem C06_bfd_roundtrip : forall l fixl csum junk bytes l' old,
  bfd_wf l -> bfd_serialize l [] fixl csum junk = (Ok bytes, l') ->
  l' = l /\ bfd_decode_into old bytes =
    (mkBfd bytes [] (b_version l) (b_diag l) (b_state l) (b_poll l) (b_final l) (b_cpi l) (b_authp l) (b_demand l) (b_mpoint l)
           (b_mult l) (b_mydisc l) (b_yourdisc l) (b_mintx l) (b_minrx l) (b_minecho l) (b_auth l), Ok tt, false).
Proof. exact bfd_roundtrip. Qed.
Print Assumptions C06_bfd_roundtrip.

Example Lbfd_nonvacuous :
  let l := mkBfd [] [] 1 0 3 false false false true false false 3 1 2 1000000 1000000 0 (Some (mkBa 1 9 0 [112;119])) in
  bfd_wf l /\ exists bytes, fst (bfd_serialize l [] false false [7;7]) = Ok bytes /\ zlen bytes = 29 /\
    bfd_decode_into bfd_fresh bytes = (mkBfd bytes [] 1 0 3 false false false true false false 3 1 2 1000000 1000000 0 (Some (mkBa 1 9 0 [112;119])), Ok tt, false).
Proof.
  split; [unfold bfd_wf; cbn; repeat split; try lia; try (left; reflexivity); try reflexivity|].
  eexists. split; [vm_compute; reflexivity|]. split; vm_compute; reflexivity.
Qed.
