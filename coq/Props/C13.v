(* C13 — IP defragmentation returns the original datagram exactly once, or nothing.
   Property theorems only; each is closed by a lemma of Proofs/C13*.v.  The model
   (Model/C13Model.v, variant [fixedv]) is the code after the `fix:` commits; each repaired defect
   is refuted for its original arithmetic (one variant flag switched back), and the properties the
   code still violates are refuted for [fixedv] itself. *)
From GP Require Import Base C13Model C13Safety C13Complete C13Refute C13V6.
Open Scope Z_scope.

(* ------------------------------------------------------------------ completeness *)
(* Full strength (DESIGN.md section 5): every header with IHL 5..15, every payload with
   4*IHL + |payload| <= 65535, every partition into non-empty chunks of which all but the last are
   multiples of 8, every arrival sequence of fragment operations in which the operations with the
   datagram's key are fragments of it (any order, any duplicates, interleaved with arbitrary
   fragments of other keys): if n is the step at which the last missing fragment arrives, then every
   earlier call for this key returns nothing and call n returns the datagram with payload = original,
   Flags = 0, FragOffset = 0, Length = 4*IHL + |payload| and the fragments' header. *)
Definition C13_v4_complete_statement : Prop :=
  forall h chunks ops n,
  valid_partition h chunks ->
  let F := frags_of h 0 chunks in
  arrival_ok h F ops ->
  (forall f, In f F -> exists t, In (OFrag f t) (firstn (S n) ops)) ->
  (exists f, In f F /\ forall t, ~ In (OFrag f t) (firstn n ops)) ->
  (forall m f t, (m < n)%nat -> nth_error ops m = Some (OFrag f t) -> key_of f = hkey h ->
                 nth_error (snd (run4 fixedv [] ops)) m = Some (Res RNone)) /\
  nth_error (snd (run4 fixedv [] ops)) n = Some (Res (RDg (datagram h (concat chunks)))).

(* PARTIAL: proved for the partitions whose last fragment starts at or below byte 8*8183 = 65464
   (IPv4MaximumFragmentOffset).  What is missing is exactly the complement, which the code refuses
   (C13_v4_offset_limit_refuted); the limit is pinned by ip4defrag's own TestDefragFragmentOffset. *)
Theorem C13_v4_complete_partial : forall h chunks ops n,
  valid_partition h chunks -> offsets_within_limit chunks ->
  let F := frags_of h 0 chunks in
  arrival_ok h F ops ->
  (forall f, In f F -> exists t, In (OFrag f t) (firstn (S n) ops)) ->
  (exists f, In f F /\ forall t, ~ In (OFrag f t) (firstn n ops)) ->
  (forall m f t, (m < n)%nat -> nth_error ops m = Some (OFrag f t) -> key_of f = hkey h ->
                 nth_error (snd (run4 fixedv [] ops)) m = Some (Res RNone)) /\
  nth_error (snd (run4 fixedv [] ops)) n = Some (Res (RDg (datagram h (concat chunks)))).
Proof. exact v4_complete. Qed.
Print Assumptions C13_v4_complete_partial.

(* the step underlying it, from any state: S is the set of fragments of the datagram accepted so
   far; a duplicate changes nothing, the fragment completing the set returns the datagram and
   forgets the key, any other fragment is filed in offset order *)
Theorem C13_v4_key_step : forall h F L st S f t st' r,
  FProps h F L -> Sub S F -> KInv h st S -> In f F ->
  defrag4 fixedv st f t = (st', r) ->
  (In f S -> r = RNone /\ KInv h st' S) /\
  (~ In f S ->
     (sins f S = F -> r = RDg (datagram h (concat (map f_payload F))) /\ KInv h st' []) /\
     (sins f S <> F -> r = RNone /\ KInv h st' (sins f S))).
Proof. exact key_step. Qed.
Print Assumptions C13_v4_key_step.

(* unfragmented and DF packets are returned unchanged and leave the state alone *)
Theorem C13_v4_passthrough : forall v st f t, dont_defrag f = true -> defrag4 v st f t = (st, RPass).
Proof. exact v4_passthrough. Qed.
Print Assumptions C13_v4_passthrough.

(* non-vacuity: final fragment first, a fragment of another datagram in between, a duplicate *)
Example C13_v4_complete_nonvacuous :
  exists ops n,
    valid_partition h6 chunks3 /\ offsets_within_limit chunks3 /\
    arrival_ok h6 (frags_of h6 0 chunks3) ops /\
    (forall f, In f (frags_of h6 0 chunks3) -> exists t, In (OFrag f t) (firstn (S n) ops)) /\
    (exists f, In f (frags_of h6 0 chunks3) /\ forall t, ~ In (OFrag f t) (firstn n ops)) /\
    snd (run4 fixedv [] ops) =
      [Res RNone; Res RNone; Res RNone; Res RNone; Res (RDg (datagram h6 (concat chunks3)))].
Proof. exact complete_nonvacuous. Qed.

(* ------------------------------------------------------------------ safety *)
(* For ANY sequence of fragments and discards (fields within their Go types' ranges): a returned
   datagram has Flags = 0, FragOffset = 0, Length = 4*IHL + |payload| <= 65535, and at each payload
   offset x a byte that a fragment of the same key, handed over at or before that step and accepted
   (not passed through, not refused by the checks), carries for offset x. *)
Theorem C13_v4_safety : forall ops,
  Forall op_wf ops ->
  forall n d, nth_error (snd (run4 fixedv [] ops)) n = Some (Res (RDg d)) ->
  f_flags d = 0 /\ f_off d = 0 /\ f_len d = 4 * f_ihl d + plen d /\ f_len d <= 65535 /\
  forall (x : nat) b, nth_error (f_payload d) x = Some b ->
    exists g t, In (OFrag g t) (firstn (S n) ops) /\
                key_of g = key_of d /\ accepted g /\ placed g (Z.of_nat x) b.
Proof. exact v4_safety. Qed.
Print Assumptions C13_v4_safety.

(* the repaired code has no panicking path *)
Theorem C13_v4_no_panic : forall st f t, snd (defrag4 fixedv st f t) <> RPanic.
Proof. exact v4_no_panic. Qed.
Print Assumptions C13_v4_no_panic.

(* From ANY state and for ANY fragment, without hypotheses: a returned datagram carries the header of
   the fragment just handed over (the stored fragments may have other header lengths),
   Length = 4*IHL + |payload|, and this is at most 65535: a fragment set that would need a longer
   datagram gets an error or nothing, never a wrapped Length. *)
Theorem C13_v4_oversize_refused : forall st f t st' d,
  defrag4 fixedv st f t = (st', RDg d) ->
  key_of d = key_of f /\ f_ihl d = f_ihl f /\ f_hdr d = f_hdr f /\ f_flags d = 0 /\ f_off d = 0 /\
  f_len d = 4 * f_ihl f + plen d /\ 4 * f_ihl f + plen d <= 65535.
Proof. exact v4_oversize_refused. Qed.
Print Assumptions C13_v4_oversize_refused.

(* non-vacuity on both sides of the limit: first fragment with IHL 15 arriving last, the others IHL 5 *)
Example C13_v4_oversize_nonvacuous :
  Forall (fun o => match o with OFrag f _ => security_ok fixedv f = true | _ => True end) (mixed_ops 65515) /\
  snd (run4 fixedv [] (mixed_ops 65515)) = [Res RNone; Res RNone; Res RErr] /\
  match nth_error (snd (run4 fixedv [] (mixed_ops 65475))) 2 with
  | Some (Res (RDg d)) => f_ihl d = 15 /\ f_len d = 65535 /\ plen d = 65475
  | _ => False
  end.
Proof. exact mixed_ihl_oversize. Qed.

Example C13_v4_safety_nonvacuous :
  exists d, Forall op_wf hole_ops /\ Forall op_wf overlap_ok_ops /\
    nth_error (snd (run4 fixedv [] overlap_ok_ops)) 2 = Some (Res (RDg d)) /\ plen d = 24.
Proof. exact safety_nonvacuous. Qed.

(* ------------------------------------------------------------------ frame and discard *)
(* an operation on one key leaves every other key's fragment list untouched (any variant) *)
Theorem C13_v4_frame : forall v st f t st' r k,
  defrag4 v st f t = (st', r) -> k <> key_of f -> lookup k st' = lookup k st.
Proof. exact defrag4_frame. Qed.
Print Assumptions C13_v4_frame.

(* DiscardOlderThan t forgets exactly the keys whose last accepted fragment is older than t,
   keeps the others unchanged, and returns the number forgotten *)
Theorem C13_v4_discard : forall st t k,
  keys_unique st ->
  lookup k (fst (discard4 st t)) =
    match lookup k st with
    | Some fl => if fl_seen fl <? t then None else Some fl
    | None => None
    end /\
  snd (discard4 st t) = Z.of_nat (length st) - Z.of_nat (length (fst (discard4 st t))) /\
  keys_unique (fst (discard4 st t)).
Proof. exact discard_spec. Qed.
Print Assumptions C13_v4_discard.

(* the hypothesis of C13_v4_discard holds in every reachable state *)
Theorem C13_v4_keys_unique : forall v ops, keys_unique (fst (run4 v [] ops)).
Proof. exact run4_keys_unique. Qed.
Print Assumptions C13_v4_keys_unique.

Example C13_v4_discard_nonvacuous :
  exists st, fst (run4 fixedv [] [OFrag (mkfrag h5 0 true (bytes_from 0 16)) 5]) = st /\
    snd (discard4 st 6) = 1 /\ snd (discard4 st 5) = 0 /\ lookup (hkey h5) (fst (discard4 st 6)) = None.
Proof. eexists. vm_compute. repeat split; reflexivity. Qed.

(* ------------------------------------------------------------------ refutations: original arithmetic *)
(* fragLength := in.Length - 20: a datagram with IP options never completes *)
Theorem C13_v4_options_refuted :
  exists h chunks, valid_partition h chunks /\ offsets_within_limit chunks /\
    snd (run4 no_ihl [] (in_order (frags_of h 0 chunks))) = [Res RNone; Res RNone; Res RNone].
Proof. exact options_refuted. Qed.

(* Length: f.Highest *)
Theorem C13_v4_length_refuted :
  exists h chunks d, valid_partition h chunks /\ offsets_within_limit chunks /\
    nth_error (snd (run4 no_len [] (in_order (frags_of h 0 chunks)))) 2 = Some (Res (RDg d)) /\
    f_len d <> 4 * f_ihl d + plen d.
Proof. exact length_refuted. Qed.

(* currentOffset + frag.FragOffset*8: a datagram across a hole (safety fails) *)
Theorem C13_v4_safety_overlap_refuted :
  exists ops n d x b, Forall op_wf ops /\
    nth_error (snd (run4 no_ovl [] ops)) n = Some (Res (RDg d)) /\
    nth_error (f_payload d) x = Some b /\
    forall g t, In (OFrag g t) ops -> ~ placed g (Z.of_nat x) b.
Proof. exact overlap_refuted. Qed.

(* uint16 arithmetic in securityChecks *)
Theorem C13_v4_security_wrap_refuted :
  (exists f, wf_frag f /\ 65535 < 8 * f_off f + f_len f /\ security_ok no_sec f = true) /\
  (exists f, wf_frag f /\ f_len f < 4 * f_ihl f /\ security_ok no_sec f = true).
Proof. exact security_refuted. Qed.

(* payload shorter than Length: panic, and misplaced bytes *)
Theorem C13_v4_truncated_refuted :
  (exists ops, Forall op_wf ops /\ In (Res RPanic) (snd (run4 no_trunc [] ops))) /\
  (exists ops n d x b, Forall op_wf ops /\
    nth_error (snd (run4 no_trunc [] ops)) n = Some (Res (RDg d)) /\
    nth_error (f_payload d) x = Some b /\
    forall g t, In (OFrag g t) ops -> ~ placed g (Z.of_nat x) b).
Proof. exact truncated_refuted. Qed.

(* ------------------------------------------------------------------ refutation: the code as it is *)
(* known finding: a valid datagram whose last fragment has FragOffset 8184 is refused *)
Theorem C13_v4_offset_limit_refuted :
  exists h chunks, valid_partition h chunks /\
    snd (run4 fixedv [] (in_order (frags_of h 0 chunks))) = [Res RNone; Res RErr].
Proof. exact offset_limit_refuted. Qed.
Print Assumptions C13_v4_offset_limit_refuted.

(* ------------------------------------------------------------------ IPv6 *)
(* fragments of one datagram (chunks as above, at least two), any arrival order with duplicates,
   interleaved with fragments carrying other identifications: nothing until the last missing
   fragment arrives, then the payload, with the first fragment's header and the last one's NextHeader *)
Theorem C13_v6_complete : forall hd chunks ops n,
  valid6 chunks ->
  let F := frags6_of hd 0 chunks in
  arrival6_ok hd F ops ->
  (forall f, In f F -> In (O6Frag f) (firstn (S n) ops)) ->
  (exists f, In f F /\ ~ In (O6Frag f) (firstn n ops)) ->
  (forall m f, (m < n)%nat -> nth_error ops m = Some (O6Frag f) -> g_id f = g_id hd ->
               nth_error (run6 fixedv [] ops) m = Some (Res6 R6None)) /\
  exists first, nth_error (run6 fixedv [] ops) n = Some (Res6 (R6Dg (g_nh hd) first (concat chunks))) /\
                g_src first = g_src hd /\ g_dst first = g_dst hd /\ g_hdr first = g_hdr hd.
Proof. exact v6_complete. Qed.
Print Assumptions C13_v6_complete.

Example C13_v6_complete_nonvacuous :
  exists ops n, valid6 chunks3 /\ arrival6_ok hd6 (frags6_of hd6 0 chunks3) ops /\
    (forall f, In f (frags6_of hd6 0 chunks3) -> In (O6Frag f) (firstn (S n) ops)) /\
    (exists f, In f (frags6_of hd6 0 chunks3) /\ ~ In (O6Frag f) (firstn n ops)).
Proof. exact v6_nonvacuous. Qed.

(* a non-final fragment whose length is no multiple of 8 (original arithmetic): misplaced bytes *)
Theorem C13_v6_mod8_refuted :
  run6 no_six [] [O6Frag (mk6 1 9 0 true (bytes_from 0 12)); O6Frag (mk6 1 9 1 false (bytes_from 100 5))] =
  [Res6 R6None; Res6 (R6Dg 17 (mk6 1 9 0 true (bytes_from 0 12)) (bytes_from 0 12 ++ bytes_from 100 5))] /\
  run6 fixedv [] [O6Frag (mk6 1 9 0 true (bytes_from 0 12)); O6Frag (mk6 1 9 1 false (bytes_from 100 5))] =
  [Res6 R6None; Res6 R6None].
Proof. exact v6_mod8_refuted. Qed.

(* known findings (code as it is): keyed by Identification only; completed datagrams are kept *)
Theorem C13_v6_flow_mix_refuted :
  exists f1 f2 nh hd, g_src f1 <> g_src f2 /\ g_id f1 = g_id f2 /\
    run6 fixedv [] [O6Frag f1; O6Frag f2] = [Res6 R6None; Res6 (R6Dg nh hd (g_payload f2 ++ g_payload f1))].
Proof. exact v6_flow_mix_refuted. Qed.
Theorem C13_v6_redelivery_refuted :
  exists f1 f2 nh hd pl,
    run6 fixedv [] [O6Frag f1; O6Frag f2; O6Frag f1] = [Res6 R6None; Res6 (R6Dg nh hd pl); Res6 (R6Dg nh hd pl)].
Proof. exact v6_redelivery_refuted. Qed.
Print Assumptions C13_v6_redelivery_refuted.
