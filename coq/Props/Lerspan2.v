(* Lerspan2 — ERSPAN type II header codec (layers/erspan2.go): contributions to C19, C05, C06, C07, C01.  *)
From GP Require Import Base ListX Codec MiscLib Lerspan2Model.
From Coq Require Import Lia ZifyBool ZifyNat.
Open Scope Z_scope.
Ltac Zify.zify_post_hook ::= Z.div_mod_to_equations.

Ltac xstep :=
  match goal with
  | |- context [ml_bind ?o _ _ _] => destruct o eqn:?; cbn [ml_bind]
  | |- context [if ?c then _ else _] => destruct c eqn:?
  end.

Theorem C19_erspan2_no_panic : forall old data, is_panic (snd (fst (er_decode_into old data))) = false.
Proof.
  intros old data. unfold er_decode_into. cbv zeta. destruct (zlen data <? 8) eqn:Hn; [reflexivity|].
  rewrite ?cd_idx_ok by lia. rewrite ?cd_rd16_ok by lia. rewrite ?ml_rd32_ok by lia. rewrite ?cd_slc_ok by lia. reflexivity.
Qed.
Print Assumptions C19_erspan2_no_panic.

Theorem C05_erspan2_fresh : forall old data,
  let r1 := er_decode_into old data in
  let r2 := er_decode_into er_fresh data in
  snd (fst r1) = snd (fst r2) /\ snd r1 = snd r2 /\
  (snd (fst r1) = Ok tt -> fst (fst r1) = fst (fst r2)).
Proof.
  intros old data. cbv zeta. unfold er_decode_into. cbv zeta.
  repeat (xstep; try solve [cbn [fst snd]; split; [reflexivity | split; [reflexivity | try (intros X; discriminate X); try reflexivity]]]).
  all: try (cbn [fst snd]; split; [reflexivity | split; [reflexivity | intros _; reflexivity]]).
Qed.
Print Assumptions C05_erspan2_fresh.

Theorem C01_erspan2_render_total : forall old data, er_render_panics (fst (fst (er_decode_into old data))) = false.
Proof. reflexivity. Qed.

Lemma er_serialize_spec l payload fixl csum junk : er_serialize l payload fixl csum junk = (Ok (er_hdr l ++ payload), l).
Proof.
  unfold er_serialize. pose proof (ml_tile_init 8 junk ltac:(lia)) as T.
  destruct (ml_tile_wrc _ _ (er_hdr l) _ 0 T eq_refl ltac:(change (zlen (er_hdr l)) with 8; change (zlen []) with 0; lia)) as [b [E T']].
  rewrite E. apply ml_tile_done in T'; [|reflexivity]. subst b. reflexivity.
Qed.

Theorem C07_erspan2_no_panic : forall l payload fixl csum junk, is_panic (fst (er_serialize l payload fixl csum junk)) = false.
Proof. intros. rewrite er_serialize_spec. reflexivity. Qed.
Print Assumptions C07_erspan2_no_panic.

Theorem C07_erspan2_junk_free : forall l payload fixl csum junk1 junk2,
  er_serialize l payload fixl csum junk1 = er_serialize l payload fixl csum junk2.
Proof. intros. rewrite !er_serialize_spec. reflexivity. Qed.
Print Assumptions C07_erspan2_junk_free.

Definition er_wf (l : erspan) : Prop :=
  0 <= er_version l < 16 /\ 0 <= er_cos l < 8 /\ 0 <= er_encap l < 4 /\ 0 <= er_vlan l < 4096 /\ 0 <= er_session l < 1024 /\
  0 <= er_reserved l < 4096 /\ 0 <= er_index l < 1048576.

Theorem C06_erspan2_roundtrip : forall l payload fixl csum junk bytes l' old,
  er_wf l -> er_serialize l payload fixl csum junk = (Ok bytes, l') ->
  l' = l /\ bytes = er_hdr l ++ payload /\
  er_decode_into old bytes = (mkEr (er_hdr l) payload (er_trunc l) (er_version l) (er_cos l) (er_encap l) (er_vlan l) (er_session l)
                                   (er_reserved l) (er_index l), Ok tt, false).
Proof.
  intros l payload fixl csum junk bytes l' old [H1 [H2 [H3 [H4 [H5 [H6 H7]]]]]]. rewrite er_serialize_spec. intros X.
  assert (E1 : bytes = er_hdr l ++ payload) by congruence. assert (E2 : l' = l) by congruence. clear X.
  split; [exact E2|]. split; [exact E1|]. subst bytes l'. pose proof (zlen_nonneg payload) as Np.
  remember (er_hdr l ++ payload) as data eqn:Hd.
  assert (Hn : zlen data = 8 + zlen payload) by (subst data; rewrite zlen_app; reflexivity).
  assert (HnthZ : forall k, 0 <= k < 8 -> nth (Z.to_nat k) data 0 = nth (Z.to_nat k) (er_hdr l) 0).
  { intros k Hk. subst data. apply app_nth1. change (length (er_hdr l)) with 8%nat. lia. }
  unfold er_decode_into. cbv zeta. destruct (zlen data <? 8) eqn:C; [lia|].
  rewrite !cd_idx_ok by lia. rewrite !cd_rd16_ok by lia. rewrite ml_rd32_ok by lia. rewrite !cd_slc_ok by lia. cbn [ml_bind].
  assert (S1 : slice data (Z.to_nat 0) (Z.to_nat 8) = er_hdr l) by (subst data; apply slice_from_start; reflexivity).
  assert (S2 : slice data (Z.to_nat 8) (Z.to_nat (zlen data)) = payload).
  { rewrite Hn. subst data. apply slice_to_end; [reflexivity|]. change (length (er_hdr l)) with 8%nat. unfold zlen. lia. }
  rewrite S1, S2. rewrite !HnthZ by lia.
  repeat match goal with |- context [Z.to_nat ?k] => let v := eval vm_compute in (Z.to_nat k) in change (Z.to_nat k) with v end.
  set (w0 := er_version l mod 16 * 4096 + er_vlan l mod 4096).
  set (w1 := er_cos l mod 8 * 8192 + er_encap l mod 4 * 2048 + (if er_trunc l then 1024 else 0) + er_session l mod 1024).
  set (d := er_reserved l mod 4096 * 1048576 + er_index l mod 1048576).
  assert (R0 : 0 <= w0 < 65536) by (unfold w0; lia). assert (R1 : 0 <= w1 < 65536) by (unfold w1; destruct (er_trunc l); lia).
  assert (R2 : 0 <= d < 4294967296) by (unfold d; lia).
  unfold er_hdr. fold w0 w1 d. cbn [nth app cd_put16 ml_put32].
  rewrite (cd_put16_be w0 R0), (ml_put32_be d R2).
  assert (E16 : (d / 16777216) mod 256 * 256 + (d / 65536) mod 256 = d / 65536) by lia. rewrite E16.
  assert (T : (((w1 / 256) mod 256 / 4) mod 2 =? 1) = er_trunc l) by (unfold w1; destruct (er_trunc l); lia).
  rewrite T. rewrite (cd_put16_be w1 R1).
  f_equal. f_equal. f_equal; try (unfold w0, w1, d; destruct (er_trunc l); lia).
Qed.
Print Assumptions C06_erspan2_roundtrip.

Example Lerspan2_nonvacuous :
  let l := mkEr [] [] true 1 5 2 100 7 0 66000 in
  er_wf l /\ fst (er_serialize l [9] false false []) = Ok [16;100;180;7;0;1;1;208;9].
Proof. split; [unfold er_wf; cbn; lia|vm_compute; reflexivity]. Qed.
