(* Lcdp — CiscoDiscovery layer (header + raw TLV list) of layers/cdp.go: contributions to C19, C01.  Decoder function only
   (C05 n/a), no SerializeTo (C06/C07 n/a).  The CiscoDiscoveryInfo layer is not modelled. *)
From GP Require Import Base ListX Codec MiscLib LcdpModel.
From Coq Require Import Lia ZifyBool ZifyNat.
Open Scope Z_scope.

Lemma cdp_loop_ok data : bytes_ok data -> forall fuel off, 0 <= off -> is_panic (fst (cdp_loop data off fuel)) = false.
Proof.
  intros Hb. induction fuel as [|f IH]; intros off H0; [reflexivity|].
  cbn [cdp_loop]. cbv zeta. destruct (zlen data <=? off) eqn:C0; [reflexivity|]. destruct (zlen data - off <? 4) eqn:C1; [reflexivity|].
  rewrite !cd_rd16_ok by lia.
  pose proof (bytes_ok_nth data (Z.to_nat (off + 2)) Hb). pose proof (bytes_ok_nth data (Z.to_nat (off + 2 + 1)) Hb).
  set (ln := nth (Z.to_nat (off + 2)) data 0 * 256 + nth (Z.to_nat (off + 2 + 1)) data 0) in *.
  destruct (ln <? 4) eqn:C2; [reflexivity|]. destruct (zlen data - off <? ln) eqn:C3; [reflexivity|].
  rewrite cd_slc_ok by lia. specialize (IH (off + ln) ltac:(lia)).
  destruct (cdp_loop data (off + ln) f) as [[vs|c|s] tr]; cbn [fst] in *; [reflexivity|reflexivity|exact IH].
Qed.

Theorem C19_cdp_no_panic : forall data, bytes_ok data -> is_panic (snd (fst (cdp_decode data))) = false.
Proof.
  intros data Hb. unfold cdp_decode. cbv zeta. destruct (zlen data <? 4) eqn:Hn; [reflexivity|].
  rewrite !cd_idx_ok by lia. rewrite cd_rd16_ok by lia. cbn [ml_bind].
  match goal with |- context [if negb ?c then _ else _] => destruct c; cbn [negb]; [|reflexivity] end.
  pose proof (cdp_loop_ok data Hb (Z.to_nat (zlen data + 1)) 4 ltac:(lia)) as P.
  destruct (cdp_loop data 4 (Z.to_nat (zlen data + 1))) as [[vs|c|s] tr]; cbn [fst] in P; [|reflexivity|discriminate P].
  rewrite !cd_slc_ok by lia. reflexivity.
Qed.
Print Assumptions C19_cdp_no_panic.

Theorem C01_cdp_render_total : forall data, cdp_render_panics (fst (fst (cdp_decode data))) = false.
Proof. reflexivity. Qed.

Example Lcdp_nonvacuous :
  cdp_decode [2;180;1;2; 0;1;0;6;65;66; 0;5;0;4] = (mkCdp [2;180;1;2] [0;1;0;6;65;66; 0;5;0;4] 2 180 258 [mkCv 1 6 [65;66]; mkCv 5 4 []], Ok tt, false) /\
  snd (fst (cdp_decode [2;180;1;2; 0;1;0;3;65])) = Err 4 /\ cdp_decode [2;180;1;2; 0;1;0;9;65] = (cdp_fresh, Err 5, true) /\ snd (fst (cdp_decode [3;180;1;2])) = Err 2.
Proof. repeat split; vm_compute; reflexivity. Qed.
