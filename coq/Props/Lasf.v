(* Lasf — ASF data header codec (layers/asf.go): contributions to C19, C05, C06, C07, C01. *)
From GP Require Import Base ListX Codec MiscLib LasfModel.
From Coq Require Import Lia ZifyBool ZifyNat.
Open Scope Z_scope.
Ltac Zify.zify_post_hook ::= Z.div_mod_to_equations.

Ltac xstep :=
  match goal with
  | |- context [ml_bind ?o _ _ _] => destruct o eqn:?; cbn [ml_bind]
  | |- context [if ?c then _ else _] => destruct c eqn:?
  end.

Theorem C19_asf_no_panic : forall old data, is_panic (snd (fst (as_decode_into old data))) = false.
Proof.
  intros old data. unfold as_decode_into. cbv zeta. destruct (zlen data <? 8) eqn:Hn; [reflexivity|].
  rewrite ?cd_idx_ok by lia. rewrite ?ml_rd32_ok by lia. rewrite ?cd_slc_ok by lia. reflexivity.
Qed.
Print Assumptions C19_asf_no_panic.

Theorem C05_asf_fresh : forall old data,
  let r1 := as_decode_into old data in
  let r2 := as_decode_into as_fresh data in
  snd (fst r1) = snd (fst r2) /\ snd r1 = snd r2 /\
  (snd (fst r1) = Ok tt -> fst (fst r1) = fst (fst r2)).
Proof.
  intros old data. cbv zeta. unfold as_decode_into. cbv zeta.
  repeat (xstep; try solve [cbn [fst snd]; split; [reflexivity | split; [reflexivity | try (intros X; discriminate X); try reflexivity]]]).
  all: try (cbn [fst snd]; split; [reflexivity | split; [reflexivity | intros _; reflexivity]]).
Qed.
Print Assumptions C05_asf_fresh.

Theorem C01_asf_render_total : forall old data, as_render_panics (fst (fst (as_decode_into old data))) = false.
Proof. reflexivity. Qed.

Definition as_fix (l : asf) (payload : list Z) (fixl : bool) : asf := if fixl then as_set_len l (zlen payload mod 256) else l.

Lemma as_serialize_spec l payload fixl csum junk :
  as_serialize l payload fixl csum junk = (Ok (as_hdr (as_fix l payload fixl) ++ payload), as_fix l payload fixl).
Proof.
  unfold as_serialize. fold (as_fix l payload fixl). cbv zeta. set (l' := as_fix l payload fixl).
  pose proof (ml_tile_init 8 junk ltac:(lia)) as T.
  destruct (ml_tile_wrc _ _ (as_hdr l') _ 0 T eq_refl ltac:(change (zlen (as_hdr l')) with 8; change (zlen []) with 0; lia)) as [b [E T']].
  rewrite E. apply ml_tile_done in T'; [|reflexivity]. subst b. reflexivity.
Qed.

Theorem C07_asf_no_panic : forall l payload fixl csum junk, is_panic (fst (as_serialize l payload fixl csum junk)) = false.
Proof. intros. rewrite as_serialize_spec. reflexivity. Qed.
Print Assumptions C07_asf_no_panic.

Theorem C07_asf_junk_free : forall l payload fixl csum junk1 junk2,
  as_serialize l payload fixl csum junk1 = as_serialize l payload fixl csum junk2.
Proof. intros. rewrite !as_serialize_spec. reflexivity. Qed.
Print Assumptions C07_asf_junk_free.

Definition as_wf (l : asf) : Prop := 0 <= as_ent l < 4294967296 /\ 0 <= as_type l < 256 /\ 0 <= as_tag l < 256 /\ 0 <= as_len l < 256.

(* serialize then decode gives the fields back (the length as fixed when FixLengths is set) *)
Theorem C06_asf_roundtrip : forall l payload fixl csum junk bytes l' old,
  as_wf l -> as_serialize l payload fixl csum junk = (Ok bytes, l') ->
  l' = as_fix l payload fixl /\ bytes = as_hdr l' ++ payload /\
  as_decode_into old bytes = (mkAsf (as_hdr l') payload (as_ent l') (as_type l') (as_tag l') (as_len l'), Ok tt, false).
Proof.
  intros l payload fixl csum junk bytes l' old W. rewrite as_serialize_spec. intros X.
  assert (E2 : l' = as_fix l payload fixl) by congruence. assert (E1 : bytes = as_hdr l' ++ payload) by congruence. clear X.
  split; [exact E2|]. split; [exact E1|].
  assert (W' : as_wf l').
  { subst l'. unfold as_fix. destruct fixl; [|exact W]. destruct W as [A [B [C D]]]. unfold as_wf, as_set_len; cbn. pose proof (zlen_nonneg payload). lia. }
  clear E2 W. destruct W' as [H1 [H2 [H3 H4]]]. subst bytes. pose proof (zlen_nonneg payload) as Np.
  remember (as_hdr l' ++ payload) as data eqn:Hd.
  assert (Hn : zlen data = 8 + zlen payload) by (subst data; rewrite zlen_app; reflexivity).
  assert (HnthZ : forall k, 0 <= k < 8 -> nth (Z.to_nat k) data 0 = nth (Z.to_nat k) (as_hdr l') 0).
  { intros k Hk. subst data. apply app_nth1. change (length (as_hdr l')) with 8%nat. lia. }
  unfold as_decode_into. cbv zeta. destruct (zlen data <? 8) eqn:C; [lia|].
  rewrite !cd_idx_ok by lia. rewrite ml_rd32_ok by lia. rewrite !cd_slc_ok by lia. cbn [ml_bind].
  assert (S1 : slice data (Z.to_nat 0) (Z.to_nat 8) = as_hdr l') by (subst data; apply slice_from_start; reflexivity).
  assert (S2 : slice data (Z.to_nat 8) (Z.to_nat (zlen data)) = payload).
  { rewrite Hn. subst data. apply slice_to_end; [reflexivity|]. change (length (as_hdr l')) with 8%nat. unfold zlen. lia. }
  rewrite S1, S2. rewrite !HnthZ by lia.
  repeat match goal with |- context [Z.to_nat ?k] => let v := eval vm_compute in (Z.to_nat k) in change (Z.to_nat k) with v end.
  unfold as_hdr. cbn [nth app ml_put32].
  rewrite (ml_put32_be (as_ent l') H1).
  f_equal. f_equal. f_equal; lia.
Qed.
Print Assumptions C06_asf_roundtrip.

Example Lasf_nonvacuous :
  let l := mkAsf [] [] 4542 64 7 99 in
  as_wf l /\ fst (as_serialize l [9;9] true false []) = Ok [0;0;17;190;64;7;0;2;9;9] /\ as_next l = 1 /\
  as_len (snd (as_serialize l (repeat 1 300) true false [])) = 44.
Proof. split; [unfold as_wf; cbn; lia|]. repeat split; vm_compute; reflexivity. Qed.
