(* Lpktap — Apple PKTAP v1 header decoder (layers/pktap.go): contributions to C19, C05, C01.  No SerializeTo (C06/C07 n/a).
   The code before the repair panics on a header length beyond the data (C19_pktap_orig_refuted). *)
From GP Require Import Base ListX Codec MiscLib MiscLE LpktapModel.
From Coq Require Import Lia ZifyBool ZifyNat.
Open Scope Z_scope.
Ltac Zify.zify_post_hook ::= Z.div_mod_to_equations.

Ltac xstep :=
  match goal with
  | |- context [ml_bind ?o _ _ _] => destruct o eqn:?; cbn [ml_bind]
  | |- context [if ?c then _ else _] => destruct c eqn:?
  end.

Theorem C19_pktap_no_panic : forall old data, bytes_ok data -> is_panic (snd (fst (pk_decode_into old data))) = false.
Proof.
  intros old data Hb. unfold pk_decode_into, pk_decode_gen. cbv zeta. destruct (zlen data <? 156) eqn:Hn; [reflexivity|].
  rewrite !ml_rd32le_ok by lia. rewrite !ml_rd16le_ok by lia. rewrite !(cd_slc_ok data 12) by lia.
  rewrite !(cd_slc_ok data 56) by lia. rewrite !(cd_slc_ok data 88) by lia. cbn [ml_bind negb andb].
  match goal with |- context [pk_set_hl old ?x] => set (hl := x) end.
  destruct (hl <? 156) eqn:C1; [reflexivity|]. destruct (zlen data <? hl) eqn:C2; [reflexivity|].
  match goal with |- context [if ?c then _ else _] => destruct c; [reflexivity|] end.
  rewrite !cd_slc_ok by lia. reflexivity.
Qed.
Print Assumptions C19_pktap_no_panic.

(* before the repair: a 156-octet header announcing 157 octets *)
Theorem C19_pktap_orig_refuted : exists data, bytes_ok data /\ is_panic (snd (fst (pk_decode_gen true pk_fresh data))) = true.
Proof. exists ([157;0;0;0; 1;0;0;0] ++ repeat 0 148). split; [repeat constructor; unfold byte_ok; lia | vm_compute; reflexivity]. Qed.

Theorem C05_pktap_fresh : forall old data,
  let r1 := pk_decode_into old data in
  let r2 := pk_decode_into pk_fresh data in
  snd (fst r1) = snd (fst r2) /\ snd r1 = snd r2 /\
  (snd (fst r1) = Ok tt -> fst (fst r1) = fst (fst r2)).
Proof.
  intros old data. cbv zeta. unfold pk_decode_into, pk_decode_gen. cbv zeta.
  repeat (xstep; try solve [cbn [fst snd]; split; [reflexivity | split; [reflexivity | try (intros X; discriminate X); try reflexivity]]]).
  all: try (cbn [fst snd]; split; [reflexivity | split; [reflexivity | intros _; reflexivity]]).
Qed.
Print Assumptions C05_pktap_fresh.

Theorem C01_pktap_render_total : forall old data, pk_render_panics (fst (fst (pk_decode_into old data))) = false.
Proof. reflexivity. Qed.

Example Lpktap_nonvacuous :
  let d := [156;0;0;0; 1;0;0;0; 1;0;1;0] ++ [101;110;48] ++ repeat 0 21 ++ repeat 0 20 ++ [99;0;120] ++ repeat 0 17 ++ repeat 0 80 ++ [69;70] in
  let l := fst (fst (pk_decode_into pk_fresh d)) in
  snd (fst (pk_decode_into pk_fresh d)) = Ok tt /\ pk_ifname l = [101;110;48] /\ pk_cmd l = [99] /\ pk_payload l = [69;70] /\ pk_next l = 1 /\ pk_dlt l = 65537 /\
  pk_decode_into pk_fresh ([157;0;0;0; 1;0;0;0] ++ repeat 0 148) = (pk_set_hl pk_fresh 157, Err 4, true).
Proof. repeat split; vm_compute; reflexivity. Qed.
