(* Lstp — spanning tree BPDU codec (layers/stp.go): contributions to C19, C05, C06, C07, C01. *)
From GP Require Import Base ListX Codec CodecBits MiscLib LstpModel.
From Coq Require Import Lia ZifyBool ZifyNat.
Open Scope Z_scope.
Ltac Zify.zify_post_hook ::= Z.div_mod_to_equations.

Theorem C19_stp_no_panic : forall old data, is_panic (snd (fst (stp_decode_into old data))) = false.
Proof.
  intros old data. unfold stp_decode_into. cbv zeta. destruct (zlen data <? 35) eqn:Hn; [reflexivity|].
  rewrite !cd_rd16_ok by lia. rewrite !cd_idx_ok by lia. rewrite !cd_slc_ok by lia. rewrite ml_rd32_ok by lia. reflexivity.
Qed.
Print Assumptions C19_stp_no_panic.

Ltac xstep :=
  match goal with
  | |- context [ml_bind ?o _ _ _] => destruct o eqn:?; cbn [ml_bind]
  | |- context [if ?c then _ else _] => destruct c eqn:?
  end.
Theorem C05_stp_fresh : forall old data,
  let r1 := stp_decode_into old data in
  let r2 := stp_decode_into stp_fresh data in
  snd (fst r1) = snd (fst r2) /\ snd r1 = snd r2 /\
  (snd (fst r1) = Ok tt -> fst (fst r1) = fst (fst r2)).
Proof.
  intros old data. cbv zeta. unfold stp_decode_into. cbv zeta.
  repeat (xstep; try solve [cbn [fst snd]; split; [reflexivity | split; [reflexivity | try (intros X; discriminate X); try reflexivity]]]).
  all: try (cbn [fst snd]; split; [reflexivity | split; [reflexivity | intros _; reflexivity]]).
Qed.
Print Assumptions C05_stp_fresh.

Definition stp_rej (l : stp) : option Z :=
  if negb (t_rprio l mod 4096 =? 0) then Some 1 else if negb (t_bprio l mod 4096 =? 0) then Some 2
  else if (4096 <=? t_rsys l) || (4096 <=? t_bsys l) then Some 3 else None.

Lemma stp_mac6_len hw : zlen (stp_mac6 hw) = 6.
Proof. unfold stp_mac6, zlen. rewrite firstn_length, app_length, repeat_length. lia. Qed.

Lemma stp_hdr_len l : zlen (stp_hdr l) = 35.
Proof. unfold stp_hdr. rewrite !zlen_app, !zlen_put16, zlen_put32, !stp_mac6_len. reflexivity. Qed.

Lemma stp_serialize_spec l payload fixl csum junk :
  stp_serialize l payload fixl csum junk = match stp_rej l with Some e => (Err e, l) | None => (Ok (stp_hdr l ++ payload), l) end.
Proof.
  unfold stp_serialize, stp_rej. destruct (negb (t_rprio l mod 4096 =? 0)); [reflexivity|]. destruct (negb (t_bprio l mod 4096 =? 0)); [reflexivity|].
  destruct ((4096 <=? t_rsys l) || (4096 <=? t_bsys l)); [reflexivity|].
  pose proof (ml_tile_init 35 junk ltac:(lia)) as T.
  destruct (ml_tile_wrc _ _ (stp_hdr l) _ 0 T eq_refl ltac:(rewrite stp_hdr_len; change (zlen []) with 0; lia)) as [b [E T']].
  rewrite E. apply ml_tile_done in T'; [|cbn [app]; apply stp_hdr_len]. subst b. reflexivity.
Qed.

Theorem C07_stp_no_panic : forall l payload fixl csum junk, is_panic (fst (stp_serialize l payload fixl csum junk)) = false.
Proof. intros. rewrite stp_serialize_spec. destruct (stp_rej l); reflexivity. Qed.
Print Assumptions C07_stp_no_panic.

Theorem C07_stp_junk_free : forall l payload fixl csum junk1 junk2,
  stp_serialize l payload fixl csum junk1 = stp_serialize l payload fixl csum junk2.
Proof. intros. rewrite !stp_serialize_spec. reflexivity. Qed.
Print Assumptions C07_stp_junk_free.

(* C06 hypothesis: priorities are multiples of 4096 below 65536, system ids below 4096, six address octets, other fields in range *)
Definition stp_wf (l : stp) : Prop :=
  0 <= t_pid l < 65536 /\ 0 <= t_version l < 256 /\ 0 <= t_type l < 256 /\
  0 <= t_rprio l < 65536 /\ t_rprio l mod 4096 = 0 /\ 0 <= t_rsys l < 4096 /\ zlen (t_rhw l) = 6 /\
  0 <= t_bprio l < 65536 /\ t_bprio l mod 4096 = 0 /\ 0 <= t_bsys l < 4096 /\ zlen (t_bhw l) = 6 /\
  0 <= t_cost l < 4294967296 /\ 0 <= t_port l < 65536 /\ 0 <= t_msgage l < 65536 /\ 0 <= t_maxage l < 65536 /\
  0 <= t_hello l < 65536 /\ 0 <= t_fdelay l < 65536.

Lemma stp_mac6_id hw : zlen hw = 6 -> stp_mac6 hw = hw.
Proof. intros H. unfold stp_mac6. rewrite firstn_app. replace (6 - length hw)%nat with 0%nat by (unfold zlen in H; lia). simpl (firstn 0 _). rewrite app_nil_r. apply firstn_all2. unfold zlen in H. lia. Qed.

Lemma lor_prio p s : 0 <= p < 65536 -> p mod 4096 = 0 -> 0 <= s < 4096 -> Z.lor p s = p + s /\ (p + s) / 4096 * 4096 = p /\ (p + s) mod 4096 = s.
Proof.
  intros Hp Hm Hs. replace p with ((p / 4096) * 2 ^ 12) at 1 by (change (2 ^ 12) with 4096; lia).
  rewrite cd_lor_disjoint by (change (2 ^ 12) with 4096; lia). change (2 ^ 12) with 4096. lia.
Qed.

Theorem C06_stp_roundtrip : forall l payload fixl csum junk bytes l' old,
  stp_wf l -> stp_serialize l payload fixl csum junk = (Ok bytes, l') ->
  l' = l /\ bytes = stp_hdr l ++ payload /\
  stp_decode_into old bytes =
    (mkStp (stp_hdr l) payload (t_pid l) (t_version l) (t_type l) (t_tc l) (t_tca l) (t_rprio l) (t_rsys l) (t_rhw l) (t_bprio l) (t_bsys l) (t_bhw l)
           (t_cost l) (t_port l) (t_msgage l) (t_maxage l) (t_hello l) (t_fdelay l), Ok tt, false).
Proof.
  intros l payload fixl csum junk bytes l' old [H1 [H2 [H3 [H4 [H5 [H6 [H7 [H8 [H9 [H10 [H11 [H12 [H13 [H14 [H15 [H16 H17]]]]]]]]]]]]]]]].
  rewrite stp_serialize_spec. unfold stp_rej.
  replace (t_rprio l mod 4096 =? 0) with true by lia. replace (t_bprio l mod 4096 =? 0) with true by lia. cbn [negb].
  replace ((4096 <=? t_rsys l) || (4096 <=? t_bsys l)) with false by lia. intros X.
  assert (E1 : bytes = stp_hdr l ++ payload) by congruence. assert (E2 : l' = l) by congruence. clear X.
  split; [exact E2|]. split; [exact E1|]. subst bytes l'. pose proof (zlen_nonneg payload) as Np.
  destruct (lor_prio _ _ H4 H5 H6) as [Lr [Lr1 Lr2]]. destruct (lor_prio _ _ H8 H9 H10) as [Lb [Lb1 Lb2]].
  set (r := t_rprio l + t_rsys l) in *. set (b := t_bprio l + t_bsys l) in *.
  assert (Rr : 0 <= r < 65536) by (unfold r; lia). assert (Rb : 0 <= b < 65536) by (unfold b; lia).
  set (fl := (if t_tc l then 1 else 0) + (if t_tca l then 128 else 0)).
  assert (Fl : (fl mod 2 =? 1) = t_tc l /\ ((fl / 128) mod 2 =? 1) = t_tca l) by (unfold fl; destruct (t_tc l), (t_tca l); split; reflexivity).
  destruct Fl as [F1 F2].
  (* the header in pieces *)
  set (A := cd_put16 (t_pid l) ++ [t_version l; t_type l; fl] ++ cd_put16 r).
  set (B := ml_put32 (t_cost l) ++ cd_put16 b).
  set (C := cd_put16 (t_port l) ++ cd_put16 (t_msgage l) ++ cd_put16 (t_maxage l) ++ cd_put16 (t_hello l) ++ cd_put16 (t_fdelay l)).
  assert (Eh : stp_hdr l = A ++ t_rhw l ++ B ++ t_bhw l ++ C).
  { unfold stp_hdr. rewrite Lr, Lb. fold r b fl. rewrite !stp_mac6_id by assumption.
    rewrite (Z.mod_small (t_version l)), (Z.mod_small (t_type l)), (Z.mod_small (t_cost l)) by lia. unfold A, B, C. rewrite <- !app_assoc. reflexivity. }
  assert (LA : zlen A = 7) by reflexivity. assert (LB : zlen B = 6) by reflexivity. assert (LC : zlen C = 10) by reflexivity.
  remember (stp_hdr l ++ payload) as data eqn:Hd.
  assert (Hn : zlen data = 35 + zlen payload) by (subst data; rewrite zlen_app, stp_hdr_len; reflexivity).
  unfold stp_decode_into. cbv zeta. destruct (zlen data <? 35) eqn:C0; [lia|].
  rewrite !cd_rd16_ok by lia. rewrite !cd_idx_ok by lia. rewrite !cd_slc_ok by lia. rewrite ml_rd32_ok by lia. cbn [ml_bind].
  assert (Ed : data = A ++ t_rhw l ++ B ++ t_bhw l ++ C ++ payload) by (rewrite Hd, Eh, <- !app_assoc; reflexivity).
  assert (NA : forall k, 0 <= k < 7 -> nth (Z.to_nat k) data 0 = nth (Z.to_nat k) A 0) by (intros k Hk; rewrite Ed; apply app_nth1; unfold zlen in LA; lia).
  assert (NB : forall k, 13 <= k < 19 -> nth (Z.to_nat k) data 0 = nth (Z.to_nat (k - 13)) B 0).
  { intros k Hk. rewrite Ed, app_assoc. rewrite app_nth2 by (rewrite app_length; unfold zlen in *; lia).
    replace (Z.to_nat k - length (A ++ t_rhw l))%nat with (Z.to_nat (k - 13)) by (rewrite app_length; unfold zlen in *; lia). apply app_nth1. unfold zlen in LB. lia. }
  assert (NC : forall k, 25 <= k < 35 -> nth (Z.to_nat k) data 0 = nth (Z.to_nat (k - 25)) C 0).
  { intros k Hk. rewrite Ed. rewrite (app_assoc A), (app_assoc (A ++ t_rhw l)), (app_assoc ((A ++ t_rhw l) ++ B)). rewrite app_nth2 by (rewrite !app_length; unfold zlen in *; lia).
    replace (Z.to_nat k - length (((A ++ t_rhw l) ++ B) ++ t_bhw l))%nat with (Z.to_nat (k - 25)) by (rewrite !app_length; unfold zlen in *; lia). apply app_nth1. unfold zlen in LC. lia. }
  assert (S1 : slice data (Z.to_nat 7) (Z.to_nat 13) = t_rhw l) by (rewrite Ed; apply slice_at; unfold zlen in *; lia).
  assert (S2 : slice data (Z.to_nat 19) (Z.to_nat 25) = t_bhw l).
  { rewrite Ed. rewrite (app_assoc A), (app_assoc (A ++ t_rhw l)). apply slice_at; rewrite ?app_length; unfold zlen in *; lia. }
  assert (S3 : slice data (Z.to_nat 0) (Z.to_nat 35) = stp_hdr l) by (rewrite Hd; apply slice_from_start; pose proof (stp_hdr_len l); unfold zlen in *; lia).
  assert (S4 : slice data (Z.to_nat 35) (Z.to_nat (zlen data)) = payload).
  { rewrite Hn, Hd. apply slice_to_end; pose proof (stp_hdr_len l); unfold zlen in *; lia. }
  rewrite S1, S2, S3, S4.
  rewrite !NA by lia. rewrite !NB by lia. rewrite !NC by lia.
  repeat match goal with |- context [Z.to_nat ?k] => let v := eval vm_compute in (Z.to_nat k) in change (Z.to_nat k) with v end.
  unfold A, B, C. cbn [nth app cd_put16 ml_put32]. rewrite !cd_put16_be by lia. rewrite ml_put32_be by lia.
  rewrite F1, F2, Lr1, Lr2, Lb1, Lb2.
  rewrite ?(cd_put16_be (t_port l)), ?(cd_put16_be (t_msgage l)), ?(cd_put16_be (t_maxage l)), ?(cd_put16_be (t_hello l)), ?(cd_put16_be (t_fdelay l)), ?(cd_put16_be (t_pid l)) by lia.
  reflexivity.
Qed.
Print Assumptions C06_stp_roundtrip.

Theorem C01_stp_render_total : forall old data, stp_render_panics (fst (fst (stp_decode_into old data))) = false.
Proof. reflexivity. Qed.

Example Lstp_nonvacuous :
  let l := mkStp [] [] 0 0 0 true false 32768 1 [1;2;3;4;5;6] 32768 1 [1;2;3;4;5;7] 4 32769 0 20 2 15 in
  stp_wf l /\ exists b, fst (stp_serialize l [] false false []) = Ok b /\ zlen b = 35 /\ firstn 7 b = [0;0;0;0;1;128;1].
Proof. split; [unfold stp_wf; cbn; repeat split; lia|]. eexists. vm_compute. repeat split; reflexivity. Qed.
