(* Lcip — Common Industrial Protocol decoder (layers/cip.go, as repaired): contributions to C19, C05, C01.
   CIP has no SerializeTo: C06 and C07 do not apply. *)
From GP Require Import Base Codec MiscLib MidLib LenipModel LenipProofs.
Open Scope Z_scope.

Theorem C19_cip_no_panic : forall old data, bytes_ok data ->
  is_panic (snd (fst (ci_decode_into old data))) = false.
Proof. intros old data Hb. exact (proj1 (ci_decode_good true old data Hb)). Qed.
Print Assumptions C19_cip_no_panic.

(* C05: decoding into a reused object = decoding into one that shares only BaseLayer (never assigned by this decoder) *)
Theorem C05_cip_fresh : forall old data,
  let r1 := ci_decode_into old data in let r2 := ci_decode_into (ci_keep old) data in
  snd (fst r1) = snd (fst r2) /\ snd r1 = snd r2 /\ (snd (fst r1) = Ok tt -> fst (fst r1) = fst (fst r2)).
Proof. exact ci_decode_fresh. Qed.
Print Assumptions C05_cip_fresh.

(* the original decoder appended to AdditionalStatus without clearing it and left ClassID, InstanceID, Status and
   Data untouched on the paths that do not set them *)
Theorem C05_cip_orig_refuted : exists old data,
  snd (fst (ci_decode_into_orig old data)) = Ok tt /\ snd (fst (ci_decode_into_orig (ci_keep old) data)) = Ok tt /\
  fst (fst (ci_decode_into_orig old data)) <> fst (fst (ci_decode_into_orig (ci_keep old) data)).
Proof.
  exists (mkCi [] [] true 14 0 0 5 [4369] [1;2]), [142;0;0;1;34;34].
  split; [vm_compute; reflexivity|split; [vm_compute; reflexivity|vm_compute; discriminate]].
Qed.
Print Assumptions C05_cip_orig_refuted.

Theorem C01_cip_render_total : forall old data, ci_render_panics (fst (fst (ci_decode_into old data))) = false.
Proof. reflexivity. Qed.

Example Lcip_nonvacuous :
  (exists d, ci_decode_into ci_fresh [14;3;33;52;18;37;120;86;9] = (d, Ok tt, false) /\
     ci_class d = 4660 /\ ci_inst d = 22136 /\ ci_data d = [9]) /\
  (exists d, ci_decode_into ci_fresh [142;0;5;2;17;17;34;34;1] = (d, Ok tt, false) /\
     ci_status d = 5 /\ ci_addst d = [4369;8738] /\ ci_data d = [1]).
Proof. split; eexists; (split; [vm_compute; reflexivity|repeat split; reflexivity]). Qed.
