(* Lsll2 — Linux cooked capture v2 header decoder (layers/linux_sll2.go): contributions to C19, C05, C01.  No SerializeTo (C06/C07 n/a). *)
From GP Require Import Base ListX Codec MiscLib Lsll2Model.
From Coq Require Import Lia ZifyBool ZifyNat.
Open Scope Z_scope.
Ltac Zify.zify_post_hook ::= Z.div_mod_to_equations.

Ltac xstep :=
  match goal with
  | |- context [ml_bind ?o _ _ _] => destruct o eqn:?; cbn [ml_bind]
  | |- context [if ?c then _ else _] => destruct c eqn:?
  end.

Theorem C19_sll2_no_panic : forall old data, bytes_ok data -> is_panic (snd (fst (sll2_decode_into old data))) = false.
Proof.
  intros old data Hb. unfold sll2_decode_into. cbv zeta. destruct (zlen data <? 20) eqn:Hn; [reflexivity|].
  rewrite ?cd_rd16_ok by lia. rewrite ?ml_rd32_ok by lia. rewrite ?cd_idx_ok by lia. cbn [ml_bind].
  pose proof (bytes_ok_nth data (Z.to_nat 11) Hb) as B11. set (al := nth (Z.to_nat 11) data 0) in *.
  destruct (zlen data <? 12 + al) eqn:C; [reflexivity|].
  rewrite !cd_slc_ok by lia. rewrite ?cd_rd16_ok by lia. reflexivity.
Qed.
Print Assumptions C19_sll2_no_panic.

Theorem C05_sll2_fresh : forall old data,
  let r1 := sll2_decode_into old data in
  let r2 := sll2_decode_into sll2_fresh data in
  snd (fst r1) = snd (fst r2) /\ snd r1 = snd r2 /\
  (snd (fst r1) = Ok tt -> fst (fst r1) = fst (fst r2)).
Proof.
  intros old data. cbv zeta. unfold sll2_decode_into. cbv zeta.
  repeat (xstep; try solve [cbn [fst snd]; split; [reflexivity | split; [reflexivity | try (intros X; discriminate X); try reflexivity]]]).
  all: try (cbn [fst snd]; split; [reflexivity | split; [reflexivity | intros _; reflexivity]]).
Qed.
Print Assumptions C05_sll2_fresh.

Theorem C01_sll2_render_total : forall old data, sll2_render_panics (fst (fst (sll2_decode_into old data))) = false.
Proof. reflexivity. Qed.

Example Lsll2_nonvacuous :
  sll2_decode_into sll2_fresh [8;0;0;0;0;0;0;2;0;1;4;6;1;2;3;4;5;6;0;0;69] = (mkSl2 [8;0;0;0;0;0;0;2;0;1;4;6;1;2;3;4;5;6;0;0] [69] 2048 2 1 4 6 [1;2;3;4;5;6], Ok tt, false) /\
  sll2_next (mkSl2 [] [] 4 0 1 0 0 []) = 3 /\ sll2_next (mkSl2 [] [] 2048 0 803 0 0 []) = 1.
Proof. repeat split; vm_compute; reflexivity. Qed.
