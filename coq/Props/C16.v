(* C16 — PacketSource.  Property theorems (placeholder while the pipeline is brought up). *)
From GP Require Import Base C16Model.
