(* C16 — Packet source delivers each packet once, in order, intact; shuts down cleanly.
   Property theorems only; each is closed by lemmas of Proofs/C16Proofs.v about the model
   Model/C16Model.v (packet.go:786-809, 918-958, 963-994, 1024-1035, repaired tree).

   Vocabulary.  A data source is a history of items (packet bytes + capture info, or an error
   value); `flat src` is the sequence of results it is specified to give (for a concatenation:
   each sub-source cut at its first io.EOF-like error), followed by io.EOF for ever.
   `spec_pkt dec d ci` is what the property says a packet read as (d, ci) must look like to its
   holder: bytes d, capture info ci, Truncated = decoder-truncated \/ caplen < len.
   `before_stop dec l` are the packets of l before the first end-of-input error (classify = CStop).
   Memory is a store of arrays; a packet's data is a view; `observe m p` reads it through m.
   `run dec c s evs` runs the producer / channel(capacity c) / consumer / cancel transition
   system on an arbitrary event list: every interleaving, every consumer speed, every
   resolution of the select, every cancellation point.

   PARTIAL (stated in lib/props/C16.py): real time (the 5 ms sleeps) and the Go scheduler /
   memory model are not modelled; channel, select and context semantics are assumed as modelled. *)
From GP Require Import Base C16Model C16Proofs.
Open Scope nat_scope.

(* ---------------------------------------------------------------- pull interface *)
(* n calls of NextPacket return the first n results of the source, in order; each packet is
   seen by the caller with its bytes, the capture info it was read with, and the Truncated rule. *)
Theorem C16_pull : forall dec cfg src buf n k, n <= k ->
  (s_kind src = SZero -> Forall (item_fits (length buf)) (flat src)) ->
  fst (pull_n dec n (init cfg src buf)) =
  map (spec_res dec) (firstn n (flat src ++ repeat (IErr KEof) k)).
Proof.
  intros dec cfg src buf n k Hk Hf.
  apply (pull_n_spec dec n k (init cfg src buf) Hk).
  - unfold mem_ok; cbn; lia.
  - exact Hf.
Qed.
Print Assumptions C16_pull.

(* ConcatFinitePacketDataSources: reading the concatenation = reading the sub-sources one after
   the other, each up to its first io.EOF (this is the definition of flat; stated for the record) *)
Theorem C16_concat_flat : forall hs, flat (mksrc SConcat hs) = concat (map cut_eof hs).
Proof. reflexivity. Qed.

(* ---------------------------------------------------------------- channel interface *)
(* For every state reached from a started source by ANY event list:
   received ++ buffered ++ rest = the packets before the first end-of-input error, where, while
   the producer runs, rest = the packet in its hand ++ what is still to come; once it has
   returned (and no cancel happened) rest = [] — nothing lost, nothing duplicated, order kept,
   transient errors invisible; the channel is closed exactly when the producer has returned;
   the consumer sees the close only after everything buffered; and then (no cancel) it has
   received exactly all the packets. *)
(* The event list may assign DecodeOptions.NoCopy at any point (EvSetOpt); the only assignments
   excluded are those switching NoCopy ON for a buffer-reusing source after the start (ev_safe) —
   the guard cannot see them unless PacketsCtx is called again (C16_guard_every_call), and what
   is still guaranteed then is C16_immutable_flips. *)
Theorem C16_chan : forall dec c s0 s1 evs,
  PreStart s0 ->
  (s_kind (t_src s0) = SZero -> p_zero (t_cfg s0) = true) ->
  packets_ctx s0 = Ok s1 ->
  Forall (ev_safe (s_kind (t_src s0))) evs ->
  chan_ok dec (before_stop dec (flat (t_src s0))) (run dec c s1 evs).
Proof.
  intros dec c s0 s1 evs HP HZ HS HF.
  apply inv_chan_ok, inv_run; [rewrite (start_src s0 s1 HS); exact HF|].
  apply inv_start; [exact HP| |exact HS].
  eapply guard_safe; eauto.
Qed.
Print Assumptions C16_chan.

(* the constructors of the repaired tree establish the hypothesis on the flag *)
Theorem C16_chan_constructors : forall k nocopy, k = SZero -> p_zero (make_cfg k nocopy) = true.
Proof. intros k nocopy ->. reflexivity. Qed.

(* progress: until the consumer has seen the close some event does something; a schedule in
   which every event does something is no longer than the measure; a complete run exists *)
Theorem C16_chan_progress : forall dec c s0 s1 evs, 1 <= c ->
  PreStart s0 ->
  (s_kind (t_src s0) = SZero -> p_zero (t_cfg s0) = true) ->
  packets_ctx s0 = Ok s1 ->
  Forall (ev_safe (s_kind (t_src s0))) evs ->
  let s := run dec c s1 evs in
  (t_seen_closed s = false -> exists e, measure (step dec c s e) < measure s) /\
  (forall evs', effective dec c s evs' -> work evs' <= measure s) /\
  (exists evs', t_seen_closed (run dec c s evs') = true /\ length evs' <= measure s).
Proof.
  intros dec c s0 s1 evs Hc HP HZ HS HF s.
  assert (HI : Inv dec (before_stop dec (flat (t_src s0))) s).
  { apply inv_run; [rewrite (start_src s0 s1 HS); exact HF|].
    apply inv_start; [exact HP| |exact HS]. eapply guard_safe; eauto. }
  split; [|split].
  - intros Hs. eapply no_deadlock; eauto.
  - intros evs' E. pose proof (effective_bound dec c evs' s E). lia.
  - eapply terminates; eauto.
Qed.
Print Assumptions C16_chan_progress.

(* ---------------------------------------------------------------- cancellation *)
(* After a cancel (at any point of any run): the producer performs at most the read that was in
   progress, at most one more send, and has closed the channel after at most three of its own
   steps; it is never blocked in between. *)
Theorem C16_cancel : forall dec c s0 s1 evs1 evs2,
  PreStart s0 -> packets_ctx s0 = Ok s1 ->
  let sc := step_cancel (run dec c s1 evs1) in
  let s := run dec c sc evs2 in
  t_reads s <= t_reads sc + reading (t_pc sc) /\
  sent s <= sent sc + 1 /\
  (3 <= count_prod evs2 -> t_pc s = PDone /\ t_closed s = true) /\
  t_reads_ac s <= 1 /\ t_sends_ac s <= 1.
Proof.
  intros dec c s0 s1 evs1 evs2 HP HS.
  destruct (start_pc s0 s1 HP HS) as (Hpc & Hcl).
  apply cancel_summary.
  - apply cinv_run. eapply cinv_start; eauto.
  - apply clinv_run. intros X. congruence.
  - apply started_run. rewrite Hpc. discriminate.
Qed.
Print Assumptions C16_cancel.

(* after a cancel every producer step is enabled: it cannot block *)
Theorem C16_cancel_never_blocked : forall dec c b s, t_cancel s = true ->
  t_pc s <> PIdle -> t_pc s <> PDone -> measure (step_prod dec c b s) < measure s.
Proof.
  intros dec c b s Hc H1 H2. apply prod_measure. unfold prod_enabled.
  destruct (t_pc s); try exact Logic.I; try (left; exact Hc); [contradiction H1|contradiction H2]; reflexivity.
Qed.

(* ---------------------------------------------------------------- immutability *)
(* With copying decode a packet returned by NextPacket lives in an array that did not exist
   before the read, is not the source's buffer, and whatever is done afterwards (more
   NextPacket calls, PacketsCtx, any run of the transition system) never alters its bytes. *)
Theorem C16_immutable : forall dec c s p s1,
  MInv s -> p_nocopy (t_cfg s) = false ->
  pull dec s = (NPkt p, s1) ->
  fresh_ok (t_mem s1) (k_data p) /\ length (t_mem s) <= v_arr (k_data p) /\
  forall acts, vread (t_mem (arun dec c s1 acts)) (k_data p) = vread (t_mem s1) (k_data p).
Proof. intros dec c s p s1 M N E. eapply immut_pull; eauto. apply copy_safe; exact N. Qed.
Print Assumptions C16_immutable.

(* the same for every packet received from or buffered in the channel; their arrays are
   pairwise distinct *)
Theorem C16_immutable_chan : forall dec c s0 s1 evs p,
  PreStart s0 -> p_nocopy (t_cfg s0) = false -> packets_ctx s0 = Ok s1 ->
  Forall (ev_safe (s_kind (t_src s0))) evs ->
  let s := run dec c s1 evs in
  In p (live s) ->
  fresh_ok (t_mem s) (k_data p) /\
  (forall acts, vread (t_mem (arun dec c s acts)) (k_data p) = vread (t_mem s) (k_data p)) /\
  NoDup (map arr_of (live s)).
Proof.
  intros dec c s0 s1 evs p HP N HS HF s Hin.
  assert (HI : Inv dec (before_stop dec (flat (t_src s0))) s).
  { apply inv_run; [rewrite (start_src s0 s1 HS); exact HF|].
    apply inv_start; [exact HP|apply copy_safe; exact N|exact HS]. }
  destruct (immut_chan dec _ c s p HI Hin) as (F & X).
  split; [exact F|]. split; [exact X|]. destruct HI; assumption.
Qed.
Print Assumptions C16_immutable_chan.

(* and for every configuration the guard lets through (NoCopy on a source handing out fresh arrays) *)
Theorem C16_immutable_guarded : forall dec c s0 s1 evs p,
  PreStart s0 -> (s_kind (t_src s0) = SZero -> p_zero (t_cfg s0) = true) -> packets_ctx s0 = Ok s1 ->
  Forall (ev_safe (s_kind (t_src s0))) evs ->
  let s := run dec c s1 evs in
  In p (live s) ->
  forall acts, vread (t_mem (arun dec c s acts)) (k_data p) = vread (t_mem s) (k_data p).
Proof.
  intros dec c s0 s1 evs p HP HZ HS HF s Hin.
  assert (HI : Inv dec (before_stop dec (flat (t_src s0))) s).
  { apply inv_run; [rewrite (start_src s0 s1 HS); exact HF|].
    apply inv_start; [exact HP|eapply guard_safe; eauto|exact HS]. }
  apply (immut_chan dec _ c s p HI Hin).
Qed.

(* ---------------------------------------------------------------- the guard *)
(* zero-copy source /\ NoCopy => PacketsCtx panics (packet.go:1025-1027), for the constructor of
   the repaired tree, whatever the state *)
Theorem C16_guard : forall s,
  t_cfg s = new_zero_copy_packet_source true -> packets_ctx s = Panic 1%Z.
Proof. intros s E. apply guard_refuses; rewrite E; reflexivity. Qed.
Print Assumptions C16_guard.

(* The guard as an invariant.  Options are mutable state (EvSetOpt inside `AEv`); PacketsCtx may
   be called any number of times (AStart).  In EVERY state reached from a source built by
   NewZeroCopyPacketSource by any sequence of NextPacket calls, PacketsCtx calls, option
   assignments and transition-system events — before the first call, after the channel and
   goroutine exist, after the close — if NoCopy is on NOW then a PacketsCtx call refuses. *)
Theorem C16_guard_every_call : forall dec c nocopy src buf acts,
  let s := arun dec c (init (make_cfg SZero nocopy) src buf) acts in
  p_nocopy (t_cfg s) = true -> packets_ctx s = Panic 1%Z.
Proof.
  intros dec c nocopy src buf acts s N. apply guard_refuses; [|exact N].
  unfold s. rewrite zero_flag_run. reflexivity.
Qed.
Print Assumptions C16_guard_every_call.

(* in particular: first call with copying decode accepted, events, NoCopy switched on, more
   events (possibly switching it off again): a further call refuses unless NoCopy is off again *)
Theorem C16_guard_second_call : forall dec c src buf s1 evs evs',
  packets_ctx (init (make_cfg SZero false) src buf) = Ok s1 ->
  let s := run dec c (step_setopt true (run dec c s1 evs)) evs' in
  packets_ctx s = Panic 1%Z \/ p_nocopy (t_cfg s) = false.
Proof.
  intros dec c src buf s1 evs evs' HS s.
  destruct (p_nocopy (t_cfg s)) eqn:N; [left|right; reflexivity].
  apply guard_refuses; [|exact N].
  pose proof (zero_flag_run dec c (map AEv evs') (step_setopt true (run dec c s1 evs))) as Z1.
  pose proof (zero_flag_run dec c (map AEv evs) s1) as Z2.
  rewrite arun_events in Z1, Z2. unfold s. rewrite Z1. cbn [step_setopt t_cfg p_zero]. rewrite Z2.
  unfold packets_ctx in HS. cbn in HS. inversion HS; subst. reflexivity.
Qed.
Print Assumptions C16_guard_second_call.

(* What immutability guarantees when options change mid-stream, with NO assumption on the
   assignments: (a) every packet received, buffered or in the producer's hand whose bytes are
   not on the source's buffer (array 0) is never altered by anything done later; (b) a read
   performed while NoCopy is false yields a packet on a fresh array (not array 0).  Hence
   packets decoded while NoCopy was false stay immutable even if NoCopy is switched on later;
   packets decoded from a buffer-reusing source while NoCopy was on are views of array 0 and
   are overwritten by the next read (C16_flip_refuted below). *)
Theorem C16_immutable_flips : forall dec c s0 s1 evs,
  PreStart s0 -> packets_ctx s0 = Ok s1 ->
  let s := run dec c s1 evs in
  (forall p, In p (live s) -> v_arr (k_data p) <> 0 ->
     forall acts, vread (t_mem (arun dec c s acts)) (k_data p) = vread (t_mem s) (k_data p)) /\
  (forall b p, t_pc s = PRead -> p_nocopy (t_cfg s) = false ->
     t_pc (step_prod dec c b s) = PSel p ->
     fresh_ok (t_mem (step_prod dec c b s)) (k_data p) /\ length (t_mem s) <= v_arr (k_data p)).
Proof.
  intros dec c s0 s1 evs HP HS s.
  assert (HW : WInv s) by (apply winv_run; eapply winv_start; eauto).
  split.
  - intros p Hin Nz. apply winv_immut; assumption.
  - intros b p Hpc Nc E. eapply read_copy_fresh; eauto.
Qed.
Print Assumptions C16_immutable_flips.

Theorem C16_guard_init : forall src buf, packets_ctx (init (make_cfg SZero true) src buf) = Panic 1%Z.
Proof. intros. apply C16_guard. reflexivity. Qed.

(* and nothing else is refused *)
Theorem C16_guard_only : forall s,
  p_zero (t_cfg s) = false \/ p_nocopy (t_cfg s) = false -> exists s', packets_ctx s = Ok s'.
Proof. exact guard_accepts. Qed.

(* The constructor as it was (zeroCopy never set): the guard lets NoCopy on a zero-copy source
   through and a packet already received is overwritten by the next read.  Witness = the
   corpus case C16-guard-zc-nocopy replayed on the real code (known finding, fixed). *)
Definition ci1 := mkci 1000 3 3 0.
Definition ci2 := mkci 2000 3 3 0.
Definition wit_src := mksrc SZero [[IPkt [170;187;204]%Z ci1; IPkt [17;34;51]%Z ci2]].
Definition dec0 (d : list Z) : bool := match d with b :: _ => (128 <=? b)%Z | [] => false end.

Theorem C16_guard_refuted : exists s1 evs p d,
  packets_ctx (init (make_cfg_orig SZero true) wit_src [0;0;0]%Z) = Ok s1 /\
  let s := run dec0 2 s1 evs in
  In p (t_recv s) /\ In (IPkt d (k_ci p)) (flat wit_src) /\
  vread (t_mem s) (k_data p) <> d.
Proof.
  eexists. exists [EvProd false; EvProd false; EvProd false; EvRecv; EvProd false; EvProd false].
  exists (mkpkt (mkview 0 3) ci1 true), [170;187;204]%Z.
  split; [reflexivity|]. vm_compute. split; [left; reflexivity|]. split; [left; reflexivity|]. discriminate.
Qed.
Print Assumptions C16_guard_refuted.

(* ---------------------------------------------------------------- the runner's scheduler *)
(* the state after any harness script is reached by pulls / PacketsCtx / events of the
   transition system, so the theorems above speak about what the runner computes; and the fuel
   handed to the producer loop is sufficient *)
Theorem C16_script_is_schedule : forall dec c x ops, reach dec c (x_t x) (x_t (sfinal dec c x ops)).
Proof. intros. apply sfinal_reach. Qed.
Theorem C16_script_fuel : forall dec c s tok, snd (quiesce dec c (S (measure s)) s tok) = false.
Proof. intros. apply quiesce_fuel. lia. Qed.
Print Assumptions C16_script_is_schedule.

(* ---------------------------------------------------------------- non-vacuity *)
Definition ex_hist : list item :=
  [IPkt [1;2]%Z (mkci 5 2 2 1); IErr KTo; IPkt [129]%Z (mkci 6 1 3 2); IErr KTmp;
   IPkt []%Z (mkci 7 0 0 0); IErr KUeof; IPkt [255]%Z (mkci 8 1 1 1)].

(* hypotheses of C16_chan / C16_cancel / C16_immutable_chan hold for a zero-copy source with
   copying decode, and the run delivers the three packets before the UnexpectedEOF, the second
   one marked truncated (caplen 1 < len 3 and top bit), then closes *)
Example C16_chan_nonvacuous :
  let s0 := init (make_cfg SZero false) (mksrc SZero [ex_hist]) [0;0]%Z in
  PreStart s0 /\ (s_kind (t_src s0) = SZero -> p_zero (t_cfg s0) = true) /\
  exists s1, packets_ctx s0 = Ok s1 /\
  run_script dec0 2 SZero false [ex_hist] [SStart; SGrantAll; SFin] =
  [OStart true; OSync 5 2;
   OFin [mkpobs [1;2]%Z (mkci 5 2 2 1) false; mkpobs [129]%Z (mkci 6 1 3 2) true; mkpobs []%Z (mkci 7 0 0 0) false]
        true 6 0 [[1;2]%Z; [129]%Z; []]].
Proof.
  cbv zeta. split; [|split].
  - apply pre_init. intros _. vm_compute. repeat constructor.
  - reflexivity.
  - eexists. split; [reflexivity|]. vm_compute. reflexivity.
Qed.

(* the pull theorem's hypotheses and a concatenation whose first sub-source ends with a wrapped EOF *)
Example C16_pull_nonvacuous :
  fst (pull_n dec0 4 (init (make_cfg SConcat false)
        (mksrc SConcat [[IPkt [1]%Z ci1; IErr KWEof; IPkt [2]%Z ci1]; []; [IErr KUeof; IPkt [200]%Z ci2]]) [])) =
  [inl (mkpobs [1]%Z ci1 false); inr KUeof; inl (mkpobs [200]%Z ci2 true); inr KEof].
Proof. vm_compute. reflexivity. Qed.

(* cancel with the producer blocked on a full channel (capacity 1): the packet in hand is dropped *)
Example C16_cancel_nonvacuous :
  run_script dec0 1 SPlain false [[IPkt [1]%Z ci1; IPkt [2]%Z ci1; IPkt [3]%Z ci1]] [SStart; SGrantAll; SCancel; SFin] =
  [OStart true; OSync 2 1; OSync 2 1; OFin [mkpobs [1]%Z ci1 false] true 2 0 [[1]%Z]].
Proof. vm_compute. reflexivity. Qed.

(* the guard refuses the corpus witness on the repaired model *)
Example C16_guard_nonvacuous :
  run_script dec0 2 SZero true (s_h wit_src) [SStart; SGrantAll; SFin] = [OStart false; ONoStart; ONoStart] /\
  exists l, run_script_orig dec0 2 SZero true (s_h wit_src) [SStart; SGrantAll; SFin] =
    [OStart true; OSync 3 2; OFin l true 3 0 [[17;34;51]%Z; [17;34;51]%Z]].
Proof. split; [vm_compute; reflexivity|]. eexists. vm_compute. reflexivity. Qed.

(* option flips: first call accepted with copying decode, NoCopy switched on after the start,
   the second PacketsCtx call refuses; the packet decoded before the flip keeps its bytes, the
   two decoded after it alias the buffer (the documented hazard the guard exists for) *)
Example C16_flip_nonvacuous :
  run_script dec0 2 SZero false
    [[IPkt [1;1]%Z ci1; IPkt [2;2]%Z ci1; IPkt [3;3]%Z ci1]]
    [SStart; SGrant 1; SSetOpt true; SRestart; SGrantAll; SFin] =
  [OStart true; OSync 1 1; OSetOpt; ORestart false; OSync 3 2;
   OFin [mkpobs [1;1]%Z ci1 false; mkpobs [3;3]%Z ci1 false; mkpobs [3;3]%Z ci1 false] true 4 0
        [[1;1]%Z; [3;3]%Z; [3;3]%Z]].
Proof. vm_compute. reflexivity. Qed.
