(* Ltls — TLS codec (layers/tls.go, tls_alert.go, tls_appdata.go, tls_cipherspec.go, tls_handshake.go):
   contributions to C19, C05, C06, C07, C01.  The decoder is the repaired one (server_name host length
   arithmetic in int); `tls_decode_into_orig` keeps the original uint16 arithmetic. *)
From GP Require Import Base Codec MiscLib MidLib LtlsModel LtlsProofs LtlsSer LtlsRt.
Open Scope Z_scope.

(* C19: no index/slice of the record walk, the four record decoders, the ClientHello parser (which reads
   beyond its record up to the end of the input), the extension loop or the server_name parser is out of range *)
Theorem C19_tls_no_panic : forall old data, bytes_ok data ->
  is_panic (snd (fst (tls_decode_into old data))) = false.
Proof. intros old data Hb. exact (proj1 (tls_decode_good old data Hb)). Qed.
Print Assumptions C19_tls_no_panic.

(* the fuel of the record walk (input length + 1) and of the extension loop (block length + 1) is never exhausted *)
Theorem C19_tls_fuel : forall old data, bytes_ok data ->
  snd (fst (tls_decode_into old data)) <> Err 99.
Proof. intros old data Hb. exact (proj2 (tls_decode_good old data Hb)). Qed.
Print Assumptions C19_tls_fuel.

(* the unrepaired server_name arithmetic (`int(8+hostnameLength)`, `data[9 : 9+hostnameLength]` in uint16):
   a host name length of 0xFFFF wraps both sums and slices data[9:8] *)
Definition tls_sni_wrap_witness : list Z :=
  [22;3;1;0;58; 1;0;0;54; 3;3] ++ repeat 0 32 ++ [0; 0;2; 0;47; 1; 0; 0;11; 0;0;0;7; 0;5;0;255;255;97;98].
Theorem C19_tls_sni_orig_refuted : exists data, bytes_ok data /\
  is_panic (snd (fst (tls_decode_into_orig tls_fresh data))) = true.
Proof. exists tls_sni_wrap_witness. split; [repeat constructor; cbv; intuition discriminate|vm_compute; reflexivity]. Qed.
Print Assumptions C19_tls_sni_orig_refuted.

(* C05: DecodeFromBytes overwrites Contents/Payload, truncates the four record slices and appends records
   built in zero-valued locals: nothing of the receiver's old state is read *)
Theorem C05_tls_fresh : forall old data, tls_decode_into old data = tls_decode_into tls_fresh data.
Proof. intros. apply tls_decode_fresh. Qed.
Print Assumptions C05_tls_fresh.

(* C07: SerializeTo is total and writes every byte of the region it prepends *)
Theorem C07_tls_no_panic : forall l payload fixl csum junk,
  is_panic (fst (tls_serialize l payload fixl csum junk)) = false.
Proof. intros. apply tls_serialize_no_panic. Qed.
Print Assumptions C07_tls_no_panic.

Theorem C07_tls_junk_free : forall l payload fixl csum junk1 junk2,
  tls_serialize l payload fixl csum junk1 = tls_serialize l payload fixl csum junk2.
Proof. intros. apply tls_serialize_junk_free. Qed.
Print Assumptions C07_tls_junk_free.

(* C06, full statement: a well-formed layer (records of the three serializable kinds, see tls_wf) serialized
   with FixLengths and nothing after it decodes to the same records with the fixed lengths. *)
Definition C06_tls_roundtrip_statement : Prop := forall l csum junk bytes l' old,
  tls_wf l -> tls_serialize l [] true csum junk = (Ok bytes, l') ->
  exists d, tls_decode_into old bytes = (d, Ok tt, false) /\
    tl_ccs d = tl_ccs l' /\ tl_hs d = [] /\ tl_app d = tl_app l' /\ tl_alert d = tl_alert l' /\ tl_payload d = [].
Theorem C06_tls_roundtrip : C06_tls_roundtrip_statement.
Proof. exact tls_roundtrip. Qed.
Print Assumptions C06_tls_roundtrip.

(* ... and re-serializing the decoded layer gives the same bytes *)
Theorem C06_tls_fixpoint : forall l csum junk bytes l' old d junk2,
  tls_wf l -> tls_serialize l [] true csum junk = (Ok bytes, l') -> tls_decode_into old bytes = (d, Ok tt, false) ->
  fst (tls_serialize d [] true csum junk2) = Ok bytes.
Proof. exact tls_fixpoint. Qed.
Print Assumptions C06_tls_fixpoint.

(* the original FixLengths assigned to the loop variable (a copy): lengths were never fixed and the
   written record is rejected by the decoder *)
Theorem C06_tls_fixlengths_orig_refuted : exists l bytes l', tls_wf l /\
  tls_serialize_orig l [] true false [] = (Ok bytes, l') /\
  snd (fst (tls_decode_into tls_fresh bytes)) <> Ok tt.
Proof.
  exists (mkTls [] [] [] [] [RApp (mkTh 23 771 0) [1;2;3]] []). eexists. eexists.
  split; [|split; [vm_compute; reflexivity|vm_compute; discriminate]].
  unfold tls_wf. cbn. repeat split; try lia; try discriminate; repeat constructor; cbn; lia.
Qed.
Print Assumptions C06_tls_fixlengths_orig_refuted.

(* Handshake records are written as a bare header (tls.go:253-256 "TODO"): no Handshake record round-trips *)
Theorem C06_tls_handshake_refuted : exists l bytes l',
  tls_serialize l [] true false [] = (Ok bytes, l') /\ tl_hs l <> [] /\
  snd (fst (tls_decode_into tls_fresh bytes)) <> Ok tt.
Proof.
  exists (mkTls [] [] [] [RHs (mkTh 22 771 4) ch_zero] [] []). eexists. eexists.
  split; [vm_compute; reflexivity|split; [discriminate|vm_compute; discriminate]].
Qed.
Print Assumptions C06_tls_handshake_refuted.

(* C01: the reflective renderers are total on non-nil layers; the String methods of TLSType, TLSVersion,
   TLSAlertLevel, TLSAlertDescr, TLSchangeCipherSpec are switches with a default *)
Theorem C01_tls_render_total : forall old data, tls_render_panics (fst (fst (tls_decode_into old data))) = false.
Proof. reflexivity. Qed.

Example Ltls_nonvacuous :
  (* a ClientHello with server_name "ab" followed by an alert *)
  let ch := [22;3;1;0;58; 1;0;0;54; 3;3] ++ repeat 0 32 ++ [0; 0;2; 0;47; 1; 0; 0;11; 0;0;0;7; 0;5;0;0;2;97;98] in
  (exists d, tls_decode_into tls_fresh (ch ++ [21;3;3;0;2;2;40]) = (d, Ok tt, false) /\
     match tl_hs d with [RHs _ c] => ch_sni c = [97;98] | _ => False end /\
     tl_alert d = [RAlert (mkTh 21 771 2) 2 40 []]) /\
  fst (tls_serialize (mkTls [] [] [RCcs (mkTh 20 771 9) 1] [] [RApp (mkTh 23 771 0) [7;8]] []) [] true false [9;9;9]) =
    Ok [20;3;3;0;1;1; 23;3;3;0;2;7;8].
Proof. cbv zeta. split; [eexists; split; [vm_compute; reflexivity|split; reflexivity]|vm_compute; reflexivity]. Qed.
