(* Leapolkey — EAPOL-Key frame codec (layers/eapol.go): contributions to C19, C05, C06, C07, C01. *)
From GP Require Import Base ListX Codec CodecBits MiscLib SmallLib LeapolkeyModel.
From Coq Require Import Lia ZifyBool ZifyNat.
Open Scope Z_scope.
Ltac Zify.zify_post_hook ::= Z.div_mod_to_equations.

Ltac xstep :=
  match goal with
  | |- context [ml_bind ?o _ _ _] => destruct o eqn:?; cbn [ml_bind]
  | |- context [if ?c then _ else _] => destruct c eqn:?
  end.

Lemma sl_rd64_ok l i : 0 <= i -> i + 7 < zlen l -> exists v, sl_rd64 l i = Ok v.
Proof. intros. unfold sl_rd64. rewrite !ml_rd32_ok by lia. cbn [obind]. eexists. reflexivity. Qed.

Theorem C19_eapolkey_no_panic : forall orig old data, bytes_ok data -> is_panic (snd (fst (ek_decode_gen orig old data))) = false.
Proof.
  intros orig old data Hb. unfold ek_decode_gen. cbv zeta. destruct (zlen data <? 95) eqn:Hn; [reflexivity|].
  destruct (sl_rd64_ok data 5 ltac:(lia) ltac:(lia)) as [v1 E1]. destruct (sl_rd64_ok data 61 ltac:(lia) ltac:(lia)) as [v2 E2].
  destruct (sl_rd64_ok data 69 ltac:(lia) ltac:(lia)) as [v3 E3].
  rewrite cd_idx_ok by lia. rewrite !cd_rd16_ok by lia. rewrite E1, E2, E3. rewrite (cd_slc_ok data 13 45), (cd_slc_ok data 45 61), (cd_slc_ok data 77 93) by lia. cbn [ml_bind].
  pose proof (bytes_ok_nth data (Z.to_nat 93) Hb) as B1. pose proof (bytes_ok_nth data (Z.to_nat (93 + 1)) Hb) as B2.
  set (kdl := nth (Z.to_nat 93) data 0 * 256 + nth (Z.to_nat (93 + 1)) data 0) in *.
  destruct (zlen data <? 95 + kdl) eqn:C1; [reflexivity|].
  match goal with |- context [if ?c then _ else _] => destruct c end; rewrite !cd_slc_ok by lia; reflexivity.
Qed.
Print Assumptions C19_eapolkey_no_panic.

Theorem C05_eapolkey_fresh : forall old data,
  let r1 := ek_decode_into old data in
  let r2 := ek_decode_into ek_fresh data in
  snd (fst r1) = snd (fst r2) /\ snd r1 = snd r2 /\
  (snd (fst r1) = Ok tt -> fst (fst r1) = fst (fst r2)).
Proof.
  intros old data. cbv zeta. unfold ek_decode_into, ek_decode_gen. cbv zeta.
  repeat (xstep; try solve [cbn [fst snd]; split; [reflexivity | split; [reflexivity | try (intros X; discriminate X); try reflexivity]]]).
  all: try (cbn [fst snd]; split; [reflexivity | split; [reflexivity | intros _; reflexivity]]).
Qed.
Print Assumptions C05_eapolkey_fresh.

(* before the repair: the key data of an earlier frame with encrypted key data stays in EncryptedKeyData when a frame
   without encrypted key data is decoded into the same object (and SerializeTo then writes it out) *)
Theorem C05_eapolkey_orig_refuted : exists a b l1 l2,
  ek_decode_orig ek_fresh a = (l1, Ok tt, false) /\ ek_decode_orig l1 b = (l2, Ok tt, false) /\
  ek_ekd l2 = [7;7] /\ ek_enc l2 = false /\ ek_ekd (fst (fst (ek_decode_orig ek_fresh b))) = [] /\
  fst (fst (ek_decode_into l1 b)) = fst (fst (ek_decode_into ek_fresh b)).
Proof.
  exists ([2;16;0] ++ repeat 0 90 ++ [0;2;7;7]), ([2;0;0] ++ repeat 0 92). eexists. eexists.
  split; [vm_compute; reflexivity|]. split; [vm_compute; reflexivity|]. repeat split; vm_compute; reflexivity.
Qed.
Print Assumptions C05_eapolkey_orig_refuted.

Theorem C01_eapolkey_render_total : forall orig old data, ek_render_panics (fst (fst (ek_decode_gen orig old data))) = false.
Proof. reflexivity. Qed.

Lemma zlen_put64 x : zlen (sl_put64 x) = 8. Proof. reflexivity. Qed.
Lemma zlen_pad n x : zlen (sl_pad n x) = Z.of_nat n. Proof. unfold zlen. rewrite sl_pad_len. reflexivity. Qed.

Lemma ek_hdr_len l : zlen (ek_hdr l) = 95.
Proof. unfold ek_hdr. rewrite !zlen_app, !zlen_put16, !zlen_put64, !zlen_pad, zlen_one. reflexivity. Qed.

Lemma ek_serialize_spec l payload fixl csum junk : ek_serialize l payload fixl csum junk = (Ok ((ek_hdr l ++ ek_ekd l) ++ payload), l).
Proof. unfold ek_serialize. rewrite sl_region_ok by (rewrite zlen_app, ek_hdr_len; reflexivity). reflexivity. Qed.

Theorem C07_eapolkey_no_panic : forall l payload fixl csum junk, is_panic (fst (ek_serialize l payload fixl csum junk)) = false.
Proof. intros. rewrite ek_serialize_spec. reflexivity. Qed.
Print Assumptions C07_eapolkey_no_panic.

Theorem C07_eapolkey_junk_free : forall l payload fixl csum junk1 junk2,
  ek_serialize l payload fixl csum junk1 = ek_serialize l payload fixl csum junk2.
Proof. intros. rewrite !ek_serialize_spec. reflexivity. Qed.
Print Assumptions C07_eapolkey_junk_free.

(* C06 domain: fields within their bit fields / widths, nonce 32 octets, IV and MIC 16, and the key data consistent:
   encrypted key data of exactly KeyDataLength octets, or no EncryptedKeyData and a payload of at least KeyDataLength
   octets (unencrypted key data is the payload of the layer) *)
Definition ek_wf (l : ekey) (payload : list Z) : Prop :=
  0 <= ek_kdt l < 256 /\ 0 <= ek_ver l < 8 /\ 0 <= ek_kt l < 2 /\ 0 <= ek_ki l < 4 /\ 0 <= ek_klen l < 65536 /\
  0 <= ek_rc l < 18446744073709551616 /\ 0 <= ek_rsc l < 18446744073709551616 /\ 0 <= ek_id l < 18446744073709551616 /\
  zlen (ek_nonce l) = 32 /\ zlen (ek_iv l) = 16 /\ zlen (ek_mic l) = 16 /\ 0 <= ek_kdl l < 65536 /\
  (if ek_enc l then ek_kdl l = zlen (ek_ekd l) else ek_ekd l = [] /\ ek_kdl l <= zlen payload).

Definition ek_info_sum (l : ekey) : Z :=
  ek_ver l + 8 * ek_kt l + 16 * ek_ki l + 64 * sl_bz (ek_install l) + 128 * sl_bz (ek_ack l) + 256 * sl_bz (ek_micf l) + 512 * sl_bz (ek_secure l) +
  1024 * sl_bz (ek_micerr l) + 2048 * sl_bz (ek_req l) + 4096 * sl_bz (ek_enc l) + 8192 * sl_bz (ek_smk l).

Ltac ek_flag x k v b := let F := fresh "F" in pose proof (sl_lor_flag x k b ltac:(lia) ltac:(change (2 ^ k) with v; lia)) as F; change (2 ^ k) with v in F; rewrite F; clear F.

Lemma ek_info_wf l : 0 <= ek_ver l < 8 -> 0 <= ek_kt l < 2 -> 0 <= ek_ki l < 4 -> ek_info l = ek_info_sum l.
Proof.
  intros Hv Ht Hi. unfold ek_info, ek_info_sum. cbv zeta. rewrite !Z.mod_small by lia.
  pose proof (sl_bz_range (ek_install l)) as R1. pose proof (sl_bz_range (ek_ack l)) as R2. pose proof (sl_bz_range (ek_micf l)) as R3.
  pose proof (sl_bz_range (ek_secure l)) as R4. pose proof (sl_bz_range (ek_micerr l)) as R5. pose proof (sl_bz_range (ek_req l)) as R6.
  pose proof (sl_bz_range (ek_enc l)) as R7. pose proof (sl_bz_range (ek_smk l)) as R8.
  assert (E0 : Z.lor (Z.lor (ek_ver l) (ek_kt l * 8)) (ek_ki l * 16) = ek_ver l + 8 * ek_kt l + 16 * ek_ki l).
  { change (ek_kt l * 8) with (ek_kt l * 2 ^ 3). change (ek_ki l * 16) with (ek_ki l * 2 ^ 4). rewrite (Z.lor_comm (ek_ver l)). rewrite (cd_lor_disjoint (ek_kt l) (ek_ver l) 3) by lia.
    rewrite Z.lor_comm. rewrite (cd_lor_disjoint (ek_ki l) _ 4) by lia. change (2 ^ 3) with 8. change (2 ^ 4) with 16. lia. }
  rewrite E0. set (s0 := ek_ver l + 8 * ek_kt l + 16 * ek_ki l). assert (B0 : 0 <= s0 < 64) by (unfold s0; lia).
  ek_flag s0 6 64 (ek_install l). set (s1 := s0 + sl_bz (ek_install l) * 64). assert (B1 : 0 <= s1 < 128) by (unfold s1; lia).
  ek_flag s1 7 128 (ek_ack l). set (s2 := s1 + sl_bz (ek_ack l) * 128). assert (B2 : 0 <= s2 < 256) by (unfold s2; lia).
  ek_flag s2 8 256 (ek_micf l). set (s3 := s2 + sl_bz (ek_micf l) * 256). assert (B3 : 0 <= s3 < 512) by (unfold s3; lia).
  ek_flag s3 9 512 (ek_secure l). set (s4 := s3 + sl_bz (ek_secure l) * 512). assert (B4 : 0 <= s4 < 1024) by (unfold s4; lia).
  ek_flag s4 10 1024 (ek_micerr l). set (s5 := s4 + sl_bz (ek_micerr l) * 1024). assert (B5 : 0 <= s5 < 2048) by (unfold s5; lia).
  ek_flag s5 11 2048 (ek_req l). set (s6 := s5 + sl_bz (ek_req l) * 2048). assert (B6 : 0 <= s6 < 4096) by (unfold s6; lia).
  ek_flag s6 12 4096 (ek_enc l). set (s7 := s6 + sl_bz (ek_enc l) * 4096). assert (B7 : 0 <= s7 < 8192) by (unfold s7; lia).
  ek_flag s7 13 8192 (ek_smk l). unfold s7, s6, s5, s4, s3, s2, s1, s0. lia.
Qed.

Lemma ek_info_fields l : 0 <= ek_ver l < 8 -> 0 <= ek_kt l < 2 -> 0 <= ek_ki l < 4 ->
  let s := ek_info_sum l in
  0 <= s < 65536 /\ s mod 8 = ek_ver l /\ (s / 8) mod 2 = ek_kt l /\ (s / 16) mod 4 = ek_ki l /\
  ek_bit s 6 = ek_install l /\ ek_bit s 7 = ek_ack l /\ ek_bit s 8 = ek_micf l /\ ek_bit s 9 = ek_secure l /\
  ek_bit s 10 = ek_micerr l /\ ek_bit s 11 = ek_req l /\ ek_bit s 12 = ek_enc l /\ ek_bit s 13 = ek_smk l.
Proof.
  intros Hv Ht Hi. cbv zeta. unfold ek_info_sum, ek_bit.
  pose proof (sl_bz_range (ek_install l)) as R1. pose proof (sl_bz_range (ek_ack l)) as R2. pose proof (sl_bz_range (ek_micf l)) as R3.
  pose proof (sl_bz_range (ek_secure l)) as R4. pose proof (sl_bz_range (ek_micerr l)) as R5. pose proof (sl_bz_range (ek_req l)) as R6.
  pose proof (sl_bz_range (ek_enc l)) as R7. pose proof (sl_bz_range (ek_smk l)) as R8.
  remember (sl_bz (ek_install l)) as f1 eqn:E1. remember (sl_bz (ek_ack l)) as f2 eqn:E2. remember (sl_bz (ek_micf l)) as f3 eqn:E3.
  remember (sl_bz (ek_secure l)) as f4 eqn:E4. remember (sl_bz (ek_micerr l)) as f5 eqn:E5. remember (sl_bz (ek_req l)) as f6 eqn:E6.
  remember (sl_bz (ek_enc l)) as f7 eqn:E7. remember (sl_bz (ek_smk l)) as f8 eqn:E8.
  change (2 ^ 6) with 64. change (2 ^ 7) with 128. change (2 ^ 8) with 256. change (2 ^ 9) with 512. change (2 ^ 10) with 1024.
  change (2 ^ 11) with 2048. change (2 ^ 12) with 4096. change (2 ^ 13) with 8192.
  set (s := ek_ver l + 8 * ek_kt l + 16 * ek_ki l + 64 * f1 + 128 * f2 + 256 * f3 + 512 * f4 + 1024 * f5 + 2048 * f6 + 4096 * f7 + 8192 * f8).
  assert (N1 : (s / 64) mod 2 = f1) by (unfold s; lia). assert (N2 : (s / 128) mod 2 = f2) by (unfold s; lia).
  assert (N3 : (s / 256) mod 2 = f3) by (unfold s; lia). assert (N4 : (s / 512) mod 2 = f4) by (unfold s; lia).
  assert (N5 : (s / 1024) mod 2 = f5) by (unfold s; lia). assert (N6 : (s / 2048) mod 2 = f6) by (unfold s; lia).
  assert (N7 : (s / 4096) mod 2 = f7) by (unfold s; lia). assert (N8 : (s / 8192) mod 2 = f8) by (unfold s; lia).
  rewrite N1, N2, N3, N4, N5, N6, N7, N8. rewrite E1, E2, E3, E4, E5, E6, E7, E8. rewrite !sl_bz_eqb.
  repeat split; try reflexivity; unfold s; lia.
Qed.

Lemma zlen_len_eq (x : list Z) n : zlen x = Z.of_nat n -> length x = n.
Proof. unfold zlen. lia. Qed.

Theorem C06_eapolkey_roundtrip : forall l payload fixl csum junk bytes l' old,
  ek_wf l payload -> ek_serialize l payload fixl csum junk = (Ok bytes, l') ->
  l' = l /\ bytes = (ek_hdr l ++ ek_ekd l) ++ payload /\
  exists c, ek_decode_into old bytes =
    (mkEk c payload (ek_kdt l) (ek_ver l) (ek_kt l) (ek_ki l) (ek_install l) (ek_ack l) (ek_micf l) (ek_secure l) (ek_micerr l) (ek_req l)
          (ek_enc l) (ek_smk l) (ek_klen l) (ek_rc l) (ek_nonce l) (ek_iv l) (ek_rsc l) (ek_id l) (ek_mic l) (ek_kdl l) (ek_ekd l), Ok tt, false) /\
    c = ek_hdr l ++ ek_ekd l.
Proof.
  intros l payload fixl csum junk bytes l' old [H0 [Hv [Ht [Hi [Hkl [Hrc [Hrs [Hid [Ln [Liv [Lm [Hkd Hk]]]]]]]]]]]]. rewrite ek_serialize_spec. intros X.
  assert (E1 : bytes = (ek_hdr l ++ ek_ekd l) ++ payload) by congruence. assert (E2 : l' = l) by congruence. clear X.
  split; [exact E2|]. split; [exact E1|]. clear E2 l'.
  pose proof (ek_info_wf l Hv Ht Hi) as EI. pose proof (ek_info_fields l Hv Ht Hi) as F. cbv zeta in F. rewrite <- EI in F.
  destruct F as [Ri [F1 [F2 [F3 [B6 [B7 [B8 [B9 [B10 [B11 [B12 B13]]]]]]]]]]].
  set (A0 := [ek_kdt l]). set (A1 := cd_put16 (ek_info l)). set (A2 := cd_put16 (ek_klen l)). set (A3 := sl_put64 (ek_rc l)).
  set (A4 := ek_nonce l). set (A5 := ek_iv l). set (A6 := sl_put64 (ek_rsc l)). set (A7 := sl_put64 (ek_id l)). set (A8 := ek_mic l).
  set (A9 := cd_put16 (ek_kdl l)). set (K := ek_ekd l).
  assert (EH : ek_hdr l = A0 ++ A1 ++ A2 ++ A3 ++ A4 ++ A5 ++ A6 ++ A7 ++ A8 ++ A9).
  { unfold ek_hdr. rewrite (Z.mod_small (ek_kdt l)) by lia.
    rewrite (sl_pad_exact 32 (ek_nonce l)) by (apply zlen_len_eq; exact Ln). rewrite (sl_pad_exact 16 (ek_iv l)) by (apply zlen_len_eq; exact Liv).
    rewrite (sl_pad_exact 16 (ek_mic l)) by (apply zlen_len_eq; exact Lm). reflexivity. }
  assert (Hd : bytes = A0 ++ A1 ++ A2 ++ A3 ++ A4 ++ A5 ++ A6 ++ A7 ++ A8 ++ A9 ++ K ++ payload).
  { rewrite E1, EH. rewrite <- !app_assoc. reflexivity. }
  assert (L0 : zlen A0 = 1) by reflexivity. assert (L1 : zlen A1 = 2) by reflexivity. assert (L2 : zlen A2 = 2) by reflexivity.
  assert (L3 : zlen A3 = 8) by reflexivity. assert (L4 : zlen A4 = 32) by exact Ln. assert (L5 : zlen A5 = 16) by exact Liv.
  assert (L6 : zlen A6 = 8) by reflexivity. assert (L7 : zlen A7 = 8) by reflexivity. assert (L8 : zlen A8 = 16) by exact Lm.
  assert (L9 : zlen A9 = 2) by reflexivity.
  pose proof (zlen_nonneg K) as NK. pose proof (zlen_nonneg payload) as NP.
  assert (Hn : zlen bytes = 95 + zlen K + zlen payload) by (rewrite Hd, !zlen_app, L0, L1, L2, L3, L4, L5, L6, L7, L8, L9; lia).
  Ltac zl := rewrite ?zlen_app; lia.
  assert (R0 : cd_idx bytes 0 = Ok (ek_kdt l)) by (rewrite Hd; exact (sl_idx_at [] (ek_kdt l) _ 0 eq_refl)).
  assert (R1 : cd_rd16 bytes 1 = Ok (ek_info l)) by (rewrite Hd; apply sl_rd16_at; [zl|lia]).
  assert (R2 : cd_rd16 bytes 3 = Ok (ek_klen l)).
  { replace bytes with ((A0 ++ A1) ++ A2 ++ A3 ++ A4 ++ A5 ++ A6 ++ A7 ++ A8 ++ A9 ++ K ++ payload) by (rewrite Hd, <- !app_assoc; reflexivity).
    apply sl_rd16_at; [zl|lia]. }
  assert (R3 : sl_rd64 bytes 5 = Ok (ek_rc l)).
  { replace bytes with ((A0 ++ A1 ++ A2) ++ A3 ++ A4 ++ A5 ++ A6 ++ A7 ++ A8 ++ A9 ++ K ++ payload) by (rewrite Hd, <- !app_assoc; reflexivity).
    apply sl_rd64_at; [zl|lia]. }
  assert (R4 : cd_slc bytes 13 45 = Ok (ek_nonce l)).
  { replace bytes with ((A0 ++ A1 ++ A2 ++ A3) ++ A4 ++ A5 ++ A6 ++ A7 ++ A8 ++ A9 ++ K ++ payload) by (rewrite Hd, <- !app_assoc; reflexivity).
    apply sl_slc_at; zl. }
  assert (R5 : cd_slc bytes 45 61 = Ok (ek_iv l)).
  { replace bytes with ((A0 ++ A1 ++ A2 ++ A3 ++ A4) ++ A5 ++ A6 ++ A7 ++ A8 ++ A9 ++ K ++ payload) by (rewrite Hd, <- !app_assoc; reflexivity).
    apply sl_slc_at; zl. }
  assert (R6 : sl_rd64 bytes 61 = Ok (ek_rsc l)).
  { replace bytes with ((A0 ++ A1 ++ A2 ++ A3 ++ A4 ++ A5) ++ A6 ++ A7 ++ A8 ++ A9 ++ K ++ payload) by (rewrite Hd, <- !app_assoc; reflexivity).
    apply sl_rd64_at; [zl|lia]. }
  assert (R7 : sl_rd64 bytes 69 = Ok (ek_id l)).
  { replace bytes with ((A0 ++ A1 ++ A2 ++ A3 ++ A4 ++ A5 ++ A6) ++ A7 ++ A8 ++ A9 ++ K ++ payload) by (rewrite Hd, <- !app_assoc; reflexivity).
    apply sl_rd64_at; [zl|lia]. }
  assert (R8 : cd_slc bytes 77 93 = Ok (ek_mic l)).
  { replace bytes with ((A0 ++ A1 ++ A2 ++ A3 ++ A4 ++ A5 ++ A6 ++ A7) ++ A8 ++ A9 ++ K ++ payload) by (rewrite Hd, <- !app_assoc; reflexivity).
    apply sl_slc_at; zl. }
  assert (R9 : cd_rd16 bytes 93 = Ok (ek_kdl l)).
  { replace bytes with ((A0 ++ A1 ++ A2 ++ A3 ++ A4 ++ A5 ++ A6 ++ A7 ++ A8) ++ A9 ++ K ++ payload) by (rewrite Hd, <- !app_assoc; reflexivity).
    apply sl_rd16_at; [zl|lia]. }
  set (H95 := A0 ++ A1 ++ A2 ++ A3 ++ A4 ++ A5 ++ A6 ++ A7 ++ A8 ++ A9) in *.
  assert (LH : zlen H95 = 95) by (unfold H95; rewrite !zlen_app, L0, L1, L2, L3, L4, L5, L6, L7, L8, L9; lia).
  assert (Hd2 : bytes = H95 ++ K ++ payload) by (rewrite Hd; unfold H95; rewrite <- !app_assoc; reflexivity).
  unfold ek_decode_into, ek_decode_gen. cbv zeta. destruct (zlen bytes <? 95) eqn:C0; [lia|].
  rewrite R0. cbn [ml_bind]. rewrite R1. cbn [ml_bind]. rewrite R2. cbn [ml_bind]. rewrite R3. cbn [ml_bind]. rewrite R4. cbn [ml_bind].
  rewrite R5. cbn [ml_bind]. rewrite R6. cbn [ml_bind]. rewrite R7. cbn [ml_bind]. rewrite R8. cbn [ml_bind]. rewrite R9. cbn [ml_bind].
  rewrite F1, F2, F3, B6, B7, B8, B9, B10, B11, B12, B13.
  destruct (ek_enc l) eqn:En.
  - (* encrypted key data: KeyDataLength octets behind the frame *)
    assert (Kl : ek_kdl l = zlen K) by exact Hk.
    destruct (zlen bytes <? 95 + ek_kdl l) eqn:C1; [lia|].
    assert (S1 : cd_slc bytes 95 (95 + ek_kdl l) = Ok K) by (rewrite Hd2; apply sl_slc_at; lia).
    assert (S2 : cd_slc bytes 0 (95 + ek_kdl l) = Ok (H95 ++ K)) by (rewrite Hd2, app_assoc; apply sl_slc_head; rewrite zlen_app; lia).
    assert (S3 : cd_slc bytes (95 + ek_kdl l) (zlen bytes) = Ok payload) by (rewrite Hn, Hd2, app_assoc; apply sl_slc_tail; rewrite ?zlen_app; lia).
    rewrite S1, S2, S3. cbn [ml_bind]. eexists. split; [reflexivity|]. rewrite EH. reflexivity.
  - (* plain key data: part of the payload *)
    destruct Hk as [Ke Kp]. assert (K0 : K = []) by exact Ke. rewrite K0 in *. cbn [app] in Hd2. change (zlen []) with 0 in Hn.
    destruct (zlen bytes <? 95 + ek_kdl l) eqn:C1; [lia|].
    assert (S2 : cd_slc bytes 0 95 = Ok H95) by (rewrite Hd2; apply sl_slc_head; lia).
    assert (S3 : cd_slc bytes 95 (zlen bytes) = Ok payload) by (rewrite Hn, Hd2; apply sl_slc_tail; lia).
    rewrite S2, S3. cbn [ml_bind]. eexists. split; [reflexivity|]. rewrite EH, app_nil_r. reflexivity.
Qed.
Print Assumptions C06_eapolkey_roundtrip.

(* every layer that decoding produces is in the C06 domain with its own payload: so decode, serialize, decode is the
   identity on decodable input *)
Theorem C06_eapolkey_decoded_wf : forall old data l tr, bytes_ok data -> ek_decode_into old data = (l, Ok tt, tr) ->
  ek_wf l (ek_payload l).
Proof.
  intros old data l tr Hb. unfold ek_decode_into, ek_decode_gen. cbv zeta. destruct (zlen data <? 95) eqn:Hn; [discriminate|].
  assert (B : forall k, 0 <= nth k data 0 < 256) by (intros k; apply bytes_ok_nth; exact Hb).
  unfold sl_rd64. rewrite cd_idx_ok by lia. rewrite !cd_rd16_ok by lia. rewrite !ml_rd32_ok by lia. cbn [obind].
  rewrite (cd_slc_ok data 13 45), (cd_slc_ok data 45 61), (cd_slc_ok data 77 93) by lia. cbn [ml_bind].
  set (info := nth (Z.to_nat 1) data 0 * 256 + nth (Z.to_nat (1 + 1)) data 0).
  set (kdl := nth (Z.to_nat 93) data 0 * 256 + nth (Z.to_nat (93 + 1)) data 0).
  assert (Ri : 0 <= info < 65536) by (unfold info; pose proof (B (Z.to_nat 1)); pose proof (B (Z.to_nat (1 + 1))); lia).
  assert (Rk : 0 <= kdl < 65536) by (unfold kdl; pose proof (B (Z.to_nat 93)); pose proof (B (Z.to_nat (93 + 1))); lia).
  destruct (zlen data <? 95 + kdl) eqn:C1; [discriminate|].
  assert (L1 : zlen (slice data (Z.to_nat 13) (Z.to_nat 45)) = 32) by (unfold zlen in *; rewrite slice_length by lia; lia).
  assert (L2 : zlen (slice data (Z.to_nat 45) (Z.to_nat 61)) = 16) by (unfold zlen in *; rewrite slice_length by lia; lia).
  assert (L3 : zlen (slice data (Z.to_nat 77) (Z.to_nat 93)) = 16) by (unfold zlen in *; rewrite slice_length by lia; lia).
  assert (R64 : forall i, 0 <= (((nth (Z.to_nat i) data 0 * 256 + nth (Z.to_nat (i + 1)) data 0) * 65536 + (nth (Z.to_nat (i + 2)) data 0 * 256 + nth (Z.to_nat (i + 2 + 1)) data 0)) * 4294967296 +
            ((nth (Z.to_nat (i + 4)) data 0 * 256 + nth (Z.to_nat (i + 4 + 1)) data 0) * 65536 + (nth (Z.to_nat (i + 4 + 2)) data 0 * 256 + nth (Z.to_nat (i + 4 + 2 + 1)) data 0))) < 18446744073709551616).
  { intros i. pose proof (B (Z.to_nat i)). pose proof (B (Z.to_nat (i + 1))). pose proof (B (Z.to_nat (i + 2))). pose proof (B (Z.to_nat (i + 2 + 1))).
    pose proof (B (Z.to_nat (i + 4))). pose proof (B (Z.to_nat (i + 4 + 1))). pose proof (B (Z.to_nat (i + 4 + 2))). pose proof (B (Z.to_nat (i + 4 + 2 + 1))). lia. }
  pose proof (R64 5) as R5. pose proof (R64 61) as R61. pose proof (R64 69) as R69.
  assert (Rkl : 0 <= nth (Z.to_nat 3) data 0 * 256 + nth (Z.to_nat (3 + 1)) data 0 < 65536) by (pose proof (B (Z.to_nat 3)); pose proof (B (Z.to_nat (3 + 1))); lia).
  destruct (ek_bit info 12) eqn:En.
  - rewrite !cd_slc_ok by lia. cbn [ml_bind]. intros X.
    match type of X with (?t, _, _) = _ => assert (El : l = t) by congruence end. subst l. clear X.
    unfold ek_wf. cbn [ek_kdt ek_ver ek_kt ek_ki ek_klen ek_rc ek_rsc ek_id ek_nonce ek_iv ek_mic ek_kdl ek_enc ek_ekd ek_payload].
    repeat split; try (apply B); try lia; try assumption; try apply R5; try apply R61; try apply R69.
    unfold zlen in *. rewrite slice_length by lia. lia.
  - rewrite !cd_slc_ok by lia. cbn [ml_bind]. intros X.
    match type of X with (?t, _, _) = _ => assert (El : l = t) by congruence end. subst l. clear X.
    unfold ek_wf. cbn [ek_kdt ek_ver ek_kt ek_ki ek_klen ek_rc ek_rsc ek_id ek_nonce ek_iv ek_mic ek_kdl ek_enc ek_ekd ek_payload].
    repeat split; try (apply B); try lia; try assumption; try apply R5; try apply R61; try apply R69.
    unfold zlen in *. rewrite slice_length by lia. lia.
Qed.
Print Assumptions C06_eapolkey_decoded_wf.

(* hence the round trip on every decodable input, with any buffer content and into any object *)
Corollary C06_eapolkey_roundtrip_decoded : forall old data l tr junk old2, bytes_ok data -> ek_decode_into old data = (l, Ok tt, tr) ->
  exists bytes, fst (ek_serialize l (ek_payload l) true true junk) = Ok bytes /\
    fst (fst (ek_decode_into old2 bytes)) = mkEk (ek_hdr l ++ ek_ekd l) (ek_payload l) (ek_kdt l) (ek_ver l) (ek_kt l) (ek_ki l) (ek_install l) (ek_ack l) (ek_micf l)
      (ek_secure l) (ek_micerr l) (ek_req l) (ek_enc l) (ek_smk l) (ek_klen l) (ek_rc l) (ek_nonce l) (ek_iv l) (ek_rsc l) (ek_id l) (ek_mic l) (ek_kdl l) (ek_ekd l).
Proof.
  intros old data l tr junk old2 Hb D. pose proof (C06_eapolkey_decoded_wf old data l tr Hb D) as W.
  destruct (ek_serialize l (ek_payload l) true true junk) as [o l'] eqn:S. rewrite ek_serialize_spec in S.
  assert (Eo : o = Ok ((ek_hdr l ++ ek_ekd l) ++ ek_payload l)) by congruence. subst o. eexists. split; [reflexivity|].
  destruct (C06_eapolkey_roundtrip l (ek_payload l) true true junk _ l old2 W (ek_serialize_spec l (ek_payload l) true true junk)) as [_ [_ [c [Dc Ec]]]].
  rewrite Dc. cbn [fst]. rewrite Ec. reflexivity.
Qed.
Print Assumptions C06_eapolkey_roundtrip_decoded.

(* outside the domain: a key data length that disagrees with the encrypted key data is written as it is (SerializeTo does
   not consult FixLengths) and the written frame does not decode *)
Theorem C06_eapolkey_length_not_fixed_refuted :
  let l := mkEk [] [] 2 2 1 0 false false false false false false true false 16 0 (repeat 0 32) (repeat 0 16) 0 0 (repeat 0 16) 9 [1;2] in
  exists bytes, fst (ek_serialize l [] true true []) = Ok bytes /\ snd (fst (ek_decode_into ek_fresh bytes)) = Err 2.
Proof. eexists. split; vm_compute; reflexivity. Qed.

Example Leapolkey_nonvacuous :
  let l := mkEk [] [] 2 2 1 0 false true true false false false true false 16 1 (repeat 3 32) (repeat 0 16) 0 0 (repeat 9 16) 2 [7;8] in
  ek_wf l [69] /\ exists bytes, fst (ek_serialize l [69] false false [170]) = Ok bytes /\ zlen bytes = 98 /\
    ek_ekd (fst (fst (ek_decode_into ek_fresh bytes))) = [7;8] /\ ek_payload (fst (fst (ek_decode_into ek_fresh bytes))) = [69].
Proof.
  cbv zeta. split; [unfold ek_wf; cbn; repeat split; lia|]. eexists. split; [vm_compute; reflexivity|]. repeat split; vm_compute; reflexivity.
Qed.
