(* C15 (classic pcap reader and snoop reader halves): the readers on arbitrary chunked streams.
   Property theorems only; each is closed by a lemma of Proofs/PcapSafeTop.v.

   A stream is a list of chunks (one per Read of the underlying io.Reader) possibly ending in
   Fail (a read error); flat s are the bytes it delivers, failed s whether it ends in an error.
   pcap_run / snoop_run open the reader and call ReadPacketData (zc=false) or
   ZeroCopyReadPacketData (zc=true) until an I/O-class error (EOF, unexpected EOF, read error),
   a panic, or `fuel` calls; each result carries the list of make([]byte, n) requests of the call.
   The only hypothesis is that the stream delivers bytes (0..255). *)
From GP Require Import Base PcapModel PcapStream PcapSafe PcapSafeTop PcapSetSnaplen SnoopOrigModel.
Open Scope Z_scope.

(* ---------------------------------------------------------------- classic pcap reader *)
Theorem C15_pcap_no_panic : forall zc fuel s, bytes_ok (flat s) ->
  let '(h, _, rs, _) := pcap_run zc fuel s in
  (forall x, h <> Panic x) /\ Forall (fun ra => forall x, fst ra <> Panic x) rs.
Proof. exact pcap_no_panic. Qed.
Print Assumptions C15_pcap_no_panic.

(* every call that does not end the stream consumes a 16-byte record header: a consumer that
   reads until the stream ends makes at most bytes/16 + 1 calls (no fuel exhaustion) *)
Theorem C15_pcap_terminates : forall zc fuel s, bytes_ok (flat s) ->
  (length (flat s) < 16 * fuel)%nat -> snd (pcap_run zc fuel s) = true.
Proof. exact pcap_terminates. Qed.
Print Assumptions C15_pcap_terminates.

(* the same with the consumer calling Reader.SetSnaplen (any uint32 value) before any of the reads
   (sched: one optional value per read call): no panic, every make([]byte, n) request below 2^32,
   every returned packet has len(data) = CaptureLength <= Length, and the loop still terminates;
   an empty schedule is the plain run *)
Theorem C15_pcap_setsnaplen_safe : forall zc fuel sched s, bytes_ok (flat s) -> Forall snap_ok sched ->
  let '(h, _, rs, fin) := pcap_run_sn zc fuel sched s in
  (forall x, h <> Panic x) /\
  Forall (fun ra => (forall x, fst ra <> Panic x) /\ Forall (fun a => 0 <= a < 4294967296) (snd ra) /\
                    (forall p, fst ra = Ok p -> Z.of_nat (length (k_data p)) = k_caplen p /\ k_caplen p <= k_len p)) rs /\
  ((length (flat s) < 16 * fuel)%nat -> fin = true).
Proof. exact pcap_setsnaplen_safe. Qed.
Print Assumptions C15_pcap_setsnaplen_safe.
Theorem C15_pcap_setsnaplen_none : forall zc fuel s, pcap_run_sn zc fuel [] s = pcap_run zc fuel s.
Proof. exact pcap_run_sn_nil. Qed.
Print Assumptions C15_pcap_setsnaplen_none.
(* non-vacuity: raising the snap length after a first zero-copy read lets a larger record through,
   with one new buffer of the larger size *)
Example C15_pcap_setsnaplen_example :
  let hdr := [212; 195; 178; 161; 2; 0; 4; 0; 0; 0; 0; 0; 0; 0; 0; 0; 2; 0; 0; 0; 1; 0; 0; 0] in
  let r1 := [1; 0; 0; 0; 0; 0; 0; 0; 2; 0; 0; 0; 2; 0; 0; 0; 170; 187] in
  let r2 := [2; 0; 0; 0; 0; 0; 0; 0; 3; 0; 0; 0; 3; 0; 0; 0; 1; 2; 3] in
  map (fun ra => match fst ra with Ok p => k_caplen p | _ => -1 end)
      (snd (fst (pcap_run_sn true 3 [None; Some 3] [Chunk (hdr ++ r1 ++ r2)]))) = [2; 3; -1]
  /\ map snd (snd (fst (pcap_run_sn true 3 [None; Some 3] [Chunk (hdr ++ r1 ++ r2)]))) = [[2]; [3]; []].
Proof. vm_compute. split; reflexivity. Qed.

(* NewReader requests 24 bytes; every later request is at most the snap length declared in
   the file header (bytes 16..20 in the file's byte order), which is < 2^32 *)
Theorem C15_pcap_alloc : forall zc fuel s, bytes_ok (flat s) ->
  let '(h, al0, rs, _) := pcap_run zc fuel s in
  Forall (fun a => a = 24) al0 /\
  forall rd, h = Ok rd ->
    r_snaplen rd = u32f (r_be rd) (firstn 24 (flat s)) 16 /\ 0 <= r_snaplen rd < 4294967296 /\
    Forall (fun ra => Forall (fun a => 0 <= a <= r_snaplen rd) (snd ra)) rs.
Proof. exact pcap_alloc. Qed.
Print Assumptions C15_pcap_alloc.

Theorem C15_pcap_shape : forall zc fuel s, bytes_ok (flat s) ->
  let '(h, _, rs, _) := pcap_run zc fuel s in
  forall rd, h = Ok rd ->
  Forall (fun ra => forall p, fst ra = Ok p ->
            Z.of_nat (length (k_data p)) = k_caplen p /\ k_caplen p <= k_len p /\ k_caplen p <= r_snaplen rd) rs.
Proof. exact pcap_shape_thm. Qed.
Print Assumptions C15_pcap_shape.

(* the whole run (header, every result, every allocation request) depends only on the bytes
   delivered before the first failing read and on whether there is one *)
Theorem C15_pcap_chunking : forall zc fuel s1 s2,
  flat s1 = flat s2 -> failed s1 = failed s2 -> pcap_run zc fuel s1 = pcap_run zc fuel s2.
Proof. exact pcap_chunking_eq. Qed.
Print Assumptions C15_pcap_chunking.

(* a read error is never reported as (unexpected) end of file, and a run that stops on a failing
   stream stops with that error; a clean stream never reports a read error *)
Theorem C15_pcap_chunking_error_surfaces : forall zc fuel s, bytes_ok (flat s) ->
  let '(h, _, rs, fin) := pcap_run zc fuel s in
  (failed s = true ->
     h <> Err E_EOF /\ h <> Err E_UEOF /\
     Forall (fun ra => fst ra <> Err E_EOF /\ fst ra <> Err E_UEOF) rs /\
     (forall rd, h = Ok rd -> fin = true -> exists pre al, rs = pre ++ [(Err E_IO, al)])) /\
  (failed s = false -> h <> Err E_IO /\ Forall (fun ra => fst ra <> Err E_IO) rs).
Proof. exact pcap_error_surfaces. Qed.
Print Assumptions C15_pcap_chunking_error_surfaces.

(* ---------------------------------------------------------------- snoop reader (repaired code) *)
Theorem C15_snoop_no_panic : forall zc fuel s, bytes_ok (flat s) ->
  let '(h, _, rs, _) := snoop_run zc fuel s in
  (forall x, h <> Panic x) /\ Forall (fun ra => forall x, fst ra <> Panic x) rs.
Proof. exact snoop_no_panic. Qed.
Print Assumptions C15_snoop_no_panic.

Theorem C15_snoop_terminates : forall zc fuel s, bytes_ok (flat s) ->
  (length (flat s) < 24 * fuel)%nat -> snd (snoop_run zc fuel s) = true.
Proof. exact snoop_terminates. Qed.
Print Assumptions C15_snoop_terminates.

(* 16 bytes for the file header, then at most maxCaptureLen = 4096 per call, whatever the
   record length field says (the pad is skipped, not buffered) *)
Theorem C15_snoop_alloc : forall zc fuel s, bytes_ok (flat s) ->
  let '(h, al0, rs, _) := snoop_run zc fuel s in
  Forall (fun a => a = 16) al0 /\
  Forall (fun ra => Forall (fun a => 0 <= a <= MAX_CAPLEN) (snd ra)) rs.
Proof. exact snoop_alloc. Qed.
Print Assumptions C15_snoop_alloc.

Theorem C15_snoop_shape : forall zc fuel s, bytes_ok (flat s) ->
  let '(_, _, rs, _) := snoop_run zc fuel s in
  Forall (fun ra => forall p, fst ra = Ok p ->
            Z.of_nat (length (k_data p)) = k_caplen p /\ k_caplen p <= k_len p /\ k_caplen p <= MAX_CAPLEN) rs.
Proof. exact snoop_shape_thm. Qed.
Print Assumptions C15_snoop_shape.

Theorem C15_snoop_chunking : forall zc fuel s1 s2,
  flat s1 = flat s2 -> failed s1 = failed s2 -> snoop_run zc fuel s1 = snoop_run zc fuel s2.
Proof. exact snoop_chunking_eq. Qed.
Print Assumptions C15_snoop_chunking.

Theorem C15_snoop_chunking_error_surfaces : forall zc fuel s, bytes_ok (flat s) ->
  let '(h, _, rs, fin) := snoop_run zc fuel s in
  (failed s = true ->
     h <> Err E_EOF /\ h <> Err E_UEOF /\
     Forall (fun ra => fst ra <> Err E_EOF /\ fst ra <> Err E_UEOF) rs /\
     (forall st, h = Ok st -> fin = true -> exists pre al, rs = pre ++ [(Err E_IO, al)])) /\
  (failed s = false -> h <> Err E_IO /\ Forall (fun ra => fst ra <> Err E_IO) rs).
Proof. exact snoop_error_surfaces. Qed.
Print Assumptions C15_snoop_chunking_error_surfaces.

(* ---------------------------------------------------------------- non-vacuity *)
(* a big-endian nanosecond file delivered in three reads, the last one failing after the first
   record: one packet, then the read error; the zero-copy call requests snaplen = 16 bytes once *)
Example C15_pcap_nonvacuous :
  let s := [Chunk [0xa1;0xb2;0x3c;0x4d; 0;2; 0;4; 0;0;0;0; 0;0;0;0; 0;0;0;16];
            Chunk [0;0;0;1;  0;0;0;7; 0;0;0;9; 0;0;0;3; 0;0;0;5; 1;2;3;  0;0;0;8; 0;0];
            Fail] in
  bytes_ok (flat s) /\ failed s = true /\
  pcap_run true 5 s =
    (Ok {| r_be := true; r_factor := 1; r_snaplen := 16; r_lt := 1; r_pcap := 0 |}, [24],
     [(Ok {| k_sec := 7; k_nsec := 9; k_caplen := 3; k_len := 5; k_data := [1;2;3] |}, [16]);
      (Err E_IO, [])], true).
Proof.
  split; [|split; [reflexivity|vm_compute; reflexivity]].
  cbn. repeat constructor; unfold byte_ok; lia.
Qed.

(* snoop: a truncated capture (4 of 100 bytes kept, 4 bytes pad) then a record whose length field
   is smaller than its header: packet, format error, end of file; 4 bytes requested *)
Example C15_snoop_nonvacuous :
  let s := [Chunk [0x73;0x6e;0x6f;0x6f;0x70;0;0;0; 0;0;0;2; 0;0;0;4];
            Chunk [0;0;0;100; 0;0;0;4; 0;0;0;32; 0;0;0;0; 0;0;0;7; 0;0;0;9; 1;2;3;4; 0;0;0;0];
            Chunk [0;0;0;4; 0;0;0;4; 0;0;0;8; 0;0;0;0; 0;0;0;7; 0;0;0;9]] in
  bytes_ok (flat s) /\ failed s = false /\
  snoop_run false 5 s =
    (Ok {| s_lt := 4; s_pcap := 0 |}, [16],
     [(Ok {| k_sec := 7; k_nsec := 9000; k_caplen := 4; k_len := 100; k_data := [1;2;3;4] |}, [4]);
      (Err E_FMT, []); (Err E_EOF, [])], true).
Proof.
  split; [|split; [reflexivity|vm_compute; reflexivity]].
  cbn. repeat constructor; unfold byte_ok; lia.
Qed.

(* ---------------------------------------------------------------- the defect that was repaired *)
(* snoop_read_orig transcribes snoop.go before the fix: commit (pad computed from the ORIGINAL
   length).  It violates C15_snoop_no_panic and C15_snoop_alloc; the witnesses are replayed on
   the unchanged tree by corpus/C15pcap/snoop-pad.cases. *)

(* a truncated capture that is valid per RFC 1761 (100 bytes on the wire, 4 captured, no pad) *)
Theorem C15_snoop_orig_no_panic_refuted :
  exists s, bytes_ok (flat s) /\
    fst (fst (fst (snoop_read_orig {| s_lt := 4; s_pcap := 0 |} s))) = Panic 1.
Proof.
  exists [Chunk [0;0;0;100; 0;0;0;4; 0;0;0;28; 0;0;0;0; 0;0;0;7; 0;0;0;9; 1;2;3;4]].
  split; [cbn; repeat constructor; unfold byte_ok; lia|vm_compute; reflexivity].
Qed.

(* a 28-byte record whose length field makes the reader request 4 294 967 271 bytes *)
Theorem C15_snoop_orig_alloc_refuted :
  exists s, bytes_ok (flat s) /\ length (flat s) = 28%nat /\
    snd (snoop_read_orig {| s_lt := 4; s_pcap := 0 |} s) = [4294967271].
Proof.
  exists [Chunk [0;0;0;4; 0;0;0;4; 255;255;255;255; 0;0;0;0; 0;0;0;7; 0;0;0;9; 1;2;3;4]].
  split; [cbn; repeat constructor; unfold byte_ok; lia|split; [reflexivity|vm_compute; reflexivity]].
Qed.
Print Assumptions C15_snoop_orig_no_panic_refuted.
