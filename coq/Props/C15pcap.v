(* C15 (classic pcap and snoop readers) -- placeholder sanity example; theorems follow *)
From GP Require Import Base PcapModel.
Open Scope Z_scope.

Example C15_snoop_sample :
  let hdr := [0x73;0x6e;0x6f;0x6f;0x70;0;0;0; 0;0;0;2; 0;0;0;4] in
  let rec1 := [0;0;0;5; 0;0;0;3; 0;0;0;28; 0;0;0;0; 0;0;0;7; 0;0;0;9; 1;2;3; 0] in
  map fst (snd (fst (snoop_run false 5 [Chunk hdr; Chunk rec1]))) =
    [ Ok {| k_sec := 7; k_nsec := 9000; k_caplen := 3; k_len := 5; k_data := [1;2;3] |}; Err E_EOF ].
Proof. vm_compute. reflexivity. Qed.
