(* C12 — assemblers sharing one stream pool are safe under every interleaving.
   Property theorems only; each is closed by a lemma of Proofs/C12Proofs.v or, for the
   refutations, by evaluating the model on an explicit schedule (list of thread ids).

   The theorems quantify over any number of threads, any programs (packet assignment) and
   every reachable state of the interleaving semantics of Model/C12Model.v; they are
   parametric in the per-connection machine (cstate, cinit, cclosed, process, flush).
   PARTIAL with respect to the property text: the Go memory model, the scheduler and the
   race detector are outside the model; "no data race" is the lockset statement below. *)
From GP Require Import Base C12Model C12Proofs C12Link C12Term C12Once C12AgeFree C12Flush.
Open Scope nat_scope.

Section Statements.
Variable cstate : Type.
Variable cinit : cstate.
Variable cclosed : cstate -> bool.
Variable creset : packet -> cstate.
Variable process : cstate -> bool -> packet -> cstate * list cevent * bool.
Variable flush : option Z -> cstate -> cstate * list cevent * bool.
Variable ctrail : option Z -> cstate -> bool.
Notation Reach := (reachable cstate cinit cclosed creset process flush ctrail).

(* full-strength statements, as properties of a configuration *)
Definition C12_no_panic_stmt (g : config) : Prop :=
  forall progs s, Reach g progs s -> forall t, t_pc (thr s t) <> PPanic.
Definition C12_progress_stmt (g : config) : Prop :=
  forall progs s, Reach g progs s ->
    (all_done s = true \/ any_enabled cstate cinit s = true) /\
    (forall t, enabled cstate cinit s t = true -> exists s', exec cstate cinit cclosed creset process flush ctrail g s t = Some s').
Definition C12_mutex_stmt (g : config) : Prop :=
  forall progs s t s', Reach g progs s -> exec cstate cinit cclosed creset process flush ctrail g s t = Some s' ->
    forall t' sid c e, In (ECall t' sid c e) (s_log s') ->
      In (ECall t' sid c e) (s_log s) \/
      (t' = t /\ sid = c_stream (obj cstate cinit s c) /\ c_lock (obj cstate cinit s c) = None /\
       exists w, t_pc (thr s t) = PWant c w).
Definition C12_lockset_stmt (g : config) : Prop :=
  forall progs s, Reach g progs s -> has_race cstate cinit g s = false.
Definition C12_inorder_stmt (g : config) : Prop :=
  forall progs s, Reach g progs s -> chk_right_stream g s = true.
Definition C12_complete_once_stmt (g : config) : Prop :=
  forall progs s, Reach g progs s ->
    chk_complete_most_once s = true /\
    (all_done s = true -> s_conns s = [] -> chk_complete_once_final s = true).
End Statements.

(* ---------------------------------------------------------------- proved, for every machine *)

(* no thread ever reaches a panic site — tcpassembly, and reassembly once the FIXME panic is gone *)
Theorem C12_no_panic : forall cstate cinit cclosed creset process flush ctrail g,
  is_rsm g && g_fixme g = false -> C12_no_panic_stmt cstate cinit cclosed creset process flush ctrail g.
Proof. intros cs ci cc cr pr fl ct g G progs s R. exact (no_panic_reachable cs ci cc cr pr fl ct g progs s G R). Qed.
Print Assumptions C12_no_panic.

(* no deadlock: unless every thread has returned some thread can step, and an enabled thread
   does step (lock order connection -> pool; pool sections never block) *)
Theorem C12_progress : forall cstate cinit cclosed creset process flush ctrail g,
  C12_progress_stmt cstate cinit cclosed creset process flush ctrail g.
Proof.
  intros cs ci cc cr pr fl ct g progs s R. split.
  - exact (progress cs ci cc cr pr fl ct g progs s R).
  - intros t En. exact (enabled_steps cs ci cc cr pr fl ct g s t En).
Qed.
Print Assumptions C12_progress.

(* every stream callback is made by a step that takes the (free) lock of the connection
   object that owns the stream at that moment *)
Theorem C12_mutex : forall cstate cinit cclosed creset process flush ctrail g,
  C12_mutex_stmt cstate cinit cclosed creset process flush ctrail g.
Proof. intros cs ci cc cr pr fl ct g progs s t s' _ E. exact (mutex_step cs ci cc cr pr fl ct g s t s' E). Qed.
Print Assumptions C12_mutex.

(* C12_inorder has two halves.  This one holds for every configuration: the packets an
   assembler has processed, in the order it processed them, are a subsequence of its program
   (so a direction fed in a fixed order by one assembler is processed in that order).  The other
   half - each packet is processed on a connection object that carries the packet's key at that
   moment, C12_inorder_stmt - is refuted for the code as it is (stale pointer to a recycled
   object) and proved without recycling, below. *)
Theorem C12_inorder_order : forall cstate cinit cclosed creset process flush ctrail g progs s t,
  reachable cstate cinit cclosed creset process flush ctrail g progs s ->
  subseq (procs t (s_log s)) (pkts_of (nth t progs [])).
Proof. intros cs ci cc cr pr fl ct g progs s t R. exact (processed_in_program_order cs ci cc cr pr fl ct g progs s t R). Qed.
Print Assumptions C12_inorder_order.

(* a held connection lock belongs to a thread inside that connection's remove section *)
Theorem C12_lock_owner : forall cstate cinit cclosed creset process flush ctrail g progs s,
  reachable cstate cinit cclosed creset process flush ctrail g progs s ->
  forall c t, c_lock (obj cstate cinit s c) = Some t -> exists k, t_pc (thr s t) = PRemove c k.
Proof. intros cs ci cc cr pr fl ct g progs s R. exact (inv_lock_reachable cs ci cc cr pr fl ct g progs s R). Qed.
Print Assumptions C12_lock_owner.

(* at most one pool entry per key and (reassembly) its reverse, so both directions are attached
   to one connection entry however their first packets race; no object under two keys; every
   entry carries its own key; the free list has no duplicates and shares nothing with the map *)
Definition C12_one_entry_stmt cstate cinit (g : config) (s : state cstate) : Prop :=
  NoDup (map fst (s_conns s)) /\
  NoDup (map snd (s_conns s)) /\
  (forall k c, In (k, c) (s_conns s) -> c_key (obj cstate cinit s c) = k /\ c < length (s_objs s)) /\
  (is_rsm g = true -> forall k c, In (k, c) (s_conns s) -> assoc (key_rev k) (s_conns s) = None) /\
  NoDup (s_free s) /\
  (forall c, In c (s_free s) -> ~ In c (map snd (s_conns s)) /\ c < length (s_objs s)).

(* trail_cfg g = false: tcpassembly, or reassembly whose flushers do not perform the second,
   unlocked remove() of FlushWithOptions (i.e. they call FlushAll; with FlushCloseOlderThan the
   statement is refuted below, C12_one_entry_refuted_reassembly_age_flush) *)
Theorem C12_one_entry : forall cstate cinit cclosed creset process flush ctrail g progs s,
  machine_ok cstate cinit cclosed creset process flush -> trail_cfg g = false ->
  reachable cstate cinit cclosed creset process flush ctrail g progs s ->
  C12_one_entry_stmt cstate cinit g s.
Proof.
  intros cs ci cc cr pr fl ct g progs s Hm GT R.
  destruct (inv_pool_reachable cs ci cc cr pr fl ct Hm g progs s GT R) as [A B C D E F _ _].
  split; [exact A|]. split; [exact B|]. split; [exact C|]. split; [exact D|]. split; [exact E|].
  intros c Hc. destruct (F c Hc) as [F1 [F2 _]]. split; assumption.
Qed.
Print Assumptions C12_one_entry.

(* the verdict the model runner prints for a state (tag m-one-entry when false) is this predicate *)
Theorem C12_one_entry_checker : forall cstate cinit g s,
  chk_one_entry cstate cinit g s = true <-> C12_one_entry_stmt cstate cinit g s.
Proof. intros cs ci g s. exact (chk_one_entry_iff cs ci g s). Qed.
Print Assumptions C12_one_entry_checker.
Theorem C12_one_entry_chk : forall cstate cinit cclosed creset process flush ctrail g progs s,
  machine_ok cstate cinit cclosed creset process flush -> trail_cfg g = false ->
  reachable cstate cinit cclosed creset process flush ctrail g progs s ->
  chk_one_entry cstate cinit g s = true.
Proof.
  intros cs ci cc cr pr fl ct g progs s Hm GT R. apply C12_one_entry_checker.
  eapply C12_one_entry; eassumption.
Qed.
Print Assumptions C12_one_entry_chk.

(* Lifting trail_cfg g = false.  Reassembly's second, unlocked remove() is reached only from an
   age-based flush (FlushWithOptions / FlushCloseOlderThan): for programs that contain none
   (packets and FlushAll only) the same statements hold for the reassembly code as it is
   (g_trail = true).  The schedules that need the hypothesis are exactly those of the known finding
   C12-reassembly-second-remove: a thread reaches PRemove2 (C12_flush_skips_closed_refuted_reassembly). *)
Theorem C12_no_second_remove_without_age_flush : forall cstate cinit cclosed creset process flush ctrail g progs s,
  (forall st, ctrail None st = false) -> age_free_progs progs ->
  reachable cstate cinit cclosed creset process flush ctrail g progs s ->
  forall t, trail_pc (t_pc (thr s t)) = false.
Proof. intros cs ci cc cr pr fl ct g progs s Hct AF R. exact (no_trail_age_free cs ci cc cr pr fl ct Hct g progs s AF R). Qed.
Theorem C12_one_entry_age_free : forall cstate cinit cclosed creset process flush ctrail g progs s,
  machine_ok cstate cinit cclosed creset process flush -> (forall st, ctrail None st = false) ->
  age_free_progs progs -> reachable cstate cinit cclosed creset process flush ctrail g progs s ->
  C12_one_entry_stmt cstate cinit g s.
Proof.
  intros cs ci cc cr pr fl ct g progs s Hm Hct AF R.
  destruct (invariants_age_free cs ci cc cr pr fl ct Hm Hct g progs s AF R) as [[A B C D E F _ _] _].
  split; [exact A|]. split; [exact B|]. split; [exact C|]. split; [exact D|]. split; [exact E|].
  intros c Hc. destruct (F c Hc) as [F1 [F2 _]]. split; assumption.
Qed.
Theorem C12_complete_once_partial_age_free : forall cstate cinit cclosed creset process flush ctrail g progs s,
  machine_ok cstate cinit cclosed creset process flush -> (forall st, ctrail None st = false) ->
  age_free_progs progs -> reachable cstate cinit cclosed creset process flush ctrail g progs s ->
  (forall sid, completes sid (s_log s) <= 1) /\
  (forall c1 c2, c1 < length (s_objs s) -> c2 < length (s_objs s) ->
     c_stream (obj cstate cinit s c1) = c_stream (obj cstate cinit s c2) -> c1 = c2).
Proof.
  intros cs ci cc cr pr fl ct g progs s Hm Hct AF R.
  destruct (invariants_age_free cs ci cc cr pr fl ct Hm Hct g progs s AF R) as [_ IS]. split.
  - intros sid. exact (proj1 (is_once _ _ _ _ IS sid)).
  - exact (is_inj _ _ _ _ IS).
Qed.
Theorem C12_reassembly_flushall_no_second_remove : forall st, rsm_trail None st = false.
Proof. reflexivity. Qed.
Print Assumptions C12_no_second_remove_without_age_flush.
Print Assumptions C12_one_entry_age_free.
Print Assumptions C12_complete_once_partial_age_free.

(* a stream belongs to one connection object at a time (fresh stream per reset) *)
Theorem C12_stream_owner_unique : forall cstate cinit cclosed creset process flush ctrail g progs s,
  machine_ok cstate cinit cclosed creset process flush -> trail_cfg g = false ->
  reachable cstate cinit cclosed creset process flush ctrail g progs s ->
  forall c1 c2, c1 < length (s_objs s) -> c2 < length (s_objs s) ->
    c_stream (obj cstate cinit s c1) = c_stream (obj cstate cinit s c2) -> c1 = c2.
Proof.
  intros cs ci cc cr pr fl ct g progs s Hm GT R.
  exact (is_inj _ _ _ _ (inv_str_reachable cs ci cc cr pr fl ct Hm g progs s GT R)).
Qed.
Print Assumptions C12_stream_owner_unique.

(* C12_complete_once, the part that holds: no stream is completed twice (the other half of
   the statement, "every kept stream is completed", is refuted below) *)
Theorem C12_complete_once_partial : forall cstate cinit cclosed creset process flush ctrail g progs s,
  machine_ok cstate cinit cclosed creset process flush -> trail_cfg g = false ->
  reachable cstate cinit cclosed creset process flush ctrail g progs s ->
  forall sid, completes sid (s_log s) <= 1.
Proof.
  intros cs ci cc cr pr fl ct g progs s Hm GT R sid.
  exact (proj1 (is_once _ _ _ _ (inv_str_reachable cs ci cc cr pr fl ct Hm g progs s GT R) sid)).
Qed.
Print Assumptions C12_complete_once_partial.

(* a flusher (FlushAll, FlushOlderThan / FlushWithOptions) whose snapshot predates the close does
   not touch the closed connection: tcpassembly, any machine, any state.  With C12_mutex (every
   callback is made in a step on a PWant program counter) this extends mutual exclusion and
   completion-at-most-once to programs with age-based flushes. *)
Theorem C12_flush_skips_closed : forall cstate cinit cclosed creset process flush ctrail g s t s' c a r,
  g_pkg g = Tcp -> t_pc (thr s t) = PWant c (WFlush a r) -> cclosed (c_st (obj cstate cinit s c)) = true ->
  exec cstate cinit cclosed creset process flush ctrail g s t = Some s' ->
  s_objs s' = s_objs s /\ s_conns s' = s_conns s /\ s_free s' = s_free s /\ s_log s' = s_log s /\
  s_nsid s' = s_nsid s /\ s_thr s' = upd (s_thr s) t (mkThr (cont_flush a r (t_prog (thr s t))) (t_prog (thr s t))).
Proof. intros cs ci cc cr pr fl ct g s t s' c a r. exact (flush_skips_closed cs ci cc cr pr fl ct g s t s' c a r). Qed.
Print Assumptions C12_flush_skips_closed.

(* What recycling costs: in the configuration g_recycle = false (remove() does not put the
   object on the free list - a HYPOTHETICAL repair, not the code as it is) the two statements
   refuted below hold for every machine, any number of threads and every reachable state.
   So the stale pointer to a recycled object is the only cause of the two refutations. *)
Theorem C12_lockset_without_recycling : forall cstate cinit cclosed creset process flush ctrail g,
  machine_ok cstate cinit cclosed creset process flush -> trail_cfg g = false -> g_recycle g = false ->
  C12_lockset_stmt cstate cinit cclosed creset process flush ctrail g.
Proof. intros cs ci cc cr pr fl ct g Hm GT G progs s R. exact (lockset_norecycle cs ci cc cr pr fl ct Hm g progs s GT G R). Qed.
Theorem C12_inorder_without_recycling : forall cstate cinit cclosed creset process flush ctrail g,
  machine_ok cstate cinit cclosed creset process flush -> trail_cfg g = false -> g_recycle g = false ->
  C12_inorder_stmt cstate cinit cclosed creset process flush ctrail g.
Proof. intros cs ci cc cr pr fl ct g Hm GT G progs s R. exact (right_stream_norecycle cs ci cc cr pr fl ct Hm g progs s GT G R). Qed.
Print Assumptions C12_lockset_without_recycling.
Print Assumptions C12_inorder_without_recycling.

(* C12_complete_once in full, without recycling: no stream is completed twice, and once the pool
   is empty (e.g. at the end of a complete run whose last call was a FlushAll) every stream that
   was entered in the pool has been completed exactly once.  With recycling (the code as it is)
   the "at most once" half still holds (C12_complete_once_partial) and the "exactly once" half is
   refuted by C12_complete_once_refuted_tcpassembly / _reassembly below. *)
Theorem C12_complete_once_without_recycling : forall cstate cinit cclosed creset process flush ctrail g,
  machine_ok cstate cinit cclosed creset process flush -> trail_cfg g = false -> g_recycle g = false ->
  C12_complete_once_stmt cstate cinit cclosed creset process flush ctrail g.
Proof.
  intros cs ci cc cr pr fl ct g Hm GT G progs s R.
  assert (M : chk_complete_most_once s = true).
  { unfold chk_complete_most_once. apply forallb_forall. intros sid _. apply Nat.leb_le.
    exact (proj1 (is_once _ _ _ _ (inv_str_reachable cs ci cc cr pr fl ct Hm g progs s GT R) sid)). }
  split; [exact M|]. intros _ Hc. unfold chk_complete_once_final. rewrite M. cbn.
  apply forallb_forall. intros sid Hs. apply Nat.eqb_eq.
  exact (complete_exactly_once cs ci cc cr pr fl ct Hm g progs s GT G R Hc sid Hs).
Qed.
Print Assumptions C12_complete_once_without_recycling.

(* Termination.  A lexicographic measure (calls not yet started; packet/flush visits still to
   make; pending removes; rank of the packets waiting in the retry loop) decreases on EVERY
   step, for every configuration (with recycling, with the second remove): every run of a
   finite program is finite - no fairness assumption - and by C12_progress every maximal run
   ends with every thread returned.  machine_tight (a connection becomes closed only when the
   machine reports it) is needed for tcpassembly's retry loop and proved for its machine. *)
Theorem C12_terminates : forall cstate cinit cclosed creset process flush ctrail g progs s t s',
  machine_ok cstate cinit cclosed creset process flush ->
  (g_pkg g = Tcp -> machine_tight cstate cclosed process flush) ->
  reachable cstate cinit cclosed creset process flush ctrail g progs s ->
  exec cstate cinit cclosed creset process flush ctrail g s t = Some s' ->
  mP cstate s' < mP cstate s \/
  (mP cstate s' = mP cstate s /\ mX cstate cinit cclosed g s' < mX cstate cinit cclosed g s).
Proof.
  intros cs ci cc cr pr fl ct g progs s t s' Hm T R E.
  exact (measure_decreases cs ci cc cr pr fl ct Hm g progs s t s' T R E).
Qed.
Theorem C12_runs_finite : forall cstate cinit cclosed creset process flush ctrail g progs s,
  machine_ok cstate cinit cclosed creset process flush ->
  (g_pkg g = Tcp -> machine_tight cstate cclosed process flush) ->
  reachable cstate cinit cclosed creset process flush ctrail g progs s ->
  Acc (step_rel cstate cinit cclosed creset process flush ctrail g progs) s.
Proof. intros cs ci cc cr pr fl ct g progs s Hm T R. exact (terminates cs ci cc cr pr fl ct Hm g progs T s R). Qed.
Theorem C12_complete_run : forall cstate cinit cclosed creset process flush ctrail g progs s,
  machine_ok cstate cinit cclosed creset process flush ->
  (g_pkg g = Tcp -> machine_tight cstate cclosed process flush) ->
  reachable cstate cinit cclosed creset process flush ctrail g progs s ->
  exists s', runs cstate cinit cclosed creset process flush ctrail g s s' /\
             reachable cstate cinit cclosed creset process flush ctrail g progs s' /\
             final cstate cinit cclosed creset process flush ctrail g s' /\ all_done s' = true.
Proof. intros cs ci cc cr pr fl ct g progs s Hm T R. exact (complete_run cs ci cc cr pr fl ct Hm g progs T s R). Qed.
Theorem C12_final_all_done : forall cstate cinit cclosed creset process flush ctrail g progs s,
  reachable cstate cinit cclosed creset process flush ctrail g progs s ->
  final cstate cinit cclosed creset process flush ctrail g s -> all_done s = true.
Proof. intros cs ci cc cr pr fl ct g progs s R F. exact (final_all_done cs ci cc cr pr fl ct g progs s R F). Qed.
Theorem C12_machine_tight_tcpassembly : machine_tight tconn tc_closed tcp_process tcp_flush.
Proof. exact tcp_machine_tight. Qed.
Print Assumptions C12_terminates.
Print Assumptions C12_runs_finite.
Print Assumptions C12_complete_run.
Print Assumptions C12_final_all_done.
Print Assumptions C12_machine_tight_tcpassembly.

(* After FlushAll, called while every other assembler is quiescent (returned or dead), the pool
   holds no connection: the call runs to its end (only the flusher can step) and the map is
   empty.  This holds for the code AS IT STANDS, with recycling: the recorded
   recycled-connection findings all need a second assembler that is still inside a call
   (a stale pointer), which quiescence excludes.  Hypotheses on the machine: machine_ok,
   machine_tight, and FlushAll closes an open connection (machine_flushall_closes), all three
   proved for both concrete machines.  trail_cfg g = false: tcpassembly, or reassembly without
   the second remove (which FlushAll never performs, C12_reassembly_flushall_no_second_remove). *)
Theorem C12_flushall_empties_pool : forall cstate cinit cclosed creset process flush ctrail g progs s t rest,
  machine_ok cstate cinit cclosed creset process flush ->
  machine_tight cstate cclosed process flush ->
  machine_flushall_closes cstate cclosed flush ->
  trail_cfg g = false ->
  reachable cstate cinit cclosed creset process flush ctrail g progs s ->
  quiescent_but cstate s t -> t_pc (thr s t) = PStart -> t_prog (thr s t) = OFlush None :: rest ->
  exists s', runs cstate cinit cclosed creset process flush ctrail g s s' /\
             reachable cstate cinit cclosed creset process flush ctrail g progs s' /\
             s_conns s' = [] /\ t_pc (thr s' t) = next_pc rest /\ t_prog (thr s' t) = rest /\
             quiescent_but cstate s' t.
Proof.
  intros cs ci cc cr pr fl ct g progs s t rest Hm Ht Hf GT R Q Hpc Hpr.
  exact (flushall_empties_pool cs ci cc cr pr fl ct Hm Ht Hf g progs s t rest GT R Q Hpc Hpr).
Qed.
Print Assumptions C12_flushall_empties_pool.
Theorem C12_machine_tight_reassembly : machine_tight rconn rc_closed rsm_process rsm_flush.
Proof. exact rsm_machine_tight. Qed.
Theorem C12_flushall_closes_tcpassembly : machine_flushall_closes tconn tc_closed tcp_flush.
Proof. exact tcp_flushall_closes. Qed.
Theorem C12_flushall_closes_reassembly : machine_flushall_closes rconn rc_closed rsm_flush.
Proof. exact rsm_flushall_closes. Qed.
Print Assumptions C12_machine_tight_reassembly.
Print Assumptions C12_flushall_closes_tcpassembly.
Print Assumptions C12_flushall_closes_reassembly.
(* the code as it stands, tcpassembly *)
Theorem C12_flushall_empties_pool_tcpassembly : forall progs s t rest,
  reachable tconn tc_init tc_closed tcp_reset tcp_process tcp_flush tcp_trail cfg_tcp progs s -> quiescent_but tconn s t ->
  t_pc (thr s t) = PStart -> t_prog (thr s t) = OFlush None :: rest ->
  exists s', reachable tconn tc_init tc_closed tcp_reset tcp_process tcp_flush tcp_trail cfg_tcp progs s' /\ s_conns s' = [] /\ t_pc (thr s' t) = next_pc rest.
Proof.
  intros progs s t rest R Q Hpc Hpr.
  destruct (C12_flushall_empties_pool tconn tc_init tc_closed tcp_reset tcp_process tcp_flush tcp_trail cfg_tcp
              progs s t rest tcp_machine_ok tcp_machine_tight tcp_flushall_closes eq_refl R Q Hpc Hpr)
    as [s' [_ [R' [Hc [Hp _]]]]].
  exists s'. auto.
Qed.
Print Assumptions C12_flushall_empties_pool_tcpassembly.

(* the code as it stands, reassembly (second remove present, cfg_rsm): programs of packets and
   FlushAll only - the age-based flush is the known finding C12-reassembly-second-remove *)
Theorem C12_flushall_empties_pool_reassembly : forall progs s t rest,
  age_free_progs progs ->
  reachable rconn rc_init rc_closed rsm_reset rsm_process rsm_flush rsm_trail cfg_rsm progs s ->
  quiescent_but rconn s t -> t_pc (thr s t) = PStart -> t_prog (thr s t) = OFlush None :: rest ->
  exists s', reachable rconn rc_init rc_closed rsm_reset rsm_process rsm_flush rsm_trail cfg_rsm progs s' /\
             s_conns s' = [] /\ t_pc (thr s' t) = next_pc rest.
Proof.
  intros progs s t rest AF R Q Hpc Hpr.
  destruct (flushall_empties_pool_age_free rconn rc_init rc_closed rsm_reset rsm_process rsm_flush rsm_trail
              rsm_machine_ok rsm_machine_tight rsm_flushall_closes cfg_rsm progs s t rest
              (fun st => eq_refl) AF R Q Hpc Hpr) as [s' [_ [R' [Hc [Hp _]]]]].
  exists s'. auto.
Qed.
Print Assumptions C12_flushall_empties_pool_reassembly.
(* non-vacuity: three assemblers leave two connections in the pool, the fourth thread's FlushAll empties it *)
Example C12_flushall_empties_pool_nonvacuous :
  let progs := [[OPkt (mkPkt (mkKey 0 false) true false 1000%Z [] 1%Z)];
                [OPkt (mkPkt (mkKey 1 false) true false 1000%Z [] 1%Z)]; [OFlush None]] in
  let s := fst (run_sched rconn rc_init rc_closed rsm_reset rsm_process rsm_flush rsm_trail cfg_rsm (init rconn progs) false [0;0;0;1;1;1]) in
  length (s_conns s) = 2 /\ quiescent_but rconn s 2 /\ t_pc (thr s 2) = PStart /\ age_free_progs progs /\
  s_conns (fst (run_sched rconn rc_init rc_closed rsm_reset rsm_process rsm_flush rsm_trail cfg_rsm (init rconn progs) false [0;0;0;1;1;1;2;2;2;2;2])) = [].
Proof.
  split; [vm_compute; reflexivity|]. split.
  - intros t2 N. destruct t2 as [|[|[|t2]]]; try (left; vm_compute; reflexivity); [congruence|].
    left. unfold thr. rewrite nth_overflow; [reflexivity|]. vm_compute. lia.
  - split; [vm_compute; reflexivity|]. split; [|vm_compute; reflexivity].
    intros pr [<-|[<-|[<-|[]]]]; reflexivity.
Qed.

(* C12_complete_once, full and about complete runs: without recycling, a FlushAll called when every
   other assembler is quiescent returns with an empty pool and every stream that was ever
   entered in the pool completed exactly once.  The two hypotheses cannot be dropped:
   g_recycle g = false  - witnesses C12_complete_once_refuted_tcpassembly / _reassembly
                           (a recycled object that lost the insert race evicts the winner);
   trail_cfg g = false  - witness C12_complete_once_refuted_reassembly_age_flush
                           (reassembly's second, unlocked remove after an age-based flush);
   with both findings present only the at-most-once half remains (C12_complete_once_partial). *)
Theorem C12_complete_once_after_flushall : forall cstate cinit cclosed creset process flush ctrail g progs s t rest,
  machine_ok cstate cinit cclosed creset process flush ->
  machine_tight cstate cclosed process flush ->
  machine_flushall_closes cstate cclosed flush ->
  trail_cfg g = false -> g_recycle g = false ->
  reachable cstate cinit cclosed creset process flush ctrail g progs s ->
  quiescent_but cstate s t -> t_pc (thr s t) = PStart -> t_prog (thr s t) = OFlush None :: rest ->
  exists s', runs cstate cinit cclosed creset process flush ctrail g s s' /\
             reachable cstate cinit cclosed creset process flush ctrail g progs s' /\
             s_conns s' = [] /\ t_pc (thr s' t) = next_pc rest /\
             (forall sid, In sid (s_kept s') -> completes sid (s_log s') = 1) /\
             (forall sid, completes sid (s_log s') <= 1).
Proof.
  intros cs ci cc cr pr fl ct g progs s t rest Hm Ht Hf GT G R Q Hpc Hpr.
  destruct (flushall_empties_pool cs ci cc cr pr fl ct Hm Ht Hf g progs s t rest GT R Q Hpc Hpr)
    as [s' [Hr [R' [Hc [Hp _]]]]].
  exists s'. split; [exact Hr|]. split; [exact R'|]. split; [exact Hc|]. split; [exact Hp|]. split.
  - exact (complete_exactly_once cs ci cc cr pr fl ct Hm g progs s' GT G R' Hc).
  - intros sid. exact (proj1 (is_once _ _ _ _ (inv_str_reachable cs ci cc cr pr fl ct Hm g progs s' GT R') sid)).
Qed.
Print Assumptions C12_complete_once_after_flushall.

(* the hypothesis on the per-connection machine holds for the two concrete machines *)
Theorem C12_machine_ok_tcpassembly : machine_ok tconn tc_init tc_closed tcp_reset tcp_process tcp_flush.
Proof. exact tcp_machine_ok. Qed.
Theorem C12_machine_ok_reassembly : machine_ok rconn rc_init rc_closed rsm_reset rsm_process rsm_flush.
Proof. exact rsm_machine_ok. Qed.
Print Assumptions C12_machine_ok_tcpassembly.
Print Assumptions C12_machine_ok_reassembly.

(* ---------------------------------------------------------------- witnesses *)
Definition kA0 := mkKey 0 false. Definition kA1 := mkKey 0 true.
Definition kB0 := mkKey 1 false. Definition kD0 := mkKey 3 false.
Definition syn (k : key) := OPkt (mkPkt k true false 1000%Z [] 0%Z).
Definition fin1 (k : key) := OPkt (mkPkt k false true 1001%Z [] 0%Z).
Definition dat (k : key) := OPkt (mkPkt k false false 1001%Z [16; 17]%Z 0%Z).

Definition reach_tcp := reachable tconn tc_init tc_closed tcp_reset tcp_process tcp_flush tcp_trail.
Definition reach_rsm := reachable rconn rc_init rc_closed rsm_reset rsm_process rsm_flush rsm_trail.
Definition sched_tcp g progs sched := fst (run_sched tconn tc_init tc_closed tcp_reset tcp_process tcp_flush tcp_trail g (init tconn progs) false sched).
Definition sched_rsm g progs sched := fst (run_sched rconn rc_init rc_closed rsm_reset rsm_process rsm_flush rsm_trail g (init rconn progs) false sched).

Lemma sched_tcp_reach g progs sched : reach_tcp g progs (sched_tcp g progs sched).
Proof. apply run_sched_reachable. constructor. Qed.
Lemma sched_rsm_reach g progs sched : reach_rsm g progs (sched_rsm g progs sched).
Proof. apply run_sched_reachable. constructor. Qed.

(* the unchanged reassembly code panics: first packets of the two directions, schedule 0,1,0,0,1 *)
Definition w_fixme_progs := [[syn kA0]; [syn kA1]].
Definition w_fixme_sched := [0; 1; 0; 0; 1].
Theorem C12_no_panic_refuted :
  ~ C12_no_panic_stmt rconn rc_init rc_closed rsm_reset rsm_process rsm_flush rsm_trail cfg_rsm_orig.
Proof.
  intros H. apply (H w_fixme_progs _ (sched_rsm_reach cfg_rsm_orig w_fixme_progs w_fixme_sched) 1).
  vm_compute. reflexivity.
Qed.
Print Assumptions C12_no_panic_refuted.
(* the same schedule on the repaired code: both directions end up on one connection entry *)
Example C12_no_panic_nonvacuous :
  let s := sched_rsm cfg_rsm w_fixme_progs (w_fixme_sched ++ [1]) in
  s_conns s = [(kA0, 0)] /\ chk_no_panic s = true /\ all_done s = true /\ length (s_log s) = 6.
Proof. vm_compute. repeat split; reflexivity. Qed.

(* stale pointer to a closed, recycled connection object.
   tcpassembly: 0 = [SYN a0; FIN a0; SYN b0], 1 = [data a0] *)
Definition w_rec_tcp := [[syn kA0; fin1 kA0; syn kB0]; [dat kA0]].
Definition w_rec_rsm := [[syn kA0; OFlush None; syn kB0]; [dat kA0]].
Definition w_rec_race := [0; 0; 0; 0; 0; 1; 0; 0].
Definition w_rec_wrong := [0; 0; 0; 0; 0; 1; 0; 0; 0; 0; 1].

Theorem C12_lockset_refuted_tcpassembly :
  ~ C12_lockset_stmt tconn tc_init tc_closed tcp_reset tcp_process tcp_flush tcp_trail cfg_tcp.
Proof.
  intros H. specialize (H w_rec_tcp _ (sched_tcp_reach cfg_tcp w_rec_tcp w_rec_race)).
  vm_compute in H. discriminate.
Qed.
Theorem C12_lockset_refuted_reassembly :
  ~ C12_lockset_stmt rconn rc_init rc_closed rsm_reset rsm_process rsm_flush rsm_trail cfg_rsm.
Proof.
  intros H. specialize (H w_rec_rsm _ (sched_rsm_reach cfg_rsm w_rec_rsm w_rec_race)).
  vm_compute in H. discriminate.
Qed.
Print Assumptions C12_lockset_refuted_tcpassembly.
Print Assumptions C12_lockset_refuted_reassembly.

Theorem C12_inorder_refuted_tcpassembly :
  ~ C12_inorder_stmt tconn tc_init tc_closed tcp_reset tcp_process tcp_flush tcp_trail cfg_tcp.
Proof.
  intros H. specialize (H w_rec_tcp _ (sched_tcp_reach cfg_tcp w_rec_tcp w_rec_wrong)).
  vm_compute in H. discriminate.
Qed.
Theorem C12_inorder_refuted_reassembly :
  ~ C12_inorder_stmt rconn rc_init rc_closed rsm_reset rsm_process rsm_flush rsm_trail cfg_rsm.
Proof.
  intros H. specialize (H w_rec_rsm _ (sched_rsm_reach cfg_rsm w_rec_rsm w_rec_wrong)).
  vm_compute in H. discriminate.
Qed.
Print Assumptions C12_inorder_refuted_tcpassembly.
Print Assumptions C12_inorder_refuted_reassembly.

(* a recycled object that lost the insert race is closed by a stale FlushAll; its remove
   deletes the winner's entry, whose stream is never completed (thread 3 is the final FlushAll) *)
Definition w_evict := [[syn kA0; syn kD0; OFlush None; syn kB0]; [OFlush None]; [syn kB0]; [OFlush None]].
Definition w_evict_tcp_sched := [0;0;0;0;0;0;0;0;0;0;2;2;1;0;0;1;1;0;0;2;2;0;0;2;1;1;2;3].
Definition w_evict_rsm_sched := [0;0;0;0;1;0;0;0;0;0;0;0;0;2;0;0;2;1;1;2;3].
Theorem C12_complete_once_refuted_tcpassembly :
  ~ C12_complete_once_stmt tconn tc_init tc_closed tcp_reset tcp_process tcp_flush tcp_trail cfg_tcp.
Proof.
  intros H. destruct (H w_evict _ (sched_tcp_reach cfg_tcp w_evict w_evict_tcp_sched)) as [_ H2].
  assert (E : chk_complete_once_final (sched_tcp cfg_tcp w_evict w_evict_tcp_sched) = true)
    by (apply H2; vm_compute; reflexivity).
  vm_compute in E. discriminate.
Qed.
Theorem C12_complete_once_refuted_reassembly :
  ~ C12_complete_once_stmt rconn rc_init rc_closed rsm_reset rsm_process rsm_flush rsm_trail cfg_rsm.
Proof.
  intros H. destruct (H w_evict _ (sched_rsm_reach cfg_rsm w_evict w_evict_rsm_sched)) as [_ H2].
  assert (E : chk_complete_once_final (sched_rsm cfg_rsm w_evict w_evict_rsm_sched) = true)
    by (apply H2; vm_compute; reflexivity).
  vm_compute in E. discriminate.
Qed.
Print Assumptions C12_complete_once_refuted_tcpassembly.
Print Assumptions C12_complete_once_refuted_reassembly.

(* reassembly FlushCloseOlderThan: the second remove(conn), made after the connection lock is
   released, deletes the entry of a connection re-created for the same key in between.
   The flusher analogue of C12_flush_skips_closed fails, and so does completion. *)
Definition C12_second_remove_harmless_stmt cstate cinit cclosed creset process flush ctrail (g : config) : Prop :=
  forall progs s t s' c a r, reachable cstate cinit cclosed creset process flush ctrail g progs s ->
    t_pc (thr s t) = PRemove2 c a r ->
    exec cstate cinit cclosed creset process flush ctrail g s t = Some s' -> s_conns s' = s_conns s.
Definition synT (k : key) (ts : Z) := OPkt (mkPkt k true false 1000%Z [] ts).
Definition w_second_1 := [[synT kA0 1; OFlush (Some 10%Z)]; [synT kA0 2]; [OFlush None]].
Definition w_second_1_sched := [0;0;0;0;0;0;1;1;0;1;2].
Definition w_second_2 := [[synT kA0 1; OFlush None]; [OFlush (Some 10%Z)]; [synT kA0 2]; [OFlush None]].
Definition w_second_2_prefix := [0;0;0;0;0;1;0;1;2;2].
Theorem C12_flush_skips_closed_refuted_reassembly :
  ~ C12_second_remove_harmless_stmt rconn rc_init rc_closed rsm_reset rsm_process rsm_flush rsm_trail cfg_rsm.
Proof.
  intros H.
  specialize (H w_second_2 _ 1 (sched_rsm cfg_rsm w_second_2 (w_second_2_prefix ++ [1])) 0 (Some 10%Z) []
                (sched_rsm_reach cfg_rsm w_second_2 w_second_2_prefix)).
  assert (E : s_conns (sched_rsm cfg_rsm w_second_2 (w_second_2_prefix ++ [1])) =
              s_conns (sched_rsm cfg_rsm w_second_2 w_second_2_prefix)).
  { apply H; vm_compute; reflexivity. }
  vm_compute in E. discriminate.
Qed.
Theorem C12_complete_once_refuted_reassembly_age_flush :
  ~ C12_complete_once_stmt rconn rc_init rc_closed rsm_reset rsm_process rsm_flush rsm_trail cfg_rsm.
Proof.
  intros H. destruct (H w_second_1 _ (sched_rsm_reach cfg_rsm w_second_1 w_second_1_sched)) as [_ H2].
  assert (E : chk_complete_once_final (sched_rsm cfg_rsm w_second_1 w_second_1_sched) = true)
    by (apply H2; vm_compute; reflexivity).
  vm_compute in E. discriminate.
Qed.
Print Assumptions C12_flush_skips_closed_refuted_reassembly.
Print Assumptions C12_complete_once_refuted_reassembly_age_flush.

(* non-vacuity of C12_flush_skips_closed: the flusher of tcpassembly locks a connection closed
   (in-order FIN, a page still queued) after its snapshot: nothing but its program counter changes *)
Definition w_flush_closed := [[synT kA0 1; OPkt (mkPkt kA0 false false 1003%Z [18; 19]%Z 1%Z); OPkt (mkPkt kA0 false true 1001%Z [] 2%Z)];
                              [OFlush (Some 10%Z)]].
Example C12_flush_skips_closed_nonvacuous :
  let s := sched_tcp cfg_tcp w_flush_closed [0;0;0;0;0;0;1;0;0] in
  t_pc (thr s 1) = PWant 0 (WFlush (Some 10%Z) []) /\ tc_closed (c_st (obj tconn tc_init s 0)) = true /\
  length (tc_q (c_st (obj tconn tc_init s 0))) = 1 /\
  s_log (sched_tcp cfg_tcp w_flush_closed [0;0;0;0;0;0;1;0;0;1]) = s_log s.
Proof. vm_compute. repeat split; reflexivity. Qed.
(* losing the lookup-versus-close race twice: the packet is processed on a third, open connection *)
Example C12_retry_twice_nonvacuous :
  let progs := [[synT kA0 1; fin1 kA0; synT kA0 2; fin1 kA0]; [dat kA0]] in
  let s := sched_tcp cfg_tcp progs [0;0;0;0;1;0;0;1;0;0;0;1;0;0;0;1;1;1;1] in
  s_nsid s = 3 /\ length (filter (fun tg => match tg with TgRetry => true | _ => false end) (s_tags s)) = 2 /\
  chk_complete_most_once s = true.
Proof. vm_compute. repeat split; reflexivity. Qed.

(* non-vacuity of termination and exactly-once: the measure of an initial state is positive and a
   complete run without recycling completes the three streams of the retry-twice program once each *)
Example C12_terminates_nonvacuous :
  let g := mkCfg Tcp false false true in
  let progs := [[synT kA0 1; fin1 kA0; synT kA0 2; fin1 kA0]; [dat kA0]; [OFlush None]] in
  let s := sched_tcp g progs ([0;0;0;0;1;0;0;1;0;0;0;1;0;0;0;1;1;1;1] ++ [2;2;2;2]) in
  mP tconn (init tconn progs) = 6 /\ all_done s = true /\ s_conns s = [] /\
  length (s_kept s) = 3 /\ chk_complete_once_final s = true.
Proof. vm_compute. repeat split; reflexivity. Qed.

(* non-vacuity of C12_one_entry: after the both-directions race on the repaired code the map
   has exactly one entry, and after close + recycle the free list is non-empty *)
Example C12_one_entry_nonvacuous :
  let s := sched_tcp cfg_tcp w_rec_tcp [0; 0; 0; 0; 0; 1; 0] in
  s_free s = [0] /\ s_conns s = [] /\ length (s_objs s) = 1 /\
  C12_one_entry_stmt tconn tc_init cfg_tcp s.
Proof.
  split; [vm_compute; reflexivity|]. split; [vm_compute; reflexivity|]. split; [vm_compute; reflexivity|].
  apply (C12_one_entry tconn tc_init tc_closed tcp_reset tcp_process tcp_flush tcp_trail cfg_tcp w_rec_tcp).
  - exact tcp_machine_ok.
  - reflexivity.
  - apply sched_tcp_reach.
Qed.

(* the schedule that sends data to the wrong stream, run without recycling: the stale pointer
   finds the connection closed, the assembler looks up again and opens a new stream for a0 *)
Example C12_without_recycling_nonvacuous :
  let g := mkCfg Tcp false false true in
  let s := sched_tcp g w_rec_tcp (w_rec_wrong ++ [1; 1; 1]) in
  chk_right_stream g s = true /\ has_race tconn tc_init g s = false /\
  s_nsid s = 3 /\ all_done s = true /\ In TgRetry (s_tags s).
Proof. vm_compute. repeat split; auto. Qed.

Example C12_inorder_order_nonvacuous :
  let s := sched_tcp cfg_tcp w_rec_tcp (w_rec_wrong ++ [0; 0; 0; 0]) in
  length (procs 0 (s_log s)) = 3 /\ length (procs 1 (s_log s)) = 1.
Proof. vm_compute. split; reflexivity. Qed.

(* non-vacuity of the invariants: the witness states are reachable and non-trivial *)
Example C12_progress_nonvacuous :
  let s := sched_tcp cfg_tcp w_rec_tcp [0; 0; 0; 0; 0; 1] in
  all_done s = false /\ enabled tconn tc_init s 1 = false /\ enabled tconn tc_init s 0 = true /\
  c_lock (obj tconn tc_init s 0) = Some 0.
Proof. vm_compute. repeat split; reflexivity. Qed.
