(* C12 — placeholder while the correspondence is brought up; theorems follow. *)
From GP Require Import Base C12Model.
