(* Ldhcp6duid — DHCPv6 DUID codec (layers/dhcpv6.go DHCPv6DUID): contributions to C19, C05, C06, C07, C01. *)
From GP Require Import Base ListX Codec MiscLib Ldhcp6duidModel.
From Coq Require Import Lia ZifyBool ZifyNat.
Open Scope Z_scope.
Ltac Zify.zify_post_hook ::= Z.div_mod_to_equations.

Theorem C19_dhcp6duid_no_panic : forall orig old data, is_panic (snd (fst (du_decode_gen orig old data))) = false.
Proof.
  intros orig old data. unfold du_decode_gen. cbv zeta. cbn [fst snd].
  destruct (zlen data <? 2) eqn:H2; [reflexivity|]. rewrite cd_rd16_ok by lia. cbn [du_bind].
  set (ty := nth (Z.to_nat 0) data 0 * 256 + nth (Z.to_nat (0 + 1)) data 0).
  destruct ((ty =? 1) || (ty =? 3)).
  - destruct (zlen data <? 4) eqn:H4; [reflexivity|]. rewrite cd_slc_ok by lia. cbn [du_bind].
    destruct (ty =? 1); [destruct (zlen data <? 8) eqn:H8; [reflexivity|]; rewrite !cd_slc_ok by lia; reflexivity|].
    destruct (ty =? 2); [destruct (zlen data <? 6) eqn:H6; [reflexivity|]; rewrite !cd_slc_ok by lia; reflexivity|].
    rewrite !cd_slc_ok by lia. reflexivity.
  - destruct (ty =? 1); [destruct (zlen data <? 8) eqn:H8; [reflexivity|]; rewrite !cd_slc_ok by lia; reflexivity|].
    destruct (ty =? 2); [destruct (zlen data <? 6) eqn:H6; [reflexivity|]; rewrite !cd_slc_ok by lia; reflexivity|].
    destruct (zlen data <? 4) eqn:H4; [reflexivity|]. rewrite !cd_slc_ok by lia. reflexivity.
Qed.
Print Assumptions C19_dhcp6duid_no_panic.

(* the repaired decoder: same class whatever the receiver held, and the same DUID whenever at least the type was read *)
Theorem C05_dhcp6duid_fresh : forall old data,
  let r1 := du_decode_into old data in
  let r2 := du_decode_into du_fresh data in
  snd (fst r1) = snd (fst r2) /\ snd r1 = snd r2 /\
  (snd (fst r1) = Ok tt -> fst (fst r1) = fst (fst r2)).
Proof.
  intros old data. cbv zeta. unfold du_decode_into, du_decode_gen. cbv zeta. cbn [fst snd].
  destruct (zlen data <? 2) eqn:H2; cbn [fst snd].
  - split; [reflexivity|]. split; [reflexivity|]. intros X; discriminate X.
  - repeat split; reflexivity.
Qed.
Print Assumptions C05_dhcp6duid_fresh.

(* before the repair: an EN DUID decoded into a receiver that held an LLT one kept its HardwareType, Time and LinkLayerAddress *)
Theorem C05_dhcp6duid_fresh_orig_refuted : exists old data,
  snd (fst (du_decode_orig old data)) = Ok tt /\ fst (fst (du_decode_orig old data)) <> fst (fst (du_decode_orig du_fresh data)).
Proof.
  exists (fst (fst (du_decode_orig du_fresh [0;1;0;1;9;9;9;9;1;2;3;4;5;6]))), [0;2;0;0;0;9;7;7].
  split; [vm_compute; reflexivity|]. vm_compute. intros X; discriminate X.
Qed.
Print Assumptions C05_dhcp6duid_fresh_orig_refuted.

Theorem C01_dhcp6duid_render_total : forall orig old data, du_render_panics (fst (fst (du_decode_gen orig old data))) = false.
Proof. reflexivity. Qed.
Print Assumptions C01_dhcp6duid_render_total.

Theorem C07_dhcp6duid_no_panic : forall l payload fixl csum junk, is_panic (fst (du_serialize l payload fixl csum junk)) = false.
Proof.
  intros. unfold du_serialize.
  assert (P : is_panic (du_encode l) = false).
  { unfold du_encode, du_len. cbv zeta. pose proof (zlen_nonneg (du_lla l)). pose proof (zlen_nonneg (du_id l)).
    destruct (du_type l =? 1) eqn:T1.
    - destruct (8 + zlen (du_lla l) <? 2) eqn:A; [lia|]. destruct (8 + zlen (du_lla l) <? 8) eqn:B; [lia|reflexivity].
    - destruct (du_type l =? 2) eqn:T2.
      + destruct (6 + zlen (du_id l) <? 2) eqn:A; [lia|]. destruct (6 + zlen (du_id l) <? 6) eqn:B; [lia|reflexivity].
      + destruct (4 + zlen (du_lla l) <? 2) eqn:A; [lia|]. destruct (4 + zlen (du_lla l) <? 4) eqn:B; [lia|]. destruct (du_type l =? 3); reflexivity. }
  destruct (du_encode l); [reflexivity|reflexivity|discriminate P].
Qed.
Print Assumptions C07_dhcp6duid_no_panic.

Theorem C07_dhcp6duid_junk_free : forall l payload fixl csum junk1 junk2,
  du_serialize l payload fixl csum junk1 = du_serialize l payload fixl csum junk2.
Proof. reflexivity. Qed.
Print Assumptions C07_dhcp6duid_junk_free.

(* the values DecodeFromBytes produces: the fields the type does not carry are empty, the fixed-size ones have their size *)
Definition du_wf (l : duid) : Prop :=
  0 <= du_type l < 65536 /\
  (du_type l = 1 -> length (du_hw l) = 2%nat /\ length (du_time l) = 4%nat /\ du_en l = [] /\ du_id l = []) /\
  (du_type l = 2 -> length (du_en l) = 4%nat /\ du_hw l = [] /\ du_time l = [] /\ du_lla l = []) /\
  (du_type l = 3 -> length (du_hw l) = 2%nat /\ du_time l = [] /\ du_en l = [] /\ du_id l = []) /\
  (du_type l <> 1 -> du_type l <> 2 -> du_type l <> 3 -> du_hw l = [] /\ du_time l = [] /\ du_en l = [] /\ du_id l = []).

Lemma du_rd16_put ty rest : 0 <= ty < 65536 -> cd_rd16 (cd_put16 (ty mod 65536) ++ rest) 0 = Ok ty.
Proof.
  intros H. rewrite Z.mod_small by lia. pose proof (zlen_nonneg rest) as Nr.
  rewrite cd_rd16_ok by (rewrite ?zlen_app, ?zlen_put16; lia).
  change (Z.to_nat 0) with 0%nat. change (Z.to_nat (0 + 1)) with 1%nat. unfold cd_put16. cbn [app nth].
  rewrite (cd_put16_be ty H). reflexivity.
Qed.

Lemma du_rd16_app a b pre rest : cd_rd16 ((a :: b :: pre) ++ rest) 0 = Ok (a * 256 + b).
Proof. rewrite cd_rd16_ok; [reflexivity|lia|]. pose proof (zlen_nonneg rest). rewrite zlen_app. unfold zlen at 1. cbn [length]. lia. Qed.

Ltac okinj X := let E := fresh in pose proof (f_equal (fun o => match o with Ok b => b | _ => [] end) X) as E; cbv beta iota in E; rewrite <- E; reflexivity.

(* Encode then DecodeFromBytes gives the DUID back (a DUID has no payload: the trailing field takes the rest) *)
Theorem C06_dhcp6duid_roundtrip : forall l bytes old,
  du_wf l -> du_encode l = Ok bytes -> du_decode_into old bytes = (l, Ok tt, false).
Proof.
  intros [ty hw en tm lla id] bytes old [R [W1 [W2 [W3 W4]]]]. cbn [du_type du_hw du_en du_time du_lla du_id] in *.
  unfold du_encode, du_len. cbn [du_type du_hw du_en du_time du_lla du_id]. cbv zeta.
  pose proof (zlen_nonneg lla) as Nl. pose proof (zlen_nonneg id) as Ni.
  destruct (ty =? 1) eqn:T1.
  - assert (ty = 1) by lia. subst ty. destruct (W1 eq_refl) as [Lh [Lt [-> ->]]].
    destruct hw as [|h0 [|h1 [|? ?]]]; try discriminate Lh. destruct tm as [|t0 [|t1 [|t2 [|t3 [|? ?]]]]]; try discriminate Lt.
    destruct (8 + zlen lla <? 2) eqn:A; [lia|]. destruct (8 + zlen lla <? 8) eqn:B; [lia|]. intros X. assert (E : bytes = [0;1;h0;h1;t0;t1;t2;t3] ++ lla) by (okinj X). clear X. subst bytes.
    unfold du_decode_into, du_decode_gen. cbv zeta. rewrite zlen_app. change (zlen [0;1;h0;h1;t0;t1;t2;t3]) with 8.
    destruct (8 + zlen lla <? 2) eqn:C; [lia|]. rewrite du_rd16_app. change (0 * 256 + 1) with 1. cbn [du_bind Z.eqb orb Pos.eqb].
    destruct (8 + zlen lla <? 4) eqn:D; [lia|]. rewrite B. rewrite !cd_slc_ok by (rewrite ?zlen_app; change (zlen [0;1;h0;h1;t0;t1;t2;t3]) with 8; lia). cbn [du_bind].
    rewrite (slice_at [0;1] [h0;h1] ([t0;t1;t2;t3] ++ lla)) by reflexivity.
    rewrite (slice_at [0;1;h0;h1] [t0;t1;t2;t3] lla) by reflexivity.
    rewrite (slice_to_end [0;1;h0;h1;t0;t1;t2;t3] lla) by (try reflexivity; unfold zlen; cbn [length]; lia). reflexivity.
  - destruct (ty =? 2) eqn:T2.
    + assert (ty = 2) by lia. subst ty. destruct (W2 eq_refl) as [Le [-> [-> ->]]].
      destruct en as [|e0 [|e1 [|e2 [|e3 [|? ?]]]]]; try discriminate Le.
      destruct (6 + zlen id <? 2) eqn:A; [lia|]. destruct (6 + zlen id <? 6) eqn:B; [lia|]. intros X. assert (E : bytes = [0;2;e0;e1;e2;e3] ++ id) by (okinj X). clear X. subst bytes.
      unfold du_decode_into, du_decode_gen. cbv zeta. rewrite zlen_app. change (zlen [0;2;e0;e1;e2;e3]) with 6.
      destruct (6 + zlen id <? 2) eqn:C; [lia|]. rewrite du_rd16_app. change (0 * 256 + 2) with 2. cbn [du_bind Z.eqb orb Pos.eqb].
      rewrite B. rewrite !cd_slc_ok by (rewrite ?zlen_app; change (zlen [0;2;e0;e1;e2;e3]) with 6; lia). cbn [du_bind].
      rewrite (slice_at [0;2] [e0;e1;e2;e3] id) by reflexivity.
      rewrite (slice_to_end [0;2;e0;e1;e2;e3] id) by (try reflexivity; unfold zlen; cbn [length]; lia). reflexivity.
    + destruct (4 + zlen lla <? 2) eqn:A; [lia|]. destruct (4 + zlen lla <? 4) eqn:B; [lia|].
      destruct (ty =? 3) eqn:T3.
      * assert (ty = 3) by lia. subst ty. destruct (W3 eq_refl) as [Lh [-> [-> ->]]].
        destruct hw as [|h0 [|h1 [|? ?]]]; try discriminate Lh.
        intros X. assert (E : bytes = [0;3;h0;h1] ++ lla) by (okinj X). clear X. subst bytes.
        unfold du_decode_into, du_decode_gen. cbv zeta. rewrite zlen_app. change (zlen [0;3;h0;h1]) with 4.
        rewrite A. rewrite du_rd16_app. change (0 * 256 + 3) with 3. cbn [du_bind Z.eqb orb Pos.eqb].
        rewrite B. rewrite !cd_slc_ok by (rewrite ?zlen_app; change (zlen [0;3;h0;h1]) with 4; lia). cbn [du_bind]. rewrite ?B.
        rewrite ?cd_slc_ok by (rewrite ?zlen_app; change (zlen [0;3;h0;h1]) with 4; lia). cbn [du_bind].
        rewrite (slice_at [0;3] [h0;h1] lla) by reflexivity.
        rewrite (slice_to_end [0;3;h0;h1] lla) by (try reflexivity; unfold zlen; cbn [length]; lia). reflexivity.
      * destruct (W4 ltac:(lia) ltac:(lia) ltac:(lia)) as [-> [-> [-> ->]]].
        intros X. assert (E : bytes = cd_put16 (ty mod 65536) ++ [0;0] ++ lla) by (okinj X). clear X. subst bytes.
        unfold du_decode_into, du_decode_gen. cbv zeta. rewrite !zlen_app. change (zlen (cd_put16 (ty mod 65536))) with 2. change (zlen [0;0]) with 2.
        destruct (2 + (2 + zlen lla) <? 2) eqn:C; [lia|]. rewrite (du_rd16_put ty ([0;0] ++ lla)) by lia. cbn [du_bind].
        rewrite T1, T2, T3. cbn [orb].
        destruct (2 + (2 + zlen lla) <? 4) eqn:D; [lia|].
        rewrite !cd_slc_ok by (rewrite ?zlen_app; change (zlen (cd_put16 (ty mod 65536))) with 2; change (zlen [0;0]) with 2; lia). cbn [du_bind].
        rewrite (app_assoc (cd_put16 (ty mod 65536)) [0;0] lla).
        rewrite (slice_to_end (cd_put16 (ty mod 65536) ++ [0;0]) lla) by (try reflexivity; unfold zlen; rewrite ?app_length; cbn [length cd_put16]; lia). reflexivity.
Qed.
Print Assumptions C06_dhcp6duid_roundtrip.

Example Ldhcp6duid_nonvacuous :
  let l := mkDu 1 [0;1] [] [9;9;9;9] [1;2;3;4;5;6] [] in
  du_wf l /\ du_encode l = Ok [0;1;0;1;9;9;9;9;1;2;3;4;5;6] /\ du_decode_into du_fresh [0;1;0;1;9;9;9;9;1;2;3;4;5;6] = (l, Ok tt, false) /\
  snd (fst (du_decode_into l [0;1;0;1;9])) = Err 3 /\ du_encode (mkDu 70000 [1;2;3] [] [] [5] []) = Ok [17;112;0;0;5].
Proof. split; [unfold du_wf; cbn; repeat split; try lia; intros; try discriminate; try lia|]. repeat split; vm_compute; reflexivity. Qed.
