(* Lague1 — AGUE variant 1 pseudo-header (layers/ague_var1.go) and the AGUE dispatcher decodeAGUE:
   contributions to C19, C05, C06, C07, C01. *)
From GP Require Import Base ListX Codec MiscLib LagueModel Lague1Model.
From Coq Require Import Lia ZifyBool ZifyNat.
Open Scope Z_scope.
Ltac Zify.zify_post_hook ::= Z.div_mod_to_equations.

Theorem C19_ague1_no_panic : forall old data, is_panic (snd (fst (a1_decode_into old data))) = false.
Proof.
  intros old data. unfold a1_decode_into. destruct (zlen data <? 1) eqn:Hn; [reflexivity|].
  rewrite cd_idx_ok by lia. cbn [ml_bind]. cbv zeta. repeat match goal with |- context [if ?c then _ else _] => destruct c end; reflexivity.
Qed.
Print Assumptions C19_ague1_no_panic.

Lemma ag_decode_no_panic old data : is_panic (snd (fst (ag_decode_into old data))) = false.
Proof.
  unfold ag_decode_into. cbv zeta. destruct (zlen data <? 4) eqn:Hn; [reflexivity|].
  rewrite !cd_idx_ok by lia. cbn [ml_bind].
  match goal with |- context [if zlen data <? 4 + ?h then _ else _] => destruct (zlen data <? 4 + h) eqn:C1 end; [reflexivity|].
  rewrite !cd_slc_ok by lia. reflexivity.
Qed.

(* the registered decoder of both AGUE layer types: no panic on any byte string; a layer is added exactly when it returns
   nil, and then a next decoder is requested; the truncated flag is never set (NilDecodeFeedback) *)
Theorem C19_ague_decoder_no_panic : forall data,
  let '(variant, l0, l1, nx, o, tr) := ag_decode_fn data in
  is_panic o = false /\ (variant <> 0 <-> o = Ok tt) /\ (o = Ok tt -> nx <> None) /\ tr = false.
Proof.
  intros data. unfold ag_decode_fn. destruct (zlen data =? 0) eqn:Hn; [repeat split; intros; try discriminate; congruence|].
  pose proof (zlen_nonneg data). rewrite cd_idx_ok by lia.
  destruct (nth (Z.to_nat 0) data 0 / 64 =? 1).
  - pose proof (C19_ague1_no_panic a1_fresh data) as P. destruct (a1_decode_into a1_fresh data) as [[l o] tr]. cbn [fst snd] in P.
    destruct o as [[]|e|s]; repeat split; intros; try discriminate; try congruence; try lia.
  - pose proof (ag_decode_no_panic ag_fresh data) as P. destruct (ag_decode_into ag_fresh data) as [[l o] tr]. cbn [fst snd] in P.
    destruct o as [[]|e|s]; repeat split; intros; try discriminate; try congruence; try lia.
Qed.
Print Assumptions C19_ague_decoder_no_panic.

Theorem C05_ague1_fresh : forall old data,
  let r1 := a1_decode_into old data in
  let r2 := a1_decode_into a1_fresh data in
  snd (fst r1) = snd (fst r2) /\ snd r1 = snd r2 /\
  (snd (fst r1) = Ok tt -> fst (fst r1) = fst (fst r2)).
Proof.
  intros old data. cbv zeta. unfold a1_decode_into. destruct (zlen data <? 1); [cbn [fst snd]; repeat split; intros X; discriminate X|].
  destruct (cd_idx data 0) as [b0|e|s]; cbn [ml_bind]; cbv zeta; [|cbn [fst snd]; repeat split; intros X; discriminate X..].
  repeat match goal with |- context [if ?c then _ else _] => destruct c end; cbn [fst snd]; repeat split; intros X; discriminate X.
Qed.
Print Assumptions C05_ague1_fresh.

Theorem C07_ague1_no_panic : forall l payload fixl csum junk, is_panic (fst (a1_serialize l payload fixl csum junk)) = false.
Proof. reflexivity. Qed.
Theorem C07_ague1_junk_free : forall l payload fixl csum junk1 junk2,
  a1_serialize l payload fixl csum junk1 = a1_serialize l payload fixl csum junk2.
Proof. reflexivity. Qed.

(* C06: the header has no octets, so the layer round-trips exactly when its Protocol is the one the payload announces:
   IPv4 (4) over a payload whose first nibble is 4, IPv6 (41) over one whose first nibble is 6 *)
Definition a1_wf (l : ague1) (payload : list Z) : Prop :=
  exists b t, payload = b :: t /\ 0 <= b < 256 /\ ((a1_proto l = 4 /\ b / 16 = 4) \/ (a1_proto l = 41 /\ b / 16 = 6)).

Theorem C06_ague1_roundtrip : forall l payload fixl csum junk bytes l' old,
  a1_wf l payload -> a1_serialize l payload fixl csum junk = (Ok bytes, l') ->
  l' = l /\ bytes = payload /\ a1_decode_into old bytes = (mkA1 (a1_proto l) payload, Ok tt, false).
Proof.
  intros l payload fixl csum junk bytes l' old [b [t [E [Hb Hp]]]] X. unfold a1_serialize in X.
  assert (E1 : bytes = payload) by congruence. assert (E2 : l' = l) by congruence. subst bytes l' payload.
  split; [reflexivity|]. split; [reflexivity|]. unfold a1_decode_into. rewrite zlen_cons. pose proof (zlen_nonneg t).
  destruct (1 + zlen t <? 1) eqn:C; [lia|]. rewrite cd_idx_ok by (rewrite zlen_cons; lia). cbn [ml_bind nth Z.to_nat]. cbv zeta.
  destruct Hp as [[P V]|[P V]]; rewrite V, P; reflexivity.
Qed.
Print Assumptions C06_ague1_roundtrip.

(* outside that domain the statement fails: an IPv4 pseudo-header over an IPv6 payload comes back as IPv6 *)
Theorem C06_ague1_mismatch_refuted :
  a1_proto (fst (fst (a1_decode_into a1_fresh (match fst (a1_serialize (mkA1 4 []) [96;0] true true []) with Ok b => b | _ => [] end)))) = 41.
Proof. vm_compute. reflexivity. Qed.

Theorem C01_ague1_render_total : forall old data, a1_render_panics (fst (fst (a1_decode_into old data))) = false.
Proof. reflexivity. Qed.

Example Lague1_nonvacuous :
  a1_wf (mkA1 41 []) [96;1;2] /\ ag_decode_fn [96;1;2] = (2, ag_fresh, mkA1 41 [96;1;2], Some 41, Ok tt, false) /\
  ag_decode_fn [32;4;0;0;69] = (1, mkAg 0 true 4 0 [] [69], a1_fresh, Some 4, Ok tt, false).
Proof. split; [exists 96, [1;2]; repeat split; try lia; right; split; reflexivity|]. split; vm_compute; reflexivity. Qed.
