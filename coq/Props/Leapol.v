(* Leapol — EAPOL header codec (layers/eapol.go:28-58): contributions to C19, C05, C06, C07, C01. *)
From GP Require Import Base Codec MiscLib LeapolModel LeapolProofs.
Open Scope Z_scope.

Theorem C19_eapol_no_panic : forall old data, is_panic (snd (fst (ea_decode_into old data))) = false.
Proof. exact ea_decode_no_panic. Qed.
Print Assumptions C19_eapol_no_panic.

Theorem C05_eapol_fresh : forall old data,
  let r1 := ea_decode_into old data in
  let r2 := ea_decode_into ea_fresh data in
  snd (fst r1) = snd (fst r2) /\ snd r1 = snd r2 /\
  (snd (fst r1) = Ok tt -> fst (fst r1) = fst (fst r2)).
Proof. exact ea_decode_fresh. Qed.
Print Assumptions C05_eapol_fresh.

(* C06: 8-bit version and type, 16-bit length (written as it is; SerializeTo has no FixLengths) *)
Theorem C06_eapol_roundtrip : forall l payload fixl csum junk bytes l' old,
  ea_wf l -> ea_serialize l payload fixl csum junk = (Ok bytes, l') ->
  l' = l /\ bytes = ea_hdr l ++ payload /\
  ea_decode_into old bytes = (mkEa (ea_hdr l) payload (ea_version l) (ea_type l) (ea_length l), Ok tt, false).
Proof. exact ea_roundtrip. Qed.
Print Assumptions C06_eapol_roundtrip.

Theorem C06_eapol_decoded_wf : forall old data l tr, bytes_ok data ->
  ea_decode_into old data = (l, Ok tt, tr) -> ea_wf l.
Proof. exact ea_decoded_wf. Qed.
Print Assumptions C06_eapol_decoded_wf.

Theorem C07_eapol_no_panic : forall l payload fixl csum junk,
  is_panic (fst (ea_serialize l payload fixl csum junk)) = false.
Proof. exact ea_serialize_no_panic. Qed.
Print Assumptions C07_eapol_no_panic.

Theorem C07_eapol_junk_free : forall l payload fixl csum junk1 junk2,
  ea_serialize l payload fixl csum junk1 = ea_serialize l payload fixl csum junk2.
Proof. exact ea_serialize_junk_free. Qed.
Print Assumptions C07_eapol_junk_free.

(* C01: no String method, no flow accessor: reflective renderers only *)
Theorem C01_eapol_render_total : forall old data, ea_render_panics (fst (fst (ea_decode_into old data))) = false.
Proof. reflexivity. Qed.

Example Leapol_nonvacuous :
  let l := mkEa [] [] 2 3 95 in
  ea_wf l /\ ea_serialize l [2] true true [9;9;9;9] = (Ok [2;3;0;95;2], l).
Proof. split; [unfold ea_wf; cbn; lia|vm_compute; reflexivity]. Qed.
