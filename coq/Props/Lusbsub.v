(* Lusbsub — USBControl / USBInterrupt / USBBulk (layers/usb.go): contributions to C19, C05, C01.  No SerializeTo: C06/C07 n/a. *)
From GP Require Import Base ListX Codec MiscLib LusbsubModel.
From Coq Require Import Lia.
Open Scope Z_scope.

Theorem C19_usbsub_no_panic : forall kind old data, is_panic (snd (fst (ub_decode_into kind old data))) = false.
Proof. reflexivity. Qed.
Print Assumptions C19_usbsub_no_panic.

(* never an error, never truncated, Contents is the whole input *)
Theorem C19_usbsub_total : forall kind old data,
  snd (fst (ub_decode_into kind old data)) = Ok tt /\ snd (ub_decode_into kind old data) = false /\
  ub_contents (fst (fst (ub_decode_into kind old data))) = data.
Proof. intros. repeat split. Qed.
Print Assumptions C19_usbsub_total.

Lemma ub_reach_payload kind : forall inputs l, ub_payload l = [] ->
  ub_payload (fold_left (fun l d => fst (fst (ub_decode_into kind l d))) inputs l) = [].
Proof. induction inputs as [|d r IH]; intros l H; [exact H|]. cbn [fold_left]. apply IH. exact H. Qed.

(* decoding into an object that was only ever decoded into = decoding into a fresh one *)
Theorem C05_usbsub_fresh : forall kind inputs data,
  ub_decode_into kind (ub_reach kind inputs) data = ub_decode_into kind ub_fresh data.
Proof.
  intros kind inputs data. unfold ub_decode_into. unfold ub_reach. rewrite (ub_reach_payload kind inputs ub_fresh eq_refl). reflexivity.
Qed.
Print Assumptions C05_usbsub_fresh.

(* the statement over ALL receiver values is false: DecodeFromBytes does not assign Payload, so an object whose public
   BaseLayer.Payload was set by hand keeps it (not reachable by decoding; recorded, not repaired) *)
Definition C05_usbsub_fresh_all_statement : Prop := forall kind old data, ub_decode_into kind old data = ub_decode_into kind ub_fresh data.
Theorem C05_usbsub_fresh_all_refuted : ~ C05_usbsub_fresh_all_statement.
Proof. intros H. specialize (H 0 (mkUb [] [1]) []). discriminate H. Qed.
Print Assumptions C05_usbsub_fresh_all_refuted.

Theorem C01_usbsub_render_total : forall kind old data, ub_render_panics (fst (fst (ub_decode_into kind old data))) = false.
Proof. reflexivity. Qed.
Print Assumptions C01_usbsub_render_total.

Example Lusbsub_nonvacuous :
  ub_decode_into 2 (ub_reach 2 [[1;2];[3]]) [7;8;9] = (mkUb [7;8;9] [], Ok tt, false) /\ ub_reach 1 [[1;2];[3]] = mkUb [3] [].
Proof. split; reflexivity. Qed.

(* the registered decoder functions never fail: the layer is always added, with the whole input as Contents *)
Theorem C19_usbsub_decoder_fn : forall kind data, ub_decode_fn kind data = (mkUb data [], true, Some 0, Ok tt, false).
Proof. reflexivity. Qed.
Print Assumptions C19_usbsub_decoder_fn.
