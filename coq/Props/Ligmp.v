(* Ligmp — IGMP decoders (layers/igmp.go: IGMP for v3 messages, IGMPv1or2): contributions to C19, C05, C01.
   Neither type has SerializeTo, so C06 and C07 do not apply. *)
From GP Require Import Base ListX Codec MiscLib LigmpModel.
From Coq Require Import Lia ZifyBool ZifyNat.
Open Scope Z_scope.
Ltac Zify.zify_post_hook ::= Z.div_mod_to_equations.

Lemma ig_addrs_ok : forall k data off, 0 <= off -> off + 4 * Z.of_nat k <= zlen data ->
  exists r, ig_addrs k data off = Ok r.
Proof.
  induction k as [|k IH]; intros data off H0 H1; cbn [ig_addrs]; [eexists; reflexivity|].
  rewrite cd_slc_ok by lia. cbn [obind]. destruct (IH data (off + 4) ltac:(lia) ltac:(lia)) as [r E]. rewrite E. eexists; reflexivity.
Qed.

Lemma ig_records_no_panic : forall k data off acc, bytes_ok data -> 0 <= off ->
  is_panic (snd (ig_records k data off acc)) = false.
Proof.
  induction k as [|k IH]; intros data off acc Hb H0; cbn [ig_records]; [reflexivity|].
  destruct (zlen data <? off + 8) eqn:C; [reflexivity|].
  rewrite !cd_idx_ok by lia. rewrite cd_rd16_ok by lia. rewrite cd_slc_ok by lia. cbn [obind].
  pose proof (bytes_ok_nth data (Z.to_nat (off + 2)) Hb) as B1. pose proof (bytes_ok_nth data (Z.to_nat (off + 2 + 1)) Hb) as B2.
  set (ns := nth (Z.to_nat (off + 2)) data 0 * 256 + nth (Z.to_nat (off + 2 + 1)) data 0) in *.
  destruct (zlen data <? off + 8 + ns * 4) eqn:C2; [reflexivity|].
  destruct (ig_addrs_ok (Z.to_nat ns) data (off + 8) ltac:(lia) ltac:(lia)) as [r E]. rewrite E.
  apply IH; [exact Hb|lia].
Qed.

Lemma ig_query_no_panic l data : bytes_ok data -> is_panic (snd (ig_query l data)) = false.
Proof.
  intros Hb. unfold ig_query. cbv zeta. destruct (zlen data <? 12) eqn:C; [reflexivity|].
  rewrite !cd_idx_ok by lia. rewrite !cd_rd16_ok by lia. rewrite cd_slc_ok by lia. cbn [obind].
  pose proof (bytes_ok_nth data (Z.to_nat 10) Hb) as B1. pose proof (bytes_ok_nth data (Z.to_nat (10 + 1)) Hb) as B2.
  set (ns := nth (Z.to_nat 10) data 0 * 256 + nth (Z.to_nat (10 + 1)) data 0) in *.
  destruct (zlen data <? 12 + ns * 4) eqn:C2; [reflexivity|].
  destruct (ig_addrs_ok (Z.to_nat ns) data 12 ltac:(lia) ltac:(lia)) as [r E]. rewrite E. reflexivity.
Qed.

Lemma ig_report_no_panic l data : bytes_ok data -> is_panic (snd (ig_report l data)) = false.
Proof.
  intros Hb. unfold ig_report. cbv zeta. destruct (zlen data <? 8) eqn:C; [reflexivity|].
  rewrite !cd_rd16_ok by lia. cbn [obind].
  pose proof (ig_records_no_panic (Z.to_nat (nth (Z.to_nat 6) data 0 * 256 + nth (Z.to_nat (6 + 1)) data 0)) data 8 (ig_grecs l) Hb ltac:(lia)) as P.
  destruct (ig_records _ data 8 (ig_grecs l)) as [recs o]. exact P.
Qed.

Theorem C19_igmp_no_panic : forall orig old data, bytes_ok data ->
  is_panic (snd (fst (ig_decode_gen orig old data))) = false.
Proof.
  intros orig old data Hb. unfold ig_decode_gen. cbv zeta. destruct (zlen data <? 1) eqn:C; [reflexivity|].
  rewrite cd_idx_ok by lia. cbn [ml_bind].
  destruct (nth (Z.to_nat 0) data 0 =? 17).
  - match goal with |- context [ig_query ?l data] => pose proof (ig_query_no_panic l data Hb) as P; destruct (ig_query l data) as [l' [u|e|s]] end;
      cbn [snd] in P; [reflexivity|destruct orig; reflexivity|discriminate].
  - destruct (nth (Z.to_nat 0) data 0 =? 34); [|reflexivity].
    match goal with |- context [ig_report ?l data] => pose proof (ig_report_no_panic l data Hb) as P; destruct (ig_report l data) as [l' [u|e|s]] end;
      cbn [snd] in P; [reflexivity|destruct orig; reflexivity|discriminate].
Qed.
Print Assumptions C19_igmp_no_panic.

Theorem C19_igmp12_no_panic : forall old data, is_panic (snd (fst (i12_decode_into old data))) = false.
Proof.
  intros old data. unfold i12_decode_into. destruct (zlen data <? 8) eqn:C; [reflexivity|].
  rewrite !cd_idx_ok by lia. rewrite cd_rd16_ok by lia. rewrite cd_slc_ok by lia. reflexivity.
Qed.
Print Assumptions C19_igmp12_no_panic.

Theorem C19_igmp_dispatch_no_panic : forall data, is_panic (ig_dispatch data) = false.
Proof.
  intros data. unfold ig_dispatch. destruct (zlen data <? 1) eqn:C; [reflexivity|]. rewrite cd_idx_ok by lia. cbn [obind].
  repeat match goal with |- context [if ?c then _ else _] => destruct c eqn:? end; try reflexivity.
  rewrite cd_idx_ok by lia. cbn [obind]. destruct (_ =? 0); reflexivity.
Qed.
Print Assumptions C19_igmp_dispatch_no_panic.

(* C05 (repaired): the layer is reset, keeping only Version, which DecodeFromBytes never assigns — so
   the result depends on the old object through Version alone.  Stated against a fresh object
   carrying the same Version: identical in every outcome, also on error returns. *)
Theorem C05_igmp_fresh : forall old data,
  ig_decode_into old data = ig_decode_into (mkIg [] [] 0 0 0 [] false 0 0 [] 0 0 [] (ig_version old)) data \/
  (zlen data < 1 /\ snd (fst (ig_decode_into old data)) = Err 1).
Proof.
  intros old data. unfold ig_decode_into, ig_decode_gen. cbv zeta. destruct (zlen data <? 1) eqn:C; [right; split; [lia|reflexivity]|].
  left. rewrite cd_idx_ok by lia. reflexivity.
Qed.
Print Assumptions C05_igmp_fresh.

(* before the repair a reused object accumulated the source addresses of earlier queries *)
Theorem C05_igmp_orig_refuted : exists a b l1 l2,
  ig_decode_orig ig_fresh a = (l1, Ok tt, false) /\
  ig_decode_orig l1 b = (l2, Ok tt, false) /\
  fst (fst (ig_decode_orig ig_fresh b)) <> l2 /\ length (ig_srcs l2) = 2%nat.
Proof.
  exists [17;10;0;0;224;0;0;1;2;125;0;1;10;0;0;1], [17;10;0;0;224;0;0;1;2;125;0;1;10;0;0;2].
  eexists. eexists. split; [vm_compute; reflexivity|]. split; [vm_compute; reflexivity|]. split; [vm_compute; discriminate|reflexivity].
Qed.
Print Assumptions C05_igmp_orig_refuted.

(* ... and reported success for a query cut inside its address list (C01: the truth about errors) *)
Theorem C01_igmp_orig_swallows_error :
  snd (fst (ig_decode_orig ig_fresh [17;10;0;0;224;0;0;1;2;125;0;2;10;0;0;1])) = Ok tt /\
  ig_decode_into ig_fresh [17;10;0;0;224;0;0;1;2;125;0;2;10;0;0;1] =
    (mkIg [] [] 17 1000000000 0 [224;0;0;1] false 2 12500000000 [] 0 2 [] 0, Err 2, true).
Proof. split; vm_compute; reflexivity. Qed.

Ltac istep :=
  match goal with
  | |- context [ml_bind ?o _ _ _] => destruct o eqn:?; cbn [ml_bind]
  | |- context [if ?c then _ else _] => destruct c eqn:?
  end.

Theorem C05_igmp12_fresh : forall old data,
  let r1 := i12_decode_into old data in
  let r2 := i12_decode_into (mkI12 [] [] 0 0 0 [] (i12_version old)) data in
  snd (fst r1) = snd (fst r2) /\ snd r1 = snd r2 /\
  (snd (fst r1) = Ok tt -> i12_type (fst (fst r1)) = i12_type (fst (fst r2)) /\ i12_maxresp (fst (fst r1)) = i12_maxresp (fst (fst r2)) /\
     i12_csum (fst (fst r1)) = i12_csum (fst (fst r2)) /\ i12_group (fst (fst r1)) = i12_group (fst (fst r2)) /\
     i12_version (fst (fst r1)) = i12_version (fst (fst r2))).
Proof.
  intros old data. cbv zeta. unfold i12_decode_into.
  repeat (istep; try solve [cbn [fst snd]; split; [reflexivity | split; [reflexivity | try (intros X; discriminate X); try (intros _; repeat split; reflexivity)]]]).
  all: try (cbn [fst snd]; split; [reflexivity | split; [reflexivity | intros _; repeat split; reflexivity]]).
Qed.
Print Assumptions C05_igmp12_fresh.

Theorem C01_igmp_render_total : forall orig old data, ig_render_panics (fst (fst (ig_decode_gen orig old data))) = false.
Proof. reflexivity. Qed.
Theorem C01_igmp12_render_total : forall old data, i12_render_panics (fst (fst (i12_decode_into old data))) = false.
Proof. reflexivity. Qed.

Example Ligmp_nonvacuous :
  ig_decode_into ig_fresh [34;0;0;0;0;0;0;1;4;0;0;1;239;1;1;1;10;0;0;9] =
    (mkIg [] [] 34 0 0 [] false 0 0 [] 1 0 [mkGr 4 0 1 [239;1;1;1] [[10;0;0;9]]] 0, Ok tt, false) /\
  igmp_time 10 = 1000000000 /\ igmp_time 144 = 13600000000 /\ igmp_time 255 = 0 /\
  ig_dispatch [17;0;0;0;0;0;0;0] = Ok 1 /\ ig_dispatch [17;0;0;0;0;0;0;0;0] = Ok 0.
Proof. repeat split; vm_compute; reflexivity. Qed.
