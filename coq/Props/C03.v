(* C03 — lazy decoding is observationally equivalent to eager decoding.
   Property theorems only; each is closed by lemmas of Proofs/PacketCoreProofs.v.

   Model: Model/PacketCore.v (packet.go:131-260, 494-671, 725-769), parametric in the
   decoder family.  Reading guide:
     new_eager n fam data first o   NewPacket with Lazy=false; n bounds the recursion depth
                                    (NewFuel = the Go recursion would not have stopped there)
     new_lazy data first o          NewPacket with Lazy=true
     lazy_program (S n) ...         a sequence of accessor calls on the lazy packet; None = a
                                    loop ran out of fuel; results as `aresult` (layers compared
                                    by their records; String/Dump by the values they render)
     eager_program pe prog          the same calls on the eager packet (pure)
   Side conditions, explicit:
     F6 fam        a decoder that calls NextDecoder has called AddLayer first (source fact F6)
     data <> []    NewPacket on empty input decodes eagerly but not lazily
     the tail-call shape of decoders (F1) is built into the type `decoder`
     the decoders see the same option record in both runs (C03_equiv), or do not read the
     Lazy/NoCopy/Pool bits (C03_equiv_options; source fact F7: layers/ reads only
     DecodeStreamsAsDatagrams). *)
From GP Require Import Base PacketCore PacketScript PacketCoreProofs PacketScriptProofs PacketCoreThms.
Open Scope Z_scope.

(* Every accessor program returns on the lazy packet, call by call, what it returns on the
   eager packet of the same bytes; no lazy loop runs longer than the eager recursion was deep
   (+1); once Layers()/String()/Dump() has been called the whole packet state (layers, the
   five kind pointers, truncated flag) is the eager packet's. *)
Theorem C03_equiv : forall fam n data first o prog pe,
  F6 fam -> data <> [] ->
  new_eager n fam data first o = NewOk pe ->
  exists lp,
    lazy_program (S n) fam (new_lazy data first o) prog = Some (lp, eager_program pe prog) /\
    (existsb forces_all prog = true -> lp_next lp = None /\ lp_p lp = pe).
Proof. exact thm_C03_equiv. Qed.
Print Assumptions C03_equiv.

(* The invariant behind it (DESIGN.md A.6), usable from any reachable lazy state: continuing
   eagerly from the lazy state yields the eager packet; then the lazy layers are a prefix of
   the eager layers, every kind pointer already set is the eager one, truncated implies
   truncated, and next = None means the states are equal. *)
Theorem C03_invariant : forall fam n lp pe,
  CInv n fam lp pe ->
  ext (lp_p lp) pe /\ (lp_next lp = None -> lp_p lp = pe).
Proof. exact thm_C03_invariant. Qed.
Print Assumptions C03_invariant.

Theorem C03_invariant_step : forall fam n lp pe a,
  F6 fam -> CInv n fam lp pe ->
  exists lp', lazy_access (S n) fam lp a = Some (lp', eager_access pe a) /\ CInv n fam lp' pe.
Proof. exact thm_C03_invariant_step. Qed.
Print Assumptions C03_invariant_step.

(* Different option sets on the two sides: eager packet built with oe, lazy packet with ol,
   any Lazy/NoCopy/Pool bits on either side, same DecodeStreamsAsDatagrams and
   SkipDecodeRecovery; decoders that do not read the three bits. *)
Theorem C03_equiv_options : forall fam n data first oe ol prog pe,
  F6 fam -> opts_blind fam -> data <> [] -> same_decoder_view oe ol ->
  new_eager n fam data first oe = NewOk pe ->
  exists lp,
    lazy_program (S n) fam (new_lazy data first ol) prog = Some (lp, eager_program pe prog) /\
    (existsb forces_all prog = true ->
       lp_next lp = None /\ lp_p lp = reopt ol (new_packet_origin ol data) pe).
Proof. exact thm_C03_equiv_options. Qed.
Print Assumptions C03_equiv_options.

(* reopt changes nothing an accessor can see *)
Theorem C03_reopt_invisible : forall o org p a, eager_access (reopt o org p) a = eager_access p a.
Proof. exact thm_C03_reopt_invisible. Qed.
Print Assumptions C03_reopt_invisible.

(* With the progress hypothesis (a decoder that continues hands on a strictly shorter
   payload) and recovery on, nothing is left to assume about fuel: both packets exist and
   agree, with depth bound |data|+1. *)
Theorem C03_equiv_total : forall fam data first o prog,
  progress fam -> o_skiprec o = false -> data <> [] ->
  exists pe lp,
    new_eager (S (length data)) fam data first o = NewOk pe /\
    lazy_program (S (S (length data))) fam (new_lazy data first o) prog = Some (lp, eager_program pe prog).
Proof. exact thm_C03_equiv_total. Qed.
Print Assumptions C03_equiv_total.

(* The same statement about the functions the correspondence runner executes
   (new_packet / run_program): one observation per call, none out of fuel. *)
Theorem C03_runner : forall fam n data first o prog pe,
  F6 fam -> data <> [] -> o_lazy o = true ->
  new_eager n fam data first o = NewOk pe ->
  exists lp,
    new_packet (S n) fam data first o = NewOk (PLazy (new_lazy data first o)) /\
    run_program (S n) fam (PLazy (new_lazy data first o)) prog = (PLazy lp, map Some (eager_program pe prog)) /\
    run_program (S n) fam (PEager pe) prog = (PEager pe, map Some (eager_program pe prog)).
Proof. exact thm_C03_runner. Qed.
Print Assumptions C03_runner.

(* The scripted families the correspondence executes: the decidable check the runner evaluates
   per case (tag hyp-F6) implies F6; every scripted family is blind to Lazy/NoCopy/Pool. *)
Theorem C03_scripted_families : forall tbl,
  (table_F6b tbl = true -> F6 (family_of tbl)) /\ opts_blind (family_of tbl).
Proof. exact thm_C03_scripted_families. Qed.
Print Assumptions C03_scripted_families.

Theorem C03_without_F6_refuted :
  exists tbl data first o pe lp rs,
    new_eager 10 (family_of tbl) data first o = NewOk pe /\
    lazy_program 11 (family_of tbl) (new_lazy data first o) [AErrorLayer] = Some (lp, rs) /\
    rs <> eager_program pe [AErrorLayer].
Proof. exact thm_C03_without_F6_refuted. Qed.
Print Assumptions C03_without_F6_refuted.

(* empty input: eager calls the first decoder (here it fails), lazy never does *)
Theorem C03_empty_input_refuted :
  exists tbl first o pe lp rs,
    new_eager 10 (family_of tbl) [] first o = NewOk pe /\
    lazy_program 11 (family_of tbl) (new_lazy [] first o) [ALayers] = Some (lp, rs) /\
    rs <> eager_program pe [ALayers].
Proof. exact thm_C03_empty_input_refuted. Qed.
Print Assumptions C03_empty_input_refuted.

Example C03_nonvacuous :
  progress ex_fam /\ F6 ex_fam /\ opts_blind ex_fam /\
  exists pe lp1 lp2,
    new_eager 5 ex_fam [7;8;9;10] 10 (mkOpts false false false false false) = NewOk pe /\
    length (p_layers pe) = 4%nat /\ p_trunc pe = true /\
    (* LinkLayer() on the lazy packet decodes one layer only and leaves the continuation *)
    lazy_program 6 ex_fam (new_lazy [7;8;9;10] 10 (mkOpts true true false false false)) [ALinkLayer]
      = Some (lp1, eager_program pe [ALinkLayer]) /\
    lp_next lp1 = Some 11 /\ length (p_layers (lp_p lp1)) = 1%nat /\ p_trunc (lp_p lp1) = false /\
    (* a longer program ending in Layers() reaches the eager state, panic recovered *)
    lazy_program 6 ex_fam (new_lazy [7;8;9;10] 10 (mkOpts true true false false false))
      [ALinkLayer; ALayer 12; AErrorLayer; ALayerClass [1; 12]; AString; ALayers]
      = Some (lp2, eager_program pe [ALinkLayer; ALayer 12; AErrorLayer; ALayerClass [1; 12]; AString; ALayers]) /\
    p_trunc (lp_p lp2) = true /\ p_layers (lp_p lp2) = p_layers pe.
Proof. exact thm_C03_nonvacuous. Qed.
Print Assumptions C03_nonvacuous.
