(* C10 — placeholder until the proofs land (step 2). *)
From GP Require Import Base C10Model.
