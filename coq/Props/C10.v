(* C10 — tcpassembly: the bytes of one direction are delivered in order, exactly once,
   gaps announced.  Property theorems only; each is closed by a lemma of
   Proofs/C10Arith.v / Proofs/C10Proofs.v about the executable model Model/C10Model.v
   (a transcription of tcpassembly/assembly.go, with the late-SYN repair, for one
   connection key).

   Vocabulary (Proofs/C10Proofs.v):
     sq i o            sequence number of stream offset o for initial sequence number i
     sub S o n         the slice S[o, o+n) of the sender's stream
     op_ok i S op      a segment consistent with (i,S): the SYN is (seq = i, S[0,n)), any other
                       segment is (seq = sq i o, S[o,o+n)); flushes are unconstrained
     chunk S p r p'    the element r handed to the stream is right at absolute position p:
                       Start: p = None, Skip = 0, bytes = S[0,len), p' = len;
                       Skip = -1: p = None (nothing delivered before on this stream) and the
                         bytes are S[o,o+len) for some o, p' = o+len;
                       otherwise p = Some a, Skip >= 0, bytes = S[a+Skip, a+Skip+len), p' = a+Skip+len
     trace_ok S nolimit p l   for every step of the history l: no panic; elements satisfy chunk
                       in order, the position restarting at None after ReassemblyComplete;
                       and when no page limit is set every Assemble step delivers Skip = 0 only *)
From GP Require Import Base C10Model C10Arith C10Proofs.
From Coq Require Import Sorted Lia ZifyBool.
Open Scope Z_scope.

(* ---- Sequence arithmetic ------------------------------------------------------------ *)

(* Difference is exact offset subtraction inside a window of 2^30, wherever s lies in the
   32-bit space (including across the wrap and the three quarter boundaries). *)
Theorem C10_diff_window : forall s d,
  0 <= s < 4294967296 -> - 1073741824 < d < 1073741824 ->
  difference s ((s + d) mod 4294967296) = d.
Proof. exact diff_window. Qed.
Print Assumptions C10_diff_window.

Theorem C10_diff_antisym : forall s t, difference s t = - difference t s.
Proof. exact diff_antisym. Qed.

Theorem C10_add_mod : forall s t, seq_add s t = (s + t) mod 4294967296.
Proof. exact seq_add_mod. Qed.

Theorem C10_add_add : forall s a b, seq_add (seq_add s a) b = seq_add s (a + b).
Proof. exact seq_add_add. Qed.

Theorem C10_add_range : forall s t, 0 <= seq_add s t < 4294967296.
Proof. exact seq_add_range. Qed.

(* the int64 computations of Difference cannot overflow on uint32 operands or invalidSequence *)
Theorem C10_no_int64_overflow : forall s t, -1 <= s < 4294967296 -> -1 <= t < 4294967296 ->
  - 8589934592 < difference s t < 8589934592.
Proof. exact diff_bound. Qed.
Print Assumptions C10_no_int64_overflow.

(* ---- byteSpan ------------------------------------------------------------------------ *)
(* With the stream position at offset a and data S[o,o+n) within 2^30 of it, byteSpan returns
   exactly the part at or after a, and the new position max a (o+n), as sequence numbers. *)
Theorem C10_byteSpan : forall i S a o n,
  0 <= o -> 0 <= n -> o + n <= lenZ S -> 0 <= a -> - 1073741824 < a - o < 1073741824 ->
  byte_span (sq i a) (sq i o) (sub S o n) =
    if a <=? o then (sub S o n, sq i (o + n))
    else if o + n <? a then ([], sq i a)
    else (sub S a (o + n - a), sq i (o + n)).
Proof. exact byte_span_spec. Qed.
Print Assumptions C10_byteSpan.

(* ---- the in-order path ---------------------------------------------------------------- *)
Theorem C10_inorder_path : forall st c ns fin rst payload ts,
  s_dead st = false -> s_conn st = Some c -> c_queue c = [] -> c_nextSeq c = ns ->
  0 <= ns < 4294967296 -> (payload <> [] \/ fin = true \/ rst = true) ->
  let r := step st (Segment ns false fin rst payload ts) in
  o_calls (snd r) = [[mkR payload 0 false (rst || fin) ts 0]] /\
  o_new (snd r) = false /\ o_panic (snd r) = false /\ o_done (snd r) = (rst || fin) /\
  (if rst || fin then s_conn (fst r) = None
   else exists c', s_conn (fst r) = Some c' /\ c_nextSeq c' = seq_add ns (lenZ payload) /\ c_queue c' = []).
Proof. exact inorder_path. Qed.
Print Assumptions C10_inorder_path.

(* ---- buffered pages -------------------------------------------------------------------- *)
(* pagesFromTCP cuts the payload into pages that together are the payload (the loop's fuel suffices) *)
Theorem C10_pages_cover : forall seq bytes,
  concat (map snd (split_pages (S (length bytes)) seq bytes)) = bytes.
Proof. intros. apply split_pages_concat. apply Nat.lt_succ_diag_r. Qed.

(* traverseConn + pushBetween put new pages at the place that keeps the queue ordered: with the
   queue sorted by offset (all offsets within 2^30), everything before the insertion point is at
   or before the new offset, everything after it strictly after; so inserting a one-page segment
   keeps the queue sorted. *)
Theorem C10_insert_sorted : forall i hi q offs o a b,
  hi < 1073741824 -> Forall2 (at_off i hi) q offs -> StronglySorted Z.le offs -> 0 <= o <= hi ->
  traverse q (sq i o) = (a, b) ->
  exists oa ob, offs = oa ++ ob /\ Forall2 (at_off i hi) a oa /\ Forall2 (at_off i hi) b ob /\
                Forall (fun x => x <= o) oa /\ Forall (fun x => o < x) ob /\
                StronglySorted Z.le (oa ++ o :: ob).
Proof.
  intros i hi q offs o a b Hhi HF HS Ho HT.
  destruct (traverse_sorted i hi Hhi q offs o a b HF HS Ho HT) as (oa & ob & E & Ha & Hb & Hle & Hgt).
  exists oa, ob. repeat split; try assumption. apply insert_one_sorted; [rewrite <- E; exact HS|exact Hle|exact Hgt].
Qed.
Print Assumptions C10_insert_sorted.

(* Appendix A.2 (3) as first written ("queue sorted by offset") does NOT hold once a packet
   spans several pages: the pages of one packet are inserted as a block in front of a page that
   lies between them.  (The stream theorem below does not need sortedness.) *)
Theorem C10_multipage_queue_not_sorted :
  exists ops c, s_conn (fold_left (fun st o => fst (step st o)) ops (init 0 0)) = Some c /\
                map p_seq (c_queue c) = [106; 2006; 111].
Proof.
  exists [Segment 100 true false false [] 1; Segment 111 false false false [1] 2;
          Segment 106 false false false (repeat 7 1901) 3].
  eexists. vm_compute. split; reflexivity.
Qed.

(* ---- the stream theorem ---------------------------------------------------------------- *)
(* PARTIAL with respect to C10_stream_statement below only in the form of the window
   hypothesis: here the whole stream is shorter than 2^30 bytes (so every set of live offsets
   lies in a window < 2^30); the initial sequence number i is arbitrary (wrap and quarter
   boundaries included), as are segmentation, arrival order, duplicates, overlapping
   retransmissions, SYN first/late/absent/with data, FIN/RST anywhere, FlushOlderThan/FlushAll
   interleavings, timestamps and both page limits.  Conclusion: trace_ok (see the header). *)
Theorem C10_stream_partial : forall i S mp mt ops,
  0 <= i < 4294967296 -> lenZ S < 1073741824 -> Forall (op_ok i S) ops ->
  trace_ok S ((mp <=? 0) && (mt <=? 0)) None (outs (init mp mt) ops).
Proof.
  intros i S mp mt ops Hi HS Hops.
  exact (stream_inv i S Hi HS ops (init mp mt) None (init_ok i S mp mt) Hops).
Qed.
Print Assumptions C10_stream_partial.

(* `outs` pairs each operation with the model's output for it *)
Theorem C10_outs_are_the_run : forall st ops, map snd (outs st ops) = map fst (run_trace st ops).
Proof. exact outs_run. Qed.

(* non-vacuity: a consistent history across the wrap with reordering, an overlapping
   retransmission, a multi-page segment cut by the limit, a late SYN and a FIN *)
Example C10_stream_nonvacuous :
  let S := map (fun k => Z.of_nat k mod 251) (seq 0 2000) in
  let i := 4294967290 in
  let ops := [Segment (sq i 10) false false false (sub S 10 5) 1;
              Segment i true false false [] 2;
              Segment (sq i 0) false false false (sub S 0 12) 3;
              Segment (sq i 40) false false false (sub S 40 1950) 4;
              Segment (sq i 15) false false false (sub S 15 20) 5;
              FlushOlderThan 5;
              Segment (sq i 1990) false true false (sub S 1990 10) 6;
              FlushAll] in
  Forall (op_ok i S) ops /\
  map (fun x => map (map (fun r => (r_skip r, lenZ (r_bytes r)))) (o_calls (snd x))) (outs (init 0 3) ops)
  = [[]; [[(0, 0)]]; [[(0, 12); (0, 3)]]; []; [[(0, 20)]]; [[(5, 1900); (0, 50)]]; [[(0, 10)]]; []].
Proof.
  cbv zeta. split.
  - assert (T : forall o seq (payload : list Z) (S : list Z) i fin ts,
        (0 <=? o) && (o + lenZ payload <=? lenZ S) = true -> seq = sq i o -> payload = sub S o (lenZ payload) ->
        op_ok i S (Segment seq false fin false payload ts)).
    { intros o sq0 payload S0 i0 fin ts H1 H2 H3. exists o. apply andb_prop in H1. destruct H1 as [Ha Hb].
      repeat split; try assumption; lia. }
    repeat constructor.
    + apply (T 10); vm_compute; reflexivity.
    + vm_compute; discriminate.
    + apply (T 0); vm_compute; reflexivity.
    + apply (T 40); vm_compute; reflexivity.
    + apply (T 15); vm_compute; reflexivity.
    + apply (T 1990); vm_compute; reflexivity.
  - vm_compute. reflexivity.
Qed.

(* ---- outside the window ---------------------------------------------------------------- *)
(* The hypothesis is necessary: a segment 2^30+20 bytes ahead of the position (sequence numbers
   3*2^30-10 and 10) is taken for old data by the quarter-space comparison and its bytes vanish
   (an empty element, Skip = 0, nothing buffered), whereas 2^30-20 ahead it is buffered and later
   delivered with the exact Skip. *)
Theorem C10_window_necessary :
  let far := [Segment 3221225461 true false false [] 1; Segment 10 false false false [7;8;9] 2; FlushAll] in
  let near := [Segment 3221225461 true false false [] 1; Segment 4294967266 false false false [7;8;9] 2; FlushAll] in
  map (fun x => map (map (fun r => (r_skip r, r_bytes r))) (o_calls (fst x))) (run 0 0 far)
    = [[[(0, [])]]; [[(0, [])]]; []] /\
  map (fun x => map (map (fun r => (r_skip r, r_bytes r))) (o_calls (fst x))) (run 0 0 near)
    = [[[(0, [])]]; []; [[(1073741804, [7;8;9])]]].
Proof. vm_compute. split; reflexivity. Qed.
Print Assumptions C10_window_necessary.
