(* C10 — tcpassembly: the bytes of one direction are delivered in order, exactly once,
   gaps announced.  Property theorems only; each is closed by a lemma of
   Proofs/C10Arith.v / Proofs/C10Proofs.v about the executable model Model/C10Model.v
   (a transcription of tcpassembly/assembly.go, with the late-SYN repair, for one
   connection key).

   Vocabulary (Proofs/C10Proofs.v):
     sq i o            sequence number of stream offset o for initial sequence number i
     sub S o n         the slice S[o, o+n) of the sender's stream
     op_ok i S op      a segment consistent with (i,S): the SYN is (seq = i, S[0,n)), any other
                       segment is (seq = sq i o, S[o,o+n)); flushes are unconstrained
     chunk S p r p'    the element r handed to the stream is right at absolute position p:
                       Start: p = None, Skip = 0, bytes = S[0,len), p' = len;
                       Skip = -1: p = None (nothing delivered before on this stream) and the
                         bytes are S[o,o+len) for some o, p' = o+len;
                       otherwise p = Some a, Skip >= 0, bytes = S[a+Skip, a+Skip+len), p' = a+Skip+len
     trace_ok S nolimit p l   for every step of the history l: no panic; elements satisfy chunk
                       in order, the position restarting at None after ReassemblyComplete;
                       and when no page limit is set every Assemble step delivers Skip = 0 only *)
From GP Require Import Base C10Model C10Arith C10Proofs.
From Coq Require Import Sorted Lia ZifyBool.
Open Scope Z_scope.

(* ---- Sequence arithmetic ------------------------------------------------------------ *)

(* Difference is exact offset subtraction inside a window of 2^30, wherever s lies in the
   32-bit space (including across the wrap and the three quarter boundaries). *)
Theorem C10_diff_window : forall s d,
  0 <= s < 4294967296 -> - 1073741824 < d < 1073741824 ->
  difference s ((s + d) mod 4294967296) = d.
Proof. exact diff_window. Qed.
Print Assumptions C10_diff_window.

Theorem C10_diff_antisym : forall s t, difference s t = - difference t s.
Proof. exact diff_antisym. Qed.

Theorem C10_add_mod : forall s t, seq_add s t = (s + t) mod 4294967296.
Proof. exact seq_add_mod. Qed.

Theorem C10_add_add : forall s a b, seq_add (seq_add s a) b = seq_add s (a + b).
Proof. exact seq_add_add. Qed.

Theorem C10_add_range : forall s t, 0 <= seq_add s t < 4294967296.
Proof. exact seq_add_range. Qed.

(* the int64 computations of Difference cannot overflow on uint32 operands or invalidSequence *)
Theorem C10_no_int64_overflow : forall s t, -1 <= s < 4294967296 -> -1 <= t < 4294967296 ->
  - 8589934592 < difference s t < 8589934592.
Proof. exact diff_bound. Qed.
Print Assumptions C10_no_int64_overflow.

(* ---- byteSpan ------------------------------------------------------------------------ *)
(* With the stream position at offset a and data S[o,o+n) within 2^30 of it, byteSpan returns
   exactly the part at or after a, and the new position max a (o+n), as sequence numbers. *)
Theorem C10_byteSpan : forall i S a o n,
  0 <= o -> 0 <= n -> o + n <= lenZ S -> 0 <= a -> - 1073741824 < a - o < 1073741824 ->
  byte_span (sq i a) (sq i o) (sub S o n) =
    if a <=? o then (sub S o n, sq i (o + n))
    else if o + n <? a then ([], sq i a)
    else (sub S a (o + n - a), sq i (o + n)).
Proof. exact byte_span_spec. Qed.
Print Assumptions C10_byteSpan.

(* ---- the in-order path ---------------------------------------------------------------- *)
Theorem C10_inorder_path : forall st c ns fin rst payload ts goff,
  s_dead st = false -> s_conn st = Some c -> c_queue c = [] -> c_nextSeq c = ns ->
  0 <= ns < 4294967296 -> (payload <> [] \/ fin = true \/ rst = true) ->
  let r := step st (Segment ns false fin rst payload ts goff) in
  o_calls (snd r) = [[mkR payload 0 false (rst || fin) ts 0]] /\
  o_new (snd r) = false /\ o_panic (snd r) = false /\ o_done (snd r) = (rst || fin) /\
  (if rst || fin then s_conn (fst r) = None
   else exists c', s_conn (fst r) = Some c' /\ c_nextSeq c' = seq_add ns (lenZ payload) /\ c_queue c' = []).
Proof. exact inorder_path. Qed.
Print Assumptions C10_inorder_path.

(* ---- buffered pages -------------------------------------------------------------------- *)
(* pagesFromTCP cuts the payload into pages that together are the payload (the loop's fuel suffices) *)
Theorem C10_pages_cover : forall seq bytes,
  concat (map snd (split_pages (S (length bytes)) seq bytes)) = bytes.
Proof. intros. apply split_pages_concat. apply Nat.lt_succ_diag_r. Qed.

(* traverseConn + pushBetween put new pages at the place that keeps the queue ordered: with the
   queue sorted by offset (all offsets within 2^30), everything before the insertion point is at
   or before the new offset, everything after it strictly after; so inserting a one-page segment
   keeps the queue sorted. *)
Theorem C10_insert_sorted : forall i hi q offs o a b,
  hi < 1073741824 -> Forall2 (at_off i hi) q offs -> StronglySorted Z.le offs -> 0 <= o <= hi ->
  traverse q (sq i o) = (a, b) ->
  exists oa ob, offs = oa ++ ob /\ Forall2 (at_off i hi) a oa /\ Forall2 (at_off i hi) b ob /\
                Forall (fun x => x <= o) oa /\ Forall (fun x => o < x) ob /\
                StronglySorted Z.le (oa ++ o :: ob).
Proof.
  intros i hi q offs o a b Hhi HF HS Ho HT.
  destruct (traverse_sorted i hi Hhi q offs o a b HF HS Ho HT) as (oa & ob & E & Ha & Hb & Hle & Hgt).
  exists oa, ob. repeat split; try assumption. apply insert_one_sorted; [rewrite <- E; exact HS|exact Hle|exact Hgt].
Qed.
Print Assumptions C10_insert_sorted.

(* Appendix A.2 (3) as first written ("queue sorted by offset") does NOT hold once a packet
   spans several pages: the pages of one packet are inserted as a block in front of a page that
   lies between them.  (The stream theorem below does not need sortedness.) *)
Theorem C10_multipage_queue_not_sorted :
  exists ops c, s_conn (fold_left (fun st o => fst (step st o)) ops (init 0 0)) = Some c /\
                map p_seq (c_queue c) = [106; 2006; 111].
Proof.
  exists [Segment 100 true false false [] 1 0; Segment 111 false false false [1] 2 10;
          Segment 106 false false false (repeat 7 1901) 3 5].
  eexists. vm_compute. split; reflexivity.
Qed.

(* ---- the stream theorem ---------------------------------------------------------------- *)
(* DESIGN.md section 5, C10_stream.  For every sender stream S (any length, also beyond 2^32),
   every initial sequence number i, every history of operations consistent with (i,S) - any
   segmentation, arrival order, duplicates, overlapping retransmissions, SYN first, late, absent,
   repeated or carrying data, FIN/RST anywhere, any interleaving of FlushOlderThan/FlushAll, any
   timestamps, both page limits - under the window hypothesis W (W_run: before every step the
   live offsets - the delivery point when defined, start and end of every buffered page, start
   and end of the arriving segment - lie in an interval of width < 2^30):
     no step panics (panic("wtf"), the nil dereference of addNextFromConn, a[-1], out of fuel);
     the elements handed to each stream obtained from the factory satisfy `chunk` in order, i.e.
       with P the sum of Skip+len so far, an element's bytes are S[P+Skip, P+Skip+len): nothing
       duplicated, reordered, altered or invented, every gap announced by a Skip of exactly its
       size; Skip = -1 only as the very first element of a stream that never got its SYN, and
       then the bytes are still a true slice of S; Start only on a first element, at offset 0;
     an Assemble step in which no page limit fires delivers only Skip = 0.
   The ghost offsets (Segment's last argument, p_off, c_pos) only serve to state W; the model
   never tests them. *)
Definition C10_stream_statement : Prop := forall i S mp mt ops,
  0 <= i < 4294967296 -> Forall (op_ok i S) ops -> W_run (init mp mt) ops ->
  trace_ok S None (outs (init mp mt) ops).

Theorem C10_stream : C10_stream_statement.
Proof.
  intros i S mp mt ops Hi Hops HW.
  apply (trace_okR_ok S False _ None []).
  apply (stream_invR i S Hi False ops (init mp mt) None []); try assumption.
  - apply init_ok. - constructor. - intros [].
Qed.
Print Assumptions C10_stream.

(* streams shorter than 2^30 bytes need no window hypothesis *)
Theorem C10_stream_short : forall i S mp mt ops,
  0 <= i < 4294967296 -> lenZ S < 1073741824 -> Forall (op_ok i S) ops ->
  trace_ok S None (outs (init mp mt) ops).
Proof.
  intros i S mp mt ops Hi HS Hops. apply (C10_stream i S mp mt ops); try assumption.
  apply (small_W_run i S Hi False ops HS (init mp mt) None []); [apply init_ok|exact Hops|intros []].
Qed.
Print Assumptions C10_stream_short.

(* with no page limit configured no limit fires *)
Theorem C10_no_limit_never_fires : forall st o,
  s_maxPer st <= 0 -> s_maxTotal st <= 0 -> limit_fires st o = false.
Proof. intros st o H1 H2. destruct o; cbn [limit_fires]; try reflexivity. apply limit_cond_off; assumption. Qed.

(* `outs` lists each step of the model's run with its pre-state and operation *)
Theorem C10_outs_are_the_run : forall st ops,
  map (fun x => snd x) (outs st ops) = map fst (run_trace st ops).
Proof. exact outs_run. Qed.

(* non-vacuity: a consistent history across the wrap with reordering, an overlapping
   retransmission, a multi-page segment, an age flush with a gap, a late SYN and a FIN; the
   hypotheses of C10_stream hold for it and the elements delivered are as listed (skip, length) *)
Definition ex_S : list Z := map (fun k => Z.of_nat k mod 251) (seq 0 2000).
Definition ex_i : Z := 4294967290.
Definition ex_ops : list op :=
  [Segment (sq ex_i 10) false false false (sub ex_S 10 5) 1 10;
   Segment ex_i true false false [] 2 0;
   Segment (sq ex_i 0) false false false (sub ex_S 0 12) 3 0;
   Segment (sq ex_i 40) false false false (sub ex_S 40 1950) 4 40;
   Segment (sq ex_i 15) false false false (sub ex_S 15 20) 5 15;
   FlushOlderThan 5;
   Segment (sq ex_i 1990) false true false (sub ex_S 1990 10) 6 1990;
   FlushAll].

Example C10_stream_nonvacuous :
  0 <= ex_i < 4294967296 /\ Forall (op_ok ex_i ex_S) ex_ops /\ W_run (init 0 3) ex_ops /\
  map (fun x => map (map (fun r => (r_skip r, lenZ (r_bytes r)))) (o_calls (snd x))) (outs (init 0 3) ex_ops)
  = [[]; [[(0, 0)]]; [[(0, 12); (0, 3)]]; []; [[(0, 20)]]; [[(5, 1900); (0, 50)]]; [[(0, 10)]]; []].
Proof.
  assert (Hi : 0 <= ex_i < 4294967296) by (unfold ex_i; lia).
  assert (Hops : Forall (op_ok ex_i ex_S) ex_ops).
  { assert (T : forall o seq (payload : list Z) fin ts,
        (0 <=? o) && (o + lenZ payload <=? lenZ ex_S) = true -> seq = sq ex_i o ->
        payload = sub ex_S o (lenZ payload) ->
        op_ok ex_i ex_S (Segment seq false fin false payload ts o)).
    { intros o sq0 payload fin ts H1 H2 H3. apply andb_prop in H1. destruct H1 as [Ha Hb].
      cbn [op_ok]. repeat split; try assumption; lia. }
    unfold ex_ops.
    constructor; [apply (T 10); vm_compute; reflexivity|].
    constructor; [cbn [op_ok]; vm_compute; repeat split; congruence|].
    constructor; [apply (T 0); vm_compute; reflexivity|].
    constructor; [apply (T 40); vm_compute; reflexivity|].
    constructor; [apply (T 15); vm_compute; reflexivity|].
    constructor; [exact I|].
    constructor; [apply (T 1990); vm_compute; reflexivity|].
    constructor; [exact I|constructor]. }
  split; [exact Hi|]. split; [exact Hops|]. split.
  - apply (small_W_run ex_i ex_S Hi False ex_ops) with (pos := None) (R := []); [vm_compute; reflexivity|apply init_ok|exact Hops|intros []].
  - vm_compute. reflexivity.
Qed.


(* ---- what was received is neither skipped nor lost --------------------------------------- *)
(* R threads, through the run, the (offset, length) of every segment handed to the stream that
   is live at that step (recv_in: the ranges of the live stream, none if a new stream starts,
   plus the arriving segment; recv_out: forgotten when the stream completes).

   trace_okR S F pos R l strengthens trace_ok: every element satisfies chunkR = chunk + extra:
     (1) an element with Skip = s delivered at position a: no byte of any range received so far
         on this stream (the arriving segment included) lies in [a, a+s)  (gap_free);
     (2) when a stream completes (ReassemblyComplete): every byte it received lies before the
         final position - all of it was delivered or announced, nothing is dropped from the
         buffer - or else the last element handed over carried End (FIN/RST; pages buffered
         beyond it are released by closeConnection); with the sender discipline F "FIN/RST only
         on data that ends at the end of S" the first alternative always holds;
     (3) FlushAll leaves no stream behind and completes the one that was live; the flush loops
         terminate within their fuel (no panic). *)
Theorem C10_skip_covers_nothing_received : forall i S mp mt ops,
  0 <= i < 4294967296 -> Forall (op_ok i S) ops -> W_run (init mp mt) ops ->
  trace_okR S False None [] (outs (init mp mt) ops).
Proof.
  intros i S mp mt ops Hi Hops HW.
  apply (stream_invR i S Hi False ops (init mp mt) None []); try assumption.
  - apply init_ok. - constructor. - intros [].
Qed.
Print Assumptions C10_skip_covers_nothing_received.

(* what clause (1) says for one element *)
Theorem C10_skip_meaning : forall S F R a r p' o n x,
  chunkR S F R (Some a) r p' -> In (o, n) R -> o <= x < o + n -> ~ (a <= x < a + r_skip r).
Proof. intros S F R a r p' o n x [_ [H _]] Hin Hx. exact (H a eq_refl o n x Hin Hx). Qed.

Theorem C10_flushall_delivers_all : forall i S mp mt ops,
  0 <= i < 4294967296 -> Forall (op_ok i S) ops -> Forall (op_fin_ok S) ops -> W_run (init mp mt) ops ->
  trace_okR S True None [] (outs (init mp mt) ops).
Proof.
  intros i S mp mt ops Hi Hops Hfin HW.
  apply (stream_invR i S Hi True ops (init mp mt) None []); try assumption.
  - apply init_ok. - constructor. - intros _; exact Hfin.
Qed.
Print Assumptions C10_flushall_delivers_all.

(* what clauses (2),(3) say for one step of such a run *)
Theorem C10_complete_meaning : forall S pos R st o ou t,
  trace_okR S True pos R ((st, o, ou) :: t) ->
  o_panic ou = false /\
  (o = FlushAll -> s_conn (fst (step st o)) = None /\ (s_conn st <> None -> o_done ou = true)) /\
  exists pos', chunksR S True (recv_in st R o) pos (concat (o_calls ou)) pos' /\
    (o_done ou = true -> forall ro rn x, In (ro, rn) (recv_in st R o) -> ro <= x < ro + rn ->
                         exists a', pos' = Some a' /\ x < a').
Proof.
  intros S pos R st o ou t H. cbn [trace_okR] in H. destruct H as (H1 & _ & H3 & pos' & Hc & Hd & _).
  split; [exact H1|]. split; [exact H3|]. exists pos'. split; [exact Hc|].
  intros D. destruct (Hd D) as [_ Hl]. exact (Hl I).
Qed.

(* non-vacuity: SYN, a segment 10 bytes ahead, FlushAll: the flush announces Skip = 10 although
   ranges were received ((0,0) and (10,5): none meets [0,10)), delivers the 5 bytes and completes
   the stream; the hypotheses of both theorems hold *)
Definition ex_ops2 : list op :=
  [Segment ex_i true false false [] 1 0;
   Segment (sq ex_i 10) false false false (sub ex_S 10 5) 2 10;
   FlushAll].

Example C10_recv_nonvacuous :
  Forall (op_ok ex_i ex_S) ex_ops2 /\ Forall (op_fin_ok ex_S) ex_ops2 /\ W_run (init 0 0) ex_ops2 /\
  map (fun x => (map (map (fun r => (r_skip r, lenZ (r_bytes r)))) (o_calls (snd x)), o_done (snd x)))
      (outs (init 0 0) ex_ops2)
  = [([[(0, 0)]], false); ([], false); ([[(10, 5)]], true)] /\
  Forall (op_fin_ok ex_S) ex_ops.
Proof.
  assert (Hi : 0 <= ex_i < 4294967296) by (unfold ex_i; lia).
  assert (Hops : Forall (op_ok ex_i ex_S) ex_ops2).
  { unfold ex_ops2. constructor; [cbn [op_ok]; vm_compute; repeat split; congruence|].
    constructor; [cbn [op_ok]; repeat split; vm_compute; congruence|]. constructor; [exact I|constructor]. }
  assert (Hfin : Forall (op_fin_ok ex_S) ex_ops2).
  { unfold ex_ops2. repeat constructor; cbn [op_fin_ok]; intros; discriminate. }
  split; [exact Hops|]. split; [exact Hfin|]. split; [|split].
  - apply (small_W_run ex_i ex_S Hi True ex_ops2) with (pos := None) (R := []);
      [vm_compute; reflexivity|apply init_ok|exact Hops|intros _; exact Hfin].
  - vm_compute. reflexivity.
  - unfold ex_ops. repeat constructor; cbn [op_fin_ok]; intros; try discriminate; try (vm_compute; reflexivity).
Qed.

(* ---- outside the window ---------------------------------------------------------------- *)
(* The hypothesis is necessary: a segment 2^30+20 bytes ahead of the position (sequence numbers
   3*2^30-10 and 10; W fails for that step) is taken for old data by the quarter-space
   comparison and its bytes vanish (an empty element, Skip = 0, nothing buffered), whereas
   2^30-20 ahead (W holds) it is buffered and later delivered with the exact Skip. *)
Theorem C10_window_necessary :
  let far := [Segment 3221225461 true false false [] 1 0; Segment 10 false false false [7;8;9] 2 1073741844; FlushAll] in
  let near := [Segment 3221225461 true false false [] 1 0; Segment 4294967266 false false false [7;8;9] 2 1073741804; FlushAll] in
  map (fun x => map (map (fun r => (r_skip r, r_bytes r))) (o_calls (fst x))) (run 0 0 far)
    = [[[(0, [])]]; [[(0, [])]]; []] /\
  map (fun x => map (map (fun r => (r_skip r, r_bytes r))) (o_calls (fst x))) (run 0 0 near)
    = [[[(0, [])]]; []; [[(1073741804, [7;8;9])]]] /\
  ~ W_run (init 0 0) far /\ W_run (init 0 0) near.
Proof.
  cbv zeta. split; [vm_compute; reflexivity|]. split; [vm_compute; reflexivity|]. split.
  - intros (_ & (lo & HF) & _).
    match type of HF with Forall _ ?l => let v := eval vm_compute in l in change l with v in HF end.
    inversion HF as [|x1 l1 H1 T1]; subst. inversion T1 as [|x2 l2 H2 T2]; subst.
    unfold inw, quarter in *. lia.
  - cbn [W_run]. repeat split; exists 0;
      (match goal with |- Forall _ ?l => let v := eval vm_compute in l in change l with v end);
      repeat constructor; unfold inw, quarter; lia.
Qed.
Print Assumptions C10_window_necessary.
