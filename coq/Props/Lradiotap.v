(* Lradiotap — RadioTap codec (layers/radiotap.go as repaired on agent-fixer and agent-ldot11):
   contributions to C19, C05, C06, C07, C01. *)
From GP Require Import Base Codec MiscLib LradiotapModel LradiotapProofs LradiotapRt.
Open Scope Z_scope.

(* all byte strings (also beyond 64K, where the 16 bit offsets are confined to the first 65535 octets), all receiver states *)
Theorem C19_radiotap_no_panic : forall old data, bytes_ok data -> is_panic (snd (fst (rt_decode_into old data))) = false.
Proof. intros old data Hb. apply safe_np. apply rt_decode_safe. exact Hb. Qed.
Print Assumptions C19_radiotap_no_panic.

(* the Present chain loop's fuel (len(data) rounds) is never exhausted *)
Theorem C19_radiotap_fuel : forall old data, bytes_ok data -> snd (fst (rt_decode_into old data)) <> Err 99.
Proof. intros old data Hb. apply safe_fuel. apply rt_decode_safe. exact Hb. Qed.
Print Assumptions C19_radiotap_fuel.

(* C05: Present is reallocated, RadioTapValues and VendorValues are reset (repair), Version/Length/Contents/Payload assigned *)
Theorem C05_radiotap_fresh : forall old data,
  let r1 := rt_decode_into old data in
  let r2 := rt_decode_into rt_fresh data in
  snd (fst r1) = snd (fst r2) /\ snd r1 = snd r2 /\
  (snd (fst r1) = Ok tt -> fst (fst r1) = fst (fst r2)).
Proof. exact rt_decode_fresh. Qed.
Print Assumptions C05_radiotap_fresh.

Theorem C01_radiotap_render_total : forall old data, rt_render_panics (fst (fst (rt_decode_into old data))) = false.
Proof. reflexivity. Qed.

(* C07 for every layer value whose SkipLength fields are uint16 (rt_val_ok: a range fact of the Go type):
   any Present words, any number of namespace values (missing ones give an error), any OUI/Contents *)
Theorem C07_radiotap_no_panic : forall l payload fixl csum junk, rt_val_ok l ->
  is_panic (fst (rt_serialize l payload fixl csum junk)) = false.
Proof. intros l payload fixl csum junk H. exact (proj1 (rt_serialize_spec l payload fixl csum junk H)). Qed.
Print Assumptions C07_radiotap_no_panic.

(* the header is assembled in a zeroed scratch buffer and copied over the whole prepended region *)
Theorem C07_radiotap_junk_free : forall l payload fixl csum junk1 junk2, rt_val_ok l ->
  rt_serialize l payload fixl csum junk1 = rt_serialize l payload fixl csum junk2.
Proof.
  intros l payload fixl csum junk1 junk2 H.
  rewrite (proj2 (rt_serialize_spec l payload fixl csum junk1 H)), (proj2 (rt_serialize_spec l payload fixl csum junk2 H)). reflexivity.
Qed.
Print Assumptions C07_radiotap_junk_free.

(* C06 — STATED, not proved (tested by the rt:/rtn: ops on every run).  Domain rt_wf: the extension bits chain the
   Present words, the walk over the words consumes exactly the values present, every value entry has its field width,
   fields whose bit is clear are zero, vendor namespaces have a 3 octet OUI and SkipLength = len(Contents), the header
   fits 16 bits.  The payload comes back as the decoder hands it on: driver padding removed when the Datapad flag is set,
   CRC-32 appended when the FCS flag is clear (rt_payload_of; by design of DecodeFromBytes :1433-1461). *)
Definition rt_ns_wfb (p : Z) (v : list (list Z)) : bool :=
  (length v =? length rt_fields)%nat &&
  forallb (fun fv => let '((bit, _, _, used), e) := fv in
             (zlen e =? used) && bytes_okb e && (Z.testbit p bit || forallb (Z.eqb 0) e)) (combine rt_fields v).
Definition rt_vn_wfb (v : vendor) : bool :=
  (zlen (vn_oui v) =? 3) && bytes_okb (vn_oui v) && bytes_okb (vn_contents v) && (vn_skip v =? zlen (vn_contents v)) &&
  (0 <=? vn_sub v) && (vn_sub v <? 256).
Fixpoint rt_walk_wfb (ps : list Z) (rtn vn : bool) (rvs : list (list (list Z))) (vvs : list vendor) : bool :=
  match ps with
  | [] => match rvs, vvs with [], [] => true | _, _ => false end
  | p :: t =>
    (0 <=? p) && (p <? 4294967296) && Bool.eqb (Z.testbit p 31) (match t with [] => false | _ => true end) &&
    (if rtn then match rvs with [] => false | v :: r => rt_ns_wfb p v && rt_walk_wfb t (Z.testbit p 29) (Z.testbit p 30) r vvs end
     else if vn then match vvs with [] => false | v :: r => rt_vn_wfb v && rt_walk_wfb t (Z.testbit p 29) (Z.testbit p 30) rvs r end
     else false)
  end.
Definition rt_wf (l : radiotap) : Prop :=
  rt_present l <> [] /\ rt_walk_wfb (rt_present l) true false (rt_values l) (rt_vendor l) = true /\
  rt_size l <= 65535 /\ 0 <= rt_version l < 256.

Definition C06_radiotap_roundtrip_statement : Prop := forall l payload csum junk bytes l' old,
  rt_wf l -> bytes_ok payload -> rt_serialize l payload true csum junk = (Ok bytes, l') ->
  exists d f p, rt_decode_into old bytes = (d, Ok tt, false) /\
    rt_flags0 (rt_values l) = Ok f /\ rt_payload_of f payload = Ok p /\ rt_payload d = p /\
    rt_version d = rt_version l /\ rt_present d = rt_present l /\ rt_values d = rt_values l /\ rt_vendor d = rt_vendor l /\
    rt_length d = zlen bytes - zlen payload /\ rt_contents d = firstn (Z.to_nat (rt_length d)) bytes.

(* C06, proved part 1 (headers made of radiotap namespaces only — domain rt_wf_rt of Proofs/LradiotapRt.v: no vendor namespace,
   the extension bits chain the words, every word but the last announces a radiotap namespace, one well-formed value per word):
   the octets SerializeTo writes with FixLengths are the layout rt_hdr — version, pad, length, the Present words, then per namespace
   every present field at its aligned offset, the gaps zero — followed by the payload *)
Theorem C06_radiotap_serialize_layout_partial : forall l payload csum junk, rt_wf_rt l ->
  rt_serialize l payload true csum junk = (Ok (rt_hdr l ++ payload), l).
Proof. exact rt_serialize_layout. Qed.
Print Assumptions C06_radiotap_serialize_layout_partial.

(* the decoder reads a namespace's values back from that layout (the field walk, any offset, any surrounding octets) *)
Theorem C06_radiotap_fields_readback_partial : forall present vs W acc rest,
  Forall2 (row_wf present) rt_fields vs -> zlen W + 106 <= 65535 ->
  zlen (W ++ ns_bytes present rt_fields vs (zlen W) ++ rest) <= 65535 ->
  rt_fields_loop (W ++ ns_bytes present rt_fields vs (zlen W) ++ rest) present rt_fields (zlen W, acc) =
    Ok (zlen W + zlen (ns_bytes present rt_fields vs (zlen W)), acc ++ vs).
Proof.
  intros present vs W acc rest Hv Hs Hb. apply rt_fields_loop_layout; [exact Hv|exact rt_fields_ok|rewrite fsum_fields; lia|exact Hb].
Qed.
Print Assumptions C06_radiotap_fields_readback_partial.

(* non-vacuity: a two-namespace value (TSFT, Flags with the FCS bit, Rate; then a vendor namespace) in the domain,
   its serialization, and the decode of those bytes — an instance of the stated round trip *)
Definition rt_ex_ns : list (list Z) :=
  [[1;2;3;4;5;6;7;8]; [16]; [12]] ++ map (fun f => let '(_, _, _, used) := f in repeat 0 (Z.to_nat used)) (skipn 3 rt_fields).
Definition rt_ex : radiotap := mkRt [] [] 0 0 [3221225479; 0] [rt_ex_ns] [mkVn [170;187;204] 9 2 [238;255]].
Example Lradiotap_nonvacuous :
  rt_wf rt_ex /\ rt_val_ok rt_ex /\
  fst (rt_serialize rt_ex [8;0;1] true false [9;9;9]) =
    Ok [0;0;36;0; 7;0;0;192; 0;0;0;0; 0;0;0;0; 1;2;3;4;5;6;7;8; 16;12; 170;187;204;0; 9;0; 2;0; 238;255; 8;0;1] /\
  rt_decode_into rt_fresh [0;0;36;0; 7;0;0;192; 0;0;0;0; 0;0;0;0; 1;2;3;4;5;6;7;8; 16;12; 170;187;204;0; 9;0; 2;0; 238;255; 8;0;1] =
    (mkRt [0;0;36;0; 7;0;0;192; 0;0;0;0; 0;0;0;0; 1;2;3;4;5;6;7;8; 16;12; 170;187;204;0; 9;0; 2;0; 238;255] [8;0;1] 0 36
          [3221225479; 0] [rt_ex_ns] [mkVn [170;187;204] 9 2 [238;255]], Ok tt, false).
Proof.
  split; [unfold rt_wf; repeat split; try discriminate; try (vm_compute; reflexivity); vm_compute; intro; discriminate|].
  split; [repeat constructor; cbn; lia|].
  split; vm_compute; reflexivity.
Qed.

(* a decode that ends in an error after namespaces were appended: the residue the renderers and SerializeTo see *)
Example Lradiotap_error_residue :
  let r := rt_decode_into rt_fresh [0;0;12;0; 2;0;0;160; 1;0;0;0; 16;12] in
  snd (fst r) = Err 3 /\ snd r = true /\ length (rt_values (fst (fst r))) = 1%nat /\ length (rt_present (fst (fst r))) = 2%nat.
Proof. vm_compute. repeat split; reflexivity. Qed.
