(* C04 — data ownership: copy isolates; NoCopy and Pool change only where bytes live.
   Property theorems only. *)
From GP Require Import Base C04Model C04Proofs.
Open Scope nat_scope.

(* Copy isolation + pool safety, for EVERY history of caller-buffer allocations, NewPacket
   calls with any options and any legal pool behaviour (which block Get returns, or a new
   one; entries dropped at any time), Dispose calls, and caller mutations of its buffers:
   a packet that owns its bytes (made without NoCopy, not yet disposed) still holds exactly
   the bytes it was created from.  Goroutine interleavings reduce to such histories because
   sync.Pool Get/Put are linearizable (trusted, DESIGN.md section 6). *)
Theorem C04_copy_isolated : forall ops i p,
  nth_error (pkts (run ops)) i = Some p -> owning p = true -> data_of (run ops) p = p_orig p.
Proof. exact isolated. Qed.
Print Assumptions C04_copy_isolated.

(* no two undisposed pooled/copied packets share backing memory; none sits in the pool or in caller memory *)
Theorem C04_pool_disjoint : forall ops i j p q,
  i <> j -> nth_error (pkts (run ops)) i = Some p -> nth_error (pkts (run ops)) j = Some q ->
  owning p = true -> owning q = true ->
  p_arr p <> p_arr q /\ ~ In (p_arr p) (pool (run ops)) /\ ~ In (p_arr p) (callers (run ops)).
Proof. exact pool_disjoint. Qed.
Print Assumptions C04_pool_disjoint.

(* NoCopy, Pool and default give a packet over the same bytes (decoding is a function of
   these bytes — PacketCore — hence the same decoded result) *)
Theorem C04_same_result : forall s buf n nocopy usepool choice,
  Inv s -> let s' := step s (ONew buf n nocopy usepool choice) in
  bad s' = false ->
  exists p, pkts s' = pkts s ++ [p] /\ data_of s' p = firstn n (arr_of s buf) /\
            p_orig p = firstn n (arr_of s buf) /\ p_len p = n /\ length (data_of s' p) = n /\
            p_nocopy p = nocopy /\ p_disposed p = false /\
            p_pooled p = negb nocopy && usepool && (n <=? maximumMTU).
Proof. exact new_data. Qed.
Print Assumptions C04_same_result.

Theorem C04_reachable_inv : forall ops, Inv (run ops).
Proof. exact run_inv. Qed.

Theorem C04_large : forall s buf n nocopy usepool choice,
  Inv s -> maximumMTU < n -> bad (step s (ONew buf n nocopy usepool choice)) = false ->
  exists p, pkts (step s (ONew buf n nocopy usepool choice)) = pkts s ++ [p] /\ p_pooled p = false /\
            data_of (step s (ONew buf n nocopy usepool choice)) p = firstn n (arr_of s buf).
Proof. exact large_not_pooled. Qed.
Print Assumptions C04_large.

(* non-vacuity: a history with pool reuse, a caller mutation and a dispose; the surviving
   packets own distinct blocks and keep their bytes *)
Example C04_nonvacuous :
  let s := run [OBuf [1;2;3]%Z; ONew 0 3 false true None; ONew 0 2 false true None; ODispose 0;
                OMut 0 0 9%Z; ONew 0 3 false true (Some 0); ONew 0 3 true false None] in
  bad s = false /\ map (data_of s) (pkts s) = [[9;2;3]; [1;2]; [9;2;3]; [9;2;3]]%Z /\
  map owning (pkts s) = [false; true; true; false].
Proof. vm_compute. repeat split; reflexivity. Qed.
