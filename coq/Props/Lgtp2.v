(* Lgtp2 — GTPv2-C header decoder (layers/gtp2.go): contributions to C19, C05, C01.  No SerializeTo (C06/C07 n/a). *)
From GP Require Import Base ListX Codec MiscLib Lgtp2Model.
From Coq Require Import Lia ZifyBool ZifyNat.
Open Scope Z_scope.
Ltac Zify.zify_post_hook ::= Z.div_mod_to_equations.

(* the IE loop neither panics nor runs out of fuel, and it can only end at the end of the data *)
Lemma g2_ie_loop_safe : forall fuel data ci acc, bytes_ok data -> 0 <= ci <= zlen data -> zlen data - ci < Z.of_nat fuel ->
  match snd (g2_ie_loop fuel data ci acc) with
  | Ok c => c = zlen data
  | Err e => e <> 99
  | Panic _ => False
  end.
Proof.
  induction fuel as [|f IH]; intros data ci acc Hb Hc Hf; [lia|].
  cbn [g2_ie_loop]. destruct (ci <? zlen data) eqn:C0; cbn [negb snd]; [|lia].
  destruct (zlen data <? ci + 4) eqn:C1; [cbn [snd]; discriminate|].
  rewrite cd_idx_ok by lia. rewrite cd_slc_ok by lia. rewrite cd_rd16_ok by lia. cbn [obind].
  pose proof (bytes_ok_nth data (Z.to_nat (ci + 1)) Hb) as B1. pose proof (bytes_ok_nth data (Z.to_nat (ci + 1 + 1)) Hb) as B2.
  set (len := nth (Z.to_nat (ci + 1)) data 0 * 256 + nth (Z.to_nat (ci + 1 + 1)) data 0) in *.
  destruct (zlen data <? ci + 4 + len) eqn:C2; [cbn [snd]; discriminate|].
  rewrite cd_slc_ok by lia. apply IH; [exact Hb|lia|lia].
Qed.

Theorem C19_gtp2_no_panic : forall orig old data, bytes_ok data ->
  is_panic (snd (fst (g2_decode_gen orig old data))) = false /\ snd (fst (g2_decode_gen orig old data)) <> Err 99.
Proof.
  intros orig old data Hb. unfold g2_decode_gen. cbv zeta. destruct (zlen data <? 4) eqn:C0; [split; [reflexivity|discriminate]|].
  rewrite !cd_idx_ok by lia. rewrite cd_rd16_ok by lia. cbn [ml_bind].
  match goal with |- context [if zlen data <? 4 + ?m then _ else _] => destruct (zlen data <? 4 + m) eqn:C1 end; [split; [reflexivity|discriminate]|].
  match goal with |- context [if ?tf then _ else _] => destruct tf eqn:Tf end.
  - destruct (zlen data <? 8) eqn:C2; [split; [reflexivity|discriminate]|].
    rewrite ml_rd32_ok by lia. cbn [ml_bind].
    destruct (zlen data <? 8 + 4) eqn:C3; [split; [reflexivity|discriminate]|].
    rewrite !cd_idx_ok by lia. cbn [ml_bind].
    match goal with |- context [g2_ie_loop ?f ?d ?c ?a] =>
      pose proof (g2_ie_loop_safe f d c a Hb ltac:(lia) ltac:(unfold zlen; lia)) as P; destruct (g2_ie_loop f d c a) as [ies o]; cbn [snd] in P end.
    destruct o as [ce|e|s]; [|cbn [fst snd]; split; [reflexivity|intros X; apply P; inversion X; reflexivity]|contradiction].
    subst ce. rewrite !cd_slc_ok by lia. cbn [ml_bind]. split; [reflexivity|discriminate].
  - destruct (zlen data <? 4 + 4) eqn:C3; [split; [reflexivity|discriminate]|].
    rewrite !cd_idx_ok by lia. cbn [ml_bind].
    match goal with |- context [g2_ie_loop ?f ?d ?c ?a] =>
      pose proof (g2_ie_loop_safe f d c a Hb ltac:(lia) ltac:(unfold zlen; lia)) as P; destruct (g2_ie_loop f d c a) as [ies o]; cbn [snd] in P end.
    destruct o as [ce|e|s]; [|cbn [fst snd]; split; [reflexivity|intros X; apply P; inversion X; reflexivity]|contradiction].
    subst ce. rewrite !cd_slc_ok by lia. cbn [ml_bind]. split; [reflexivity|discriminate].
Qed.
Print Assumptions C19_gtp2_no_panic.

Ltac g2step :=
  match goal with
  | |- context [ml_bind ?o _ _ _] => destruct o eqn:?; cbn [ml_bind]
  | |- context [if ?c then _ else _] => destruct c eqn:?
  | |- context [let '(a, b) := g2_ie_loop ?f ?d ?c ?acc in _] => destruct (g2_ie_loop f d c acc) as [? [?|?|?]]
  end.

Theorem C05_gtp2_fresh : forall old data,
  let r1 := g2_decode_into old data in
  let r2 := g2_decode_into g2_fresh data in
  snd (fst r1) = snd (fst r2) /\ snd r1 = snd r2 /\
  (snd (fst r1) = Ok tt -> fst (fst r1) = fst (fst r2)).
Proof.
  intros old data. cbv zeta. unfold g2_decode_into, g2_decode_gen. cbv zeta.
  repeat (g2step; try solve [cbn [fst snd]; split; [reflexivity | split; [reflexivity | try (intros X; discriminate X); try reflexivity]]]).
  all: try (cbn [fst snd]; split; [reflexivity | split; [reflexivity | intros _; reflexivity]]).
Qed.
Print Assumptions C05_gtp2_fresh.

(* before the repairs: the TEID of a packet with the T flag stays for a later packet without it, and the IEs of
   successive packets accumulate in one list *)
Theorem C05_gtp2_orig_refuted : exists a b l1 l2,
  g2_decode_orig g2_fresh a = (l1, Ok tt, false) /\ g2_decode_orig l1 b = (l2, Ok tt, false) /\
  g2_teid l2 = 7 /\ length (g2_ies l2) = 2%nat /\
  g2_teid (fst (fst (g2_decode_orig g2_fresh b))) = 0 /\ length (g2_ies (fst (fst (g2_decode_orig g2_fresh b)))) = 1%nat /\
  fst (fst (g2_decode_into l1 b)) = fst (fst (g2_decode_into g2_fresh b)).
Proof.
  exists [72;32;0;13;0;0;0;7;0;0;1;0;1;0;1;0;9], [64;32;0;8;0;0;2;0;82;0;0;0]. eexists. eexists.
  split; [vm_compute; reflexivity|]. split; [vm_compute; reflexivity|]. repeat split; vm_compute; reflexivity.
Qed.
Print Assumptions C05_gtp2_orig_refuted.

(* success means: the IEs tile the packet to its last octet — Contents is the whole packet and Payload is empty
   (the message length field only has a lower-bound check: octets after it are parsed as IEs too) *)
Theorem C19_gtp2_shape : forall orig old data l tr, bytes_ok data -> g2_decode_gen orig old data = (l, Ok tt, tr) ->
  g2_contents l = data /\ g2_payload l = [] /\ tr = false /\ 4 + g2_mlen l <= zlen data.
Proof.
  intros orig old data l tr Hb. unfold g2_decode_gen. cbv zeta. destruct (zlen data <? 4) eqn:C0; [discriminate|].
  rewrite !cd_idx_ok by lia. rewrite cd_rd16_ok by lia. cbn [ml_bind].
  match goal with |- context [if zlen data <? 4 + ?m then _ else _] => destruct (zlen data <? 4 + m) eqn:C1 end; [discriminate|].
  assert (S1 : slice data (Z.to_nat 0) (Z.to_nat (zlen data)) = data).
  { unfold slice. change (Z.to_nat 0) with 0%nat. cbn [skipn]. apply firstn_all2. unfold zlen. lia. }
  assert (S2 : slice data (Z.to_nat (zlen data)) (Z.to_nat (zlen data)) = []).
  { unfold slice. apply skipn_all2. rewrite firstn_length. lia. }
  match goal with |- context [if ?tf then _ else _] => destruct tf eqn:Tf end.
  - destruct (zlen data <? 8) eqn:C2; [discriminate|].
    rewrite ml_rd32_ok by lia. cbn [ml_bind].
    destruct (zlen data <? 8 + 4) eqn:C3; [discriminate|].
    rewrite !cd_idx_ok by lia. cbn [ml_bind].
    match goal with |- context [g2_ie_loop ?f ?d ?c ?a] =>
      pose proof (g2_ie_loop_safe f d c a Hb ltac:(lia) ltac:(unfold zlen; lia)) as P; destruct (g2_ie_loop f d c a) as [ies o]; cbn [snd] in P end.
    destruct o as [ce|e|s]; [|discriminate|contradiction].
    subst ce. rewrite !cd_slc_ok by lia. cbn [ml_bind]. rewrite S1, S2. intros X.
    match type of X with (?t, _, _) = _ => assert (El : l = t) by congruence end. assert (tr = false) by congruence. subst l.
    cbn [g2_contents g2_payload g2_mlen]. repeat split; try assumption; lia.
  - destruct (zlen data <? 4 + 4) eqn:C3; [discriminate|].
    rewrite !cd_idx_ok by lia. cbn [ml_bind].
    match goal with |- context [g2_ie_loop ?f ?d ?c ?a] =>
      pose proof (g2_ie_loop_safe f d c a Hb ltac:(lia) ltac:(unfold zlen; lia)) as P; destruct (g2_ie_loop f d c a) as [ies o]; cbn [snd] in P end.
    destruct o as [ce|e|s]; [|discriminate|contradiction].
    subst ce. rewrite !cd_slc_ok by lia. cbn [ml_bind]. rewrite S1, S2. intros X.
    match type of X with (?t, _, _) = _ => assert (El : l = t) by congruence end. assert (tr = false) by congruence. subst l.
    cbn [g2_contents g2_payload g2_mlen]. repeat split; try assumption; lia.
Qed.
Print Assumptions C19_gtp2_shape.

(* the information elements account for every octet behind the fixed part: 4 octets of IE header and the content each *)
Fixpoint g2_ies_size (l : list g2ie) : Z := match l with [] => 0 | e :: t => 4 + zlen (ie_content e) + g2_ies_size t end.

Lemma g2_ies_size_app a b : g2_ies_size (a ++ b) = g2_ies_size a + g2_ies_size b.
Proof. induction a as [|e a IH]; cbn [app g2_ies_size]; lia. Qed.

Lemma g2_ie_loop_tiles : forall fuel data ci acc ies ce, bytes_ok data -> 0 <= ci <= zlen data -> zlen data - ci < Z.of_nat fuel ->
  g2_ie_loop fuel data ci acc = (ies, Ok ce) ->
  ce = zlen data /\ ci + (g2_ies_size ies - g2_ies_size acc) = ce /\ (length acc <= length ies)%nat.
Proof.
  induction fuel as [|f IH]; intros data ci acc ies ce Hb Hc Hf; [lia|].
  cbn [g2_ie_loop]. destruct (ci <? zlen data) eqn:C0; cbn [negb].
  2:{ intros X. inversion X. subst. repeat split; lia. }
  destruct (zlen data <? ci + 4) eqn:C1; [discriminate|].
  rewrite cd_idx_ok by lia. rewrite cd_slc_ok by lia. rewrite cd_rd16_ok by lia. cbn [obind].
  pose proof (bytes_ok_nth data (Z.to_nat (ci + 1)) Hb) as B1. pose proof (bytes_ok_nth data (Z.to_nat (ci + 1 + 1)) Hb) as B2.
  set (len := nth (Z.to_nat (ci + 1)) data 0 * 256 + nth (Z.to_nat (ci + 1 + 1)) data 0) in *.
  destruct (zlen data <? ci + 4 + len) eqn:C2; [discriminate|].
  rewrite cd_slc_ok by lia. intros X.
  apply IH in X; [|exact Hb|lia|lia]. destruct X as [E1 [E2 E3]].
  rewrite g2_ies_size_app in E2. cbn [g2_ies_size ie_content] in E2.
  assert (Ls : zlen (slice data (Z.to_nat (ci + 4)) (Z.to_nat (ci + 4 + len))) = len) by (unfold zlen in *; rewrite slice_length by lia; lia).
  rewrite Ls in E2. rewrite app_length in E3. cbn [length] in E3. repeat split; lia.
Qed.

Theorem C19_gtp2_ies_tile : forall old data l tr, bytes_ok data -> g2_decode_into old data = (l, Ok tt, tr) ->
  (if g2_teidflag l then 12 else 8) + g2_ies_size (g2_ies l) = zlen data.
Proof.
  intros old data l tr Hb. unfold g2_decode_into, g2_decode_gen. cbv zeta. destruct (zlen data <? 4) eqn:C0; [discriminate|].
  rewrite !cd_idx_ok by lia. rewrite cd_rd16_ok by lia. cbn [ml_bind].
  match goal with |- context [if zlen data <? 4 + ?m then _ else _] => destruct (zlen data <? 4 + m) eqn:C1 end; [discriminate|].
  match goal with |- context [if ?tf then _ else _] => destruct tf eqn:Tf end.
  - destruct (zlen data <? 8) eqn:C2; [discriminate|].
    rewrite ml_rd32_ok by lia. cbn [ml_bind].
    destruct (zlen data <? 8 + 4) eqn:C3; [discriminate|].
    rewrite !cd_idx_ok by lia. cbn [ml_bind].
    match goal with |- context [g2_ie_loop ?f ?d ?c ?a] =>
      pose proof (g2_ie_loop_tiles f d c a) as P; destruct (g2_ie_loop f d c a) as [ies o] end.
    destruct o as [ce|e|s]; [|discriminate|discriminate].
    destruct (P ies ce Hb ltac:(lia) ltac:(unfold zlen; lia) eq_refl) as [E1 [E2 _]]. subst ce.
    rewrite !cd_slc_ok by lia. cbn [ml_bind]. intros X.
    match type of X with (?t, _, _) = _ => assert (El : l = t) by congruence end. subst l.
    cbn [g2_teidflag g2_ies]. cbn [g2_ies_size] in E2. lia.
  - destruct (zlen data <? 4 + 4) eqn:C3; [discriminate|].
    rewrite !cd_idx_ok by lia. cbn [ml_bind].
    match goal with |- context [g2_ie_loop ?f ?d ?c ?a] =>
      pose proof (g2_ie_loop_tiles f d c a) as P; destruct (g2_ie_loop f d c a) as [ies o] end.
    destruct o as [ce|e|s]; [|discriminate|discriminate].
    destruct (P ies ce Hb ltac:(lia) ltac:(unfold zlen; lia) eq_refl) as [E1 [E2 _]]. subst ce.
    rewrite !cd_slc_ok by lia. cbn [ml_bind]. intros X.
    match type of X with (?t, _, _) = _ => assert (El : l = t) by congruence end. subst l.
    cbn [g2_teidflag g2_ies]. cbn [g2_ies_size] in E2. lia.
Qed.
Print Assumptions C19_gtp2_ies_tile.

(* the registered decoder decodeGTPv2: no panic; the layer is added exactly when it returns nil, and then hands on LayerTypePayload *)
Theorem C19_gtp2_decoder_no_panic : forall data, bytes_ok data ->
  let '(l, added, nx, o, tr) := g2_decode_fn data in
  is_panic o = false /\ o <> Err 99 /\ (added = true <-> o = Ok tt) /\ (o = Ok tt -> nx = Some 0).
Proof.
  intros data Hb. unfold g2_decode_fn. destruct (C19_gtp2_no_panic false g2_fresh data Hb) as [P1 P2]. fold g2_decode_into in P1, P2.
  destruct (g2_decode_into g2_fresh data) as [[l o] tr]. cbn [fst snd] in P1, P2.
  destruct o as [[]|e|s]; repeat split; intros; try discriminate; try reflexivity; try assumption.
Qed.
Print Assumptions C19_gtp2_decoder_no_panic.

Theorem C01_gtp2_render_total : forall orig old data, g2_render_panics (fst (fst (g2_decode_gen orig old data))) = false.
Proof. reflexivity. Qed.

Example Lgtp2_nonvacuous :
  g2_decode_into g2_fresh [72;32;0;13;0;0;0;7;0;0;1;0;1;0;1;0;9] =
    (mkG2 [72;32;0;13;0;0;0;7;0;0;1;0;1;0;1;0;9] [] 2 false true 0 32 13 7 1 0 [mkIe 1 [9]], Ok tt, false) /\
  bytes_ok [72;32;0;13;0;0;0;7;0;0;1;0;1;0;1;0;9].
Proof. split; [vm_compute; reflexivity|]. repeat constructor; unfold byte_ok; lia. Qed.
