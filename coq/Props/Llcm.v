(* Llcm — LCM header decoder (layers/lcm.go): contributions to C19, C05, C01.  No SerializeTo (C06/C07 n/a).
   The code before the repair keeps fields of the previous packet on a reused object (C05_lcm_orig_refuted). *)
From GP Require Import Base ListX Codec MiscLib LlcmModel.
From Coq Require Import Lia ZifyBool ZifyNat.
Open Scope Z_scope.
Ltac Zify.zify_post_hook ::= Z.div_mod_to_equations.

Ltac xstep :=
  match goal with
  | |- context [ml_bind ?o _ _ _] => destruct o eqn:?; cbn [ml_bind]
  | |- context [if ?c then _ else _] => destruct c eqn:?
  end.

Lemma lc_scan_bound l : 0 <= snd (lc_scan l) <= zlen l.
Proof.
  induction l as [|b r IH]; [cbn; unfold zlen; cbn; lia|].
  cbn [lc_scan]. rewrite zlen_cons. pose proof (zlen_nonneg r). destruct (b =? 0); [cbn [snd]; lia|]. destruct (lc_scan r) as [nm c]. cbn [snd] in *. lia.
Qed.

Lemma lc_tail_no_panic orig old st data magic seq frag ps fo fn tf off : 0 <= off <= zlen data ->
  is_panic (snd (fst (lc_tail orig old st data magic seq frag ps fo fn tf off))) = false.
Proof.
  intros H. unfold lc_tail. cbv zeta. rewrite cd_slc_ok by lia. cbn [ml_bind].
  set (rest := slice data (Z.to_nat off) (Z.to_nat (zlen data))).
  assert (Hr : zlen rest = zlen data - off) by (unfold rest, zlen in *; rewrite slice_length by lia; lia).
  pose proof (lc_scan_bound rest) as Hs.
  set (off2 := if negb frag || (fn =? 0) then off + snd (lc_scan rest) else off).
  assert (H2 : 0 <= off2 <= zlen data) by (unfold off2; destruct (negb frag || (fn =? 0)); lia).
  destruct (8 <=? zlen data - off2) eqn:C; [rewrite (cd_slc_ok data off2) by lia|]; cbn [ml_bind]; rewrite !cd_slc_ok by lia; reflexivity.
Qed.

Theorem C19_lcm_no_panic : forall orig old data, is_panic (snd (fst (lc_decode_gen orig old data))) = false.
Proof.
  intros orig old data. unfold lc_decode_gen. cbv zeta. destruct (zlen data <? 8) eqn:Hn; [reflexivity|].
  rewrite (ml_rd32_ok data 0) by lia. cbn [ml_bind].
  match goal with |- context [if negb ?c then _ else _] => destruct c; cbn [negb]; [|reflexivity] end.
  rewrite (ml_rd32_ok data 4) by lia. cbn [ml_bind].
  match goal with |- context [if ?c =? lc_fragd then _ else _] => destruct (c =? lc_fragd) end.
  - destruct (zlen data <? 20) eqn:C; [reflexivity|].
    rewrite !ml_rd32_ok by lia. rewrite !cd_rd16_ok by lia. cbn [ml_bind]. apply lc_tail_no_panic. lia.
  - destruct orig; apply lc_tail_no_panic; lia.
Qed.
Print Assumptions C19_lcm_no_panic.

Lemma lc_tail_fresh old st st' data magic seq frag ps fo fn tf off :
  let r1 := lc_tail false old st data magic seq frag ps fo fn tf off in
  let r2 := lc_tail false lc_fresh st' data magic seq frag ps fo fn tf off in
  snd (fst r1) = snd (fst r2) /\ snd r1 = snd r2 /\ (snd (fst r1) = Ok tt -> fst (fst r1) = fst (fst r2)).
Proof.
  cbv zeta. unfold lc_tail. cbv zeta.
  repeat (xstep; try solve [cbn [fst snd]; split; [reflexivity | split; [reflexivity | try (intros X; discriminate X); try reflexivity]]]).
  all: try (cbn [fst snd]; split; [reflexivity | split; [reflexivity | intros _; reflexivity]]).
Qed.

Theorem C05_lcm_fresh : forall old data,
  let r1 := lc_decode_into old data in
  let r2 := lc_decode_into lc_fresh data in
  snd (fst r1) = snd (fst r2) /\ snd r1 = snd r2 /\
  (snd (fst r1) = Ok tt -> fst (fst r1) = fst (fst r2)).
Proof.
  intros old data. cbv zeta. unfold lc_decode_into, lc_decode_gen. cbv zeta.
  repeat (first [ apply lc_tail_fresh | xstep ]; try solve [cbn [fst snd]; split; [reflexivity | split; [reflexivity | try (intros X; discriminate X); try reflexivity]]]).
Qed.
Print Assumptions C05_lcm_fresh.

(* before the repair: a later fragment decoded into an object that held a short message keeps its channel name *)
Theorem C05_lcm_orig_refuted : exists old data,
  snd (fst (lc_decode_gen true old data)) = Ok tt /\ snd (fst (lc_decode_gen true lc_fresh data)) = Ok tt /\
  fst (fst (lc_decode_gen true old data)) <> fst (fst (lc_decode_gen true lc_fresh data)).
Proof.
  exists (fst (fst (lc_decode_gen true lc_fresh [76;67;48;50; 0;0;0;1; 65;0; 1;2;3;4;5;6;7;8]))).
  exists [76;67;48;51; 0;0;0;2; 0;0;0;9; 0;0;0;4; 0;1; 0;2; 7].
  repeat split; try (vm_compute; reflexivity). vm_compute. intros X. discriminate X.
Qed.

Theorem C01_lcm_render_total : forall old data, lc_render_panics (fst (fst (lc_decode_into old data))) = false.
Proof. reflexivity. Qed.

Example Llcm_nonvacuous :
  lc_decode_into lc_fresh [76;67;48;50; 0;0;0;1; 65;66;0; 1;2;3;4;5;6;7;8; 9] =
    (mkLc [76;67;48;50; 0;0;0;1; 65;66;0] [1;2;3;4;5;6;7;8; 9] 1279471666 1 0 0 0 0 [65;66] false [1;2;3;4;5;6;7;8], Ok tt, false) /\
  lc_next (fst (fst (lc_decode_into lc_fresh [76;67;48;50; 0;0;0;1; 65;66;0; 1;2;3;4;5;6;7;8; 9]))) = 1 /\
  lc_next (fst (fst (lc_decode_into lc_fresh [76;67;48;51; 0;0;0;2; 0;0;0;9; 0;0;0;4; 0;1; 0;2; 7]))) = 2 /\
  lc_name (fst (fst (lc_decode_into lc_fresh [76;67;48;50; 0;0;0;1; 65;66]))) = [65;66] /\
  snd (fst (lc_decode_into lc_fresh [76;67;48;51; 0;0;0;2; 0;0;0;9; 0;0;0;4; 0;1; 0])) = Err 3.
Proof. repeat split; vm_compute; reflexivity. Qed.
