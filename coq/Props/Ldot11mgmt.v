From GP Require Import Base Codec MiscLib Ldot11mgmtModel.
Open Scope Z_scope.
Theorem C01_dot11mgmt_ie_render_total : forall old data, ie_render_panics (fst (fst (ie_decode_into old data))) = false.
Proof. reflexivity. Qed.
