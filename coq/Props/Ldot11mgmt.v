(* Ldot11mgmt — 802.11 management bodies with fixed parts, Dot11InformationElement and the element walk
   (layers/dot11.go as repaired on agent-ldot11): contributions to C19, C05, C06, C07, C01. *)
From GP Require Import Base Codec MiscLib Ldot11mgmtModel Ldot11mgmtProofs Ldot11mgmtSer.
Open Scope Z_scope.

(* the information element: all byte strings, all receiver states *)
Theorem C19_dot11mgmt_ie_no_panic : forall old data, bytes_ok data -> is_panic (snd (fst (ie_decode_into old data))) = false.
Proof. exact ie_decode_no_panic. Qed.
Print Assumptions C19_dot11mgmt_ie_no_panic.

(* every body with fixed parts (any list of non-negative field widths; the eight kinds are instances) *)
Theorem C19_dot11mgmt_body_no_panic : forall ws setsp old data, widths_ok ws ->
  is_panic (snd (fst (mg_decode_into ws setsp old data))) = false.
Proof. exact mg_decode_no_panic. Qed.
Print Assumptions C19_dot11mgmt_body_no_panic.

(* the element walk (the packet decoding loop over Dot11InformationElement layers): no panic, and len(data) rounds of
   fuel are never exhausted, because every element consumes at least its two header octets *)
Theorem C19_dot11mgmt_walk_no_panic : forall data acc, bytes_ok data ->
  is_panic (snd (fst (ie_walk (length data) data acc))) = false.
Proof. intros data acc Hb. exact (proj1 (ie_walk_safe (length data) data acc Hb (Nat.le_refl _))). Qed.
Print Assumptions C19_dot11mgmt_walk_no_panic.
Theorem C19_dot11mgmt_walk_fuel : forall data acc, bytes_ok data -> snd (fst (ie_walk (length data) data acc)) <> Err 99.
Proof. intros data acc Hb. exact (proj2 (ie_walk_safe (length data) data acc Hb (Nat.le_refl _))). Qed.
Print Assumptions C19_dot11mgmt_walk_fuel.

(* C05: OUI and ExtensionID are reset (repair); ID, Length, Info, Contents, Payload assigned on every path that returns nil *)
Theorem C05_dot11mgmt_ie_fresh : forall old data,
  let r1 := ie_decode_into old data in
  let r2 := ie_decode_into ie_fresh data in
  snd (fst r1) = snd (fst r2) /\ snd r1 = snd r2 /\ (snd (fst r1) = Ok tt -> fst (fst r1) = fst (fst r2)).
Proof. exact ie_decode_fresh. Qed.
Print Assumptions C05_dot11mgmt_ie_fresh.

(* bodies whose decoder sets Payload (all but Disassociation/Deauthentication, which leave Payload as it was — the
   packet decoder always hands them a new object) *)
Theorem C05_dot11mgmt_body_fresh : forall ws old data,
  let r1 := mg_decode_into ws true old data in
  let r2 := mg_decode_into ws true (mg_fresh ws) data in
  snd (fst r1) = snd (fst r2) /\ snd r1 = snd r2 /\ (snd (fst r1) = Ok tt -> fst (fst r1) = fst (fst r2)).
Proof. exact mg_decode_fresh. Qed.
Print Assumptions C05_dot11mgmt_body_fresh.

Theorem C01_dot11mgmt_render_total : forall old data ws setsp oldb,
  ie_render_panics (fst (fst (ie_decode_into old data))) = false /\
  mg_render_panics (fst (fst (mg_decode_into ws setsp oldb data))) = false.
Proof. split; reflexivity. Qed.

(* C07: every element value (any ID, OUI and Info of any length: an error above 255 octets) and every body value;
   the output is given explicitly (ie_serialize_eq, mg_serialize_eq), so it cannot depend on the buffer's prior content *)
Theorem C07_dot11mgmt_no_panic :
  (forall l payload fixl csum junk, is_panic (fst (ie_serialize l payload fixl csum junk)) = false) /\
  (forall ws l payload fixl csum junk, widths_ok ws -> is_panic (fst (mg_serialize ws l payload fixl csum junk)) = false).
Proof.
  split.
  - intros. rewrite ie_serialize_eq. destruct (ie_len_of l >? 255); reflexivity.
  - intros ws l payload fixl csum junk Hw. rewrite mg_serialize_eq by exact Hw. reflexivity.
Qed.
Print Assumptions C07_dot11mgmt_no_panic.

Theorem C07_dot11mgmt_junk_free :
  (forall l payload fixl csum junk1 junk2, ie_serialize l payload fixl csum junk1 = ie_serialize l payload fixl csum junk2) /\
  (forall ws l payload fixl csum junk1 junk2, widths_ok ws -> mg_serialize ws l payload fixl csum junk1 = mg_serialize ws l payload fixl csum junk2).
Proof.
  split.
  - intros. rewrite !ie_serialize_eq. reflexivity.
  - intros ws l payload fixl csum junk1 junk2 Hw. rewrite !mg_serialize_eq by exact Hw. reflexivity.
Qed.
Print Assumptions C07_dot11mgmt_junk_free.

(* C06 for the element, domain ie_wf: octet ranges, a 4 octet OUI exactly on vendor elements, the extension ID only on
   ID 255, at most 255 octets: decoding the written bytes into any object gives the fields, Length, Contents and the payload back *)
Theorem C06_dot11mgmt_ie_roundtrip : forall l payload fixl csum junk bytes l' old,
  ie_wf l -> ie_serialize l payload fixl csum junk = (Ok bytes, l') ->
  exists d, ie_decode_into old bytes = (d, Ok tt, false) /\ ie_payload d = payload /\ ie_id d = ie_id l /\
    ie_oui d = ie_oui l /\ ie_info d = ie_info l /\ ie_ext d = ie_ext l /\ ie_len d = zlen bytes - zlen payload - 2 /\
    ie_contents d = ie_bytes l.
Proof. exact ie_roundtrip. Qed.
Print Assumptions C06_dot11mgmt_ie_roundtrip.

(* C06 for the bodies that set Payload: a value whose fields have their widths comes back with its payload; Contents is the
   whole input (Dot11Mgmt.DecodeFromBytes).  Disassociation/Deauthentication: the fields come back the same way, Payload is not set. *)
Theorem C06_dot11mgmt_body_roundtrip : forall ws l payload fixl csum junk bytes l' old,
  widths_ok ws -> Forall2 (fun w v => zlen v = w) ws (mg_fields l) -> mg_serialize ws l payload fixl csum junk = (Ok bytes, l') ->
  exists d, mg_decode_into ws true old bytes = (d, Ok tt, false) /\ mg_fields d = mg_fields l /\ mg_payload d = payload /\ mg_contents d = bytes.
Proof. exact mg_roundtrip. Qed.
Print Assumptions C06_dot11mgmt_body_roundtrip.

Example Ldot11mgmt_ie_wf_nonvacuous : ie_wf (mkIe [] [] 255 0 [] [1;2;3] 35) /\ ie_wf (mkIe [] [] 221 0 [0;80;242;1] [7] 0) /\ ie_wf (mkIe [] [] 0 0 [] [65;66] 0).
Proof. repeat split; try (repeat constructor; cbn; lia); try (cbn; lia); try reflexivity; try (right; reflexivity); cbn; auto. Qed.

Example Ldot11mgmt_nonvacuous :
  (* an extension element written and read back (the repaired path), a vendor element, and a beacon body with two elements *)
  fst (ie_serialize (mkIe [] [] 255 0 [] [1;2;3] 35) [9] true true [170]) = Ok [255;4;35;1;2;3;9] /\
  ie_decode_into ie_fresh [255;4;35;1;2;3;9] = (mkIe [255;4;35;1;2;3] [9] 255 4 [] [1;2;3] 35, Ok tt, false) /\
  ie_decode_into ie_fresh [221;5;0;80;242;1;7] = (mkIe [221;5;0;80;242;1;7] [] 221 5 [0;80;242;1] [7] 0, Ok tt, false) /\
  snd (fst (mg_walk [8;2;2] ([1;2;3;4;5;6;7;8;100;0;1;4] ++ [0;2;65;66] ++ [1;1;130]))) = Ok tt /\
  length (snd (fst (fst (mg_walk [8;2;2] ([1;2;3;4;5;6;7;8;100;0;1;4] ++ [0;2;65;66] ++ [1;1;130]))))) = 2%nat /\
  snd (fst (mg_walk [8;2;2] ([1;2;3;4;5;6;7;8;100;0;1;4] ++ [0;2;65;66] ++ [1;9;130]))) = Err 2.
Proof. repeat split; vm_compute; reflexivity. Qed.
