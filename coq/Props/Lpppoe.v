(* Lpppoe — PPPoE codec (layers/pppoe.go): contributions to C19, C06, C07, C01.
   PPPoE has no DecodeFromBytes: decodePPPoE allocates a new layer per call, so there is no
   receiver state and C05 has nothing to say (poe_decode has no `old` argument). *)
From GP Require Import Base Codec MiscLib LpppoeModel LpppoeProofs.
Open Scope Z_scope.

Theorem C19_pppoe_no_panic : forall data, bytes_ok data -> is_panic (snd (fst (poe_decode data))) = false.
Proof. exact poe_decode_no_panic. Qed.
Print Assumptions C19_pppoe_no_panic.

(* C06 with FixLengths: 4-bit version/type, 8-bit code, 16-bit session, payload < 65536 bytes *)
Theorem C06_pppoe_roundtrip : forall l payload csum junk bytes l',
  poe_wf l payload -> poe_serialize l payload true csum junk = (Ok bytes, l') ->
  l' = poe_fixed true l payload /\ bytes = poe_hdr l' ++ payload /\
  poe_decode bytes =
    (mkPoe (poe_hdr l') payload (o_version l) (o_type l) (o_code l) (o_session l) (zlen payload), Ok tt, false).
Proof. exact poe_roundtrip. Qed.
Print Assumptions C06_pppoe_roundtrip.

Theorem C06_pppoe_decoded_wf : forall data l tr, bytes_ok data -> poe_decode data = (l, Ok tt, tr) ->
  poe_wf l (o_payload l) /\ o_length l = zlen (o_payload l).
Proof. exact poe_decoded_wf. Qed.
Print Assumptions C06_pppoe_decoded_wf.

(* total: SerializeTo cannot fail or panic for any field values *)
Theorem C07_pppoe_no_panic : forall l payload fixl csum junk,
  is_panic (fst (poe_serialize l payload fixl csum junk)) = false.
Proof. exact poe_serialize_no_panic. Qed.
Print Assumptions C07_pppoe_no_panic.

Theorem C07_pppoe_junk_free : forall l payload fixl csum junk1 junk2,
  poe_serialize l payload fixl csum junk1 = poe_serialize l payload fixl csum junk2.
Proof. exact poe_serialize_junk_free. Qed.
Print Assumptions C07_pppoe_junk_free.

Theorem C01_pppoe_render_total : forall data, poe_render_panics (fst (fst (poe_decode data))) = false.
Proof. reflexivity. Qed.

Example Lpppoe_nonvacuous :
  let l := mkPoe [] [] 1 1 0 17 0 in
  poe_wf l [192;33;1] /\ fst (poe_serialize l [192;33;1] true false [9;9;9;9;9;9]) = Ok [17;0;0;17;0;3;192;33;1].
Proof. split; [unfold poe_wf; cbn; lia|vm_compute; reflexivity]. Qed.
