(* C20 — Stream reader returns exactly the delivered bytes; never wedges the assembler.
   tcpassembly/tcpreader/reader.go:107-212 modelled in Model/C20Model.v as two processes
   (assembler: Reassembled(batch)* ; ReassemblyComplete — consumer: Read(n) / Close /
   read-until-EOF calls) over the two unbuffered channels, one step per channel operation.
   [fixed le] is the repaired code with LossErrors = le, made by NewReaderStream;
   [close_orig], [strip_orig] are the code as it was.
   Property theorems only; each is closed by a lemma of Proofs/C20*.v. *)
From GP Require Import Base C20Model Diamond C20Measure C20Confluence C20Progress C20Bytes C20Main.
Open Scope nat_scope.

(* ---- C20_bytes.  For every delivery history (batches, empty batches, empty slices, skips),
   every consumer program without Close (any read sizes, 0 included, any read-until-EOF loops),
   LossErrors or not, and every reachable state under every interleaving:
   the events Read has returned (bytes; one loss per Reassembly with Skip <> 0 when LossErrors)
   followed by what is pending in the reader and in the assembler are the delivered events, in
   order — nothing lost, duplicated or reordered;  once an EOF has been returned, or both sides
   are done, everything has been returned;  after the first EOF every Read returns (0, EOF). *)
Theorem C20_bytes : forall le hist prog s, no_close prog = true -> reach (fixed le) hist prog s ->
  ev_out (out (cs s)) ++ ev_cur le (lrep (cs s)) (cur (cs s)) ++ ev_a le (ap s) = ev_hist le hist /\
  (has_eof (out (cs s)) = true -> ev_out (out (cs s)) = ev_hist le hist) /\
  (terminal s -> ev_out (out (cs s)) = ev_hist le hist) /\
  sticky (out (cs s)).
Proof. exact bytes_main. Qed.
Print Assumptions C20_bytes.

(* in plain terms: the bytes are the concatenation of the delivered bytes; DataLost exactly once
   per delivered Reassembly with Skip <> 0 when asked to, never otherwise *)
Theorem C20_bytes_concat : forall le hist prog s, no_close prog = true -> reach (fixed le) hist prog s ->
  (terminal s \/ has_eof (out (cs s)) = true) ->
  out_bytes (out (cs s)) = all_bytes hist /\
  out_losses (out (cs s)) = (if le then all_skips hist else 0).
Proof. exact bytes_projected. Qed.
Print Assumptions C20_bytes_concat.

(* a consumer that reads until EOF is given everything and then EOF, under every schedule:
   every maximal run ends with both sides done *)
Theorem C20_bytes_reader_to_eof : forall le hist prog, no_close prog = true -> has_drain prog = true ->
  forall n s, steps (step (fixed le)) n (init (fixed le) hist prog) s -> nf (step (fixed le)) s ->
  terminal s /\ has_eof (out (cs s)) = true /\
  ev_out (out (cs s)) = ev_hist le hist /\
  out_bytes (out (cs s)) = all_bytes hist /\
  out_losses (out (cs s)) = (if le then all_skips hist else 0).
Proof. exact drain_gets_everything. Qed.
Print Assumptions C20_bytes_reader_to_eof.

(* with Close anywhere: what was read is a prefix of what was delivered, and once a Close or an
   EOF has been returned every later Read returns (0, EOF) *)
Theorem C20_bytes_any_program : forall le hist prog s, reach (fixed le) hist prog s ->
  (exists rest, ev_out (out (cs s)) ++ rest = ev_hist le hist) /\
  (exists rest, out_bytes (out (cs s)) ++ rest = all_bytes hist) /\
  sticky (out (cs s)).
Proof. exact bytes_any_program. Qed.
Print Assumptions C20_bytes_any_program.

Example C20_bytes_nonvacuous : exists n s,
  steps (step (fixed true)) n (init (fixed true) ex_hist ex_prog) s /\ terminal s /\
  rev (out (cs s)) =
    [ORead 2 [1; 2]%Z ENil; ORead 0 [] ENil; ORead 2 [3]%Z ENil; ORead 2 [] ELost; ORead 2 [] ELost;
     ORead 2 [4; 5]%Z ENil; ORead 2 [] EEOF].
Proof. exact ex_run. Qed.

(* ---- C20_progress.  For every history, every consumer program that calls Close at some point
   (before the first Reassembled, between batches, mid-batch, after EOF, twice, with reads after
   it) or reads until EOF, every interleaving: no reachable state is stuck — some step is
   enabled unless both sides are done — and neither side has panicked. *)
Theorem C20_progress : forall le hist prog, good_prog prog = true ->
  forall n s, steps (step (fixed le)) n (init (fixed le) hist prog) s ->
  (terminal s \/ exists s', step (fixed le) s s') /\ ap s <> APanic /\ pc (cs s) <> CPanic.
Proof. exact progress. Qed.
Print Assumptions C20_progress.

(* no panic for any program whatever (also one that stops reading) *)
Theorem C20_no_panic : forall le hist prog n s,
  steps (step (fixed le)) n (init (fixed le) hist prog) s -> ap s <> APanic /\ pc (cs s) <> CPanic.
Proof. exact no_panic. Qed.
Print Assumptions C20_no_panic.

(* every step decreases the measure: all runs are finite, for every code variant, so no fairness
   assumption is needed *)
Theorem C20_terminates : forall g s s', step g s s' -> mu g s' < mu g s.
Proof. exact mu_decreases. Qed.
Print Assumptions C20_terminates.

(* hence every run is at most [mu] long and every maximal run ends with both sides done *)
Theorem C20_completes : forall le hist prog, good_prog prog = true ->
  forall n s, steps (step (fixed le)) n (init (fixed le) hist prog) s ->
  n <= mu (fixed le) (init (fixed le) hist prog) /\
  (nf (step (fixed le)) s -> terminal s).
Proof. exact completes. Qed.
Print Assumptions C20_completes.

Theorem C20_run_completes : forall le hist prog, good_prog prog = true ->
  let s0 := init (fixed le) hist prog in
  snd (run (fixed le) (mu (fixed le) s0) s0) = true /\ terminal (fst (run (fixed le) (mu (fixed le) s0) s0)).
Proof. exact run_completes. Qed.
Print Assumptions C20_run_completes.

Example C20_progress_nonvacuous : exists n s,
  steps (step (fixed true)) n (init (fixed true) ex_hist ex_close_prog) s /\ terminal s /\
  rev (out (cs s)) = [ORead 2 [1; 2]%Z ENil; OClose; ORead 4 [] EEOF; OClose].
Proof. exact ex_close_run. Qed.

(* the assembler is held up (blocked in <-r.done) only while the consumer holds the batch it was
   given: between two calls, or already at the acknowledging send of Read / Close *)
Theorem C20_assembler_waits_only_for_reader : forall le hist prog n s,
  steps (step (fixed le)) n (init (fixed le) hist prog) s -> is_wait (ap s) = true ->
  match pc (cs s) with
  | CReadSend _ _ | CCloseAck | CCloseSend => True
  | CIdle => first (cs s) = false /\ closed (cs s) = false
  | _ => False
  end.
Proof. exact assembler_waits_only_for_reader. Qed.
Print Assumptions C20_assembler_waits_only_for_reader.

(* ---- rendezvous determinism: every code variant whose channel operations are all blocking
   ([ack_nb g = false]: the code as it was and as repaired) has the diamond property, so all maximal
   runs from a state have the same length and the same final state; the executable canonical
   schedule computes it and any other scheduling function gives the same result.  This is why
   the correspondence needs no control over the Go scheduler. *)
Theorem C20_schedule_independent : forall g s n1 t1 n2 t2, ack_nb g = false ->
  steps (step g) n1 s t1 -> nf (step g) t1 -> steps (step g) n2 s t2 -> nf (step g) t2 ->
  t1 = t2 /\ n1 = n2.
Proof. exact maximal_runs_agree. Qed.
Print Assumptions C20_schedule_independent.

Theorem C20_run_is_the_outcome : forall g s n t, ack_nb g = false -> steps (step g) n s t -> nf (step g) t ->
  run g (mu g s) s = (t, true).
Proof. exact run_is_the_outcome. Qed.

Theorem C20_any_scheduler_same_result : forall g sched s, ack_nb g = false ->
  run_sched g sched (mu g s) 0 s = run g (mu g s) s.
Proof. exact run_sched_independent. Qed.
Print Assumptions C20_any_scheduler_same_result.

(* ---- the code as it was.  The statements above, parametric in the code variant: *)
Definition C20_progress_statement := progress_statement.
Definition C20_bytes_statement := bytes_statement.

Theorem C20_progress_holds_repaired : forall le, progress_statement (fixed le).
Proof. exact progress_statement_fixed. Qed.
Theorem C20_bytes_holds_repaired : forall le, bytes_statement (fixed le).
Proof. exact bytes_statement_fixed. Qed.

(* Close of the unrepaired tree: history [[{Bytes: 01 02}]], program Read(1); Close().  The run
   ends — under every schedule, by C20_schedule_independent — with Close waiting on
   r.reassembled and the assembler waiting on r.done. *)
Theorem C20_progress_refuted : forall le, exists n s,
  good_prog refute_prog = true /\
  steps (step (close_orig le)) n (init (close_orig le) refute_hist refute_prog) s /\
  nf (step (close_orig le)) s /\ ~ terminal s /\
  pc (cs s) = CCloseRecv /\ ap s = AWait [] /\
  rev (out (cs s)) = [ORead 1 [1%Z] ENil].
Proof. exact progress_refuted. Qed.
Print Assumptions C20_progress_refuted.

Theorem C20_progress_statement_refuted : forall le, ~ progress_statement (close_orig le).
Proof. exact progress_statement_close_orig_false. Qed.

(* and not only for that witness: whenever the unrepaired Close starts while the assembler is
   waiting for an acknowledgement, the resulting state is stuck *)
Theorem C20_close_orig_stuck_whenever_held : forall le c ro rest d,
  nf (step (close_orig le)) (mkS (close_begin (close_orig le) (set_ops c ro)) (AWait rest) false d).
Proof. exact close_orig_stuck. Qed.

(* The acknowledgement in Close must be a BLOCKING send.  With the non-blocking variant
   select { case r.done <- true: default: } ("Close must never block") the acknowledgement is
   dropped when the assembler's send on r.reassembled has completed but the assembler is not yet
   parked in <-r.done (pc ASent): same history and program as above; under the consumer-first
   schedule both sides end up waiting for ever, under the assembler-first schedule they finish. *)
Theorem C20_nonblocking_ack_refuted : forall le,
  let g := nonblocking_ack le in
  (exists n s, good_prog refute_prog = true /\
     steps (step g) n (init g refute_hist refute_prog) s /\ nf (step g) s /\ ~ terminal s /\
     pc (cs s) = CCloseRecv /\ ap s = AWait [] /\ rev (out (cs s)) = [ORead 1 [1%Z] ENil] /\
     run_sched g (fun _ => false) (mu g (init g refute_hist refute_prog)) 0 (init g refute_hist refute_prog) = (s, true)) /\
  (exists n s, steps (step g) n (init g refute_hist refute_prog) s /\ terminal s /\
     run_sched g (fun _ => true) (mu g (init g refute_hist refute_prog)) 0 (init g refute_hist refute_prog) = (s, true)).
Proof. exact nonblocking_ack_refuted. Qed.
Print Assumptions C20_nonblocking_ack_refuted.

Theorem C20_nonblocking_ack_statement_refuted : forall le, ~ progress_statement (nonblocking_ack le).
Proof. exact progress_statement_nonblocking_ack_false. Qed.

(* stripEmpty of the unrepaired tree, LossErrors set: history [[{Bytes: empty, Skip: 3}]],
   read until EOF: EOF at once, the loss is never reported *)
Theorem C20_loss_refuted : exists n s,
  no_close loss_prog = true /\
  steps (step (strip_orig true)) n (init (strip_orig true) loss_hist loss_prog) s /\
  nf (step (strip_orig true)) s /\ terminal s /\
  ev_hist true loss_hist = [EvLost] /\ ev_out (out (cs s)) = [] /\
  rev (out (cs s)) = [ORead 1 [] EEOF].
Proof. exact loss_refuted. Qed.
Print Assumptions C20_loss_refuted.

Theorem C20_bytes_statement_refuted : ~ bytes_statement (strip_orig true).
Proof. exact bytes_statement_strip_orig_false. Qed.
