(* Lfddi — FDDI header decoder (layers/fddi.go): contributions to C19, C01. No DecodeFromBytes (C05 n/a), no SerializeTo (C06/C07 n/a). *)
From GP Require Import Base ListX Codec MiscLib LfddiModel.
From Coq Require Import Lia ZifyBool ZifyNat.
Open Scope Z_scope.
Ltac Zify.zify_post_hook ::= Z.div_mod_to_equations.

Ltac xstep :=
  match goal with
  | |- context [ml_bind ?o _ _ _] => destruct o eqn:?; cbn [ml_bind]
  | |- context [if ?c then _ else _] => destruct c eqn:?
  end.

Theorem C19_fddi_no_panic : forall data, is_panic (snd (fst (fd_decode data))) = false.
Proof.
  intros data. unfold fd_decode. cbv zeta. destruct (zlen data <? 13) eqn:Hn; [reflexivity|].
  rewrite ?cd_idx_ok by lia. rewrite ?cd_rd16_ok by lia. rewrite ?cd_slc_ok by lia. reflexivity.
Qed.
Print Assumptions C19_fddi_no_panic.

(* what success means: the header is the first 13 octets, the payload the rest *)
Theorem C19_fddi_shape : forall data l tr, fd_decode data = (l, Ok tt, tr) ->
  fd_contents l ++ fd_payload l = data /\ zlen (fd_contents l) = 13 /\ tr = false.
Proof.
  intros data l tr. unfold fd_decode. cbv zeta. destruct (zlen data <? 13) eqn:Hn; [discriminate|].
  rewrite ?cd_idx_ok by lia. rewrite ?cd_rd16_ok by lia. rewrite ?cd_slc_ok by lia. cbn [ml_bind]. intros X.
  match type of X with (?t, _, _) = _ => assert (El : l = t) by congruence end. assert (tr = false) by congruence. subst l. clear X.
  cbn [fd_contents fd_payload]. split; [|split; [|assumption]].
  - unfold slice. change (Z.to_nat 0) with 0%nat. cbn [skipn]. rewrite (firstn_all2 (n := Z.to_nat (zlen data)) data) by (unfold zlen; lia). apply firstn_skipn.
  - unfold zlen in *. rewrite slice_length by lia. lia.
Qed.
Print Assumptions C19_fddi_shape.

Theorem C01_fddi_render_total : forall data, fd_render_panics (fst (fst (fd_decode data))) = false.
Proof. reflexivity. Qed.

Example Lfddi_nonvacuous : fd_decode [87;1;2;3;4;5;6;7;8;9;10;11;12;170] = (mkFd [87;1;2;3;4;5;6;7;8;9;10;11;12] [170] 80 7 [1;2;3;4;5;6] [7;8;9;10;11;12], Ok tt, false).
Proof. vm_compute. reflexivity. Qed.
