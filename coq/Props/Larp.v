(* Larp — ARP codec (layers/arp.go): contributions to C19, C05, C06, C07, C01. *)
From GP Require Import Base Codec MiscLib LarpModel LarpProofs.
Open Scope Z_scope.

Theorem C19_arp_no_panic : forall old data, bytes_ok data ->
  is_panic (snd (fst (arp_decode_into old data))) = false.
Proof. exact arp_decode_no_panic. Qed.
Print Assumptions C19_arp_no_panic.

(* C05: same outcome and truncation as a fresh object; on success the same layer.  (On an error
   return the receiver keeps old address slices next to new size fields: arp.go:48-59.) *)
Theorem C05_arp_fresh : forall old data,
  let r1 := arp_decode_into old data in
  let r2 := arp_decode_into arp_fresh data in
  snd (fst r1) = snd (fst r2) /\ snd r1 = snd r2 /\
  (snd (fst r1) = Ok tt -> fst (fst r1) = fst (fst r2)).
Proof. exact arp_decode_fresh. Qed.
Print Assumptions C05_arp_fresh.

(* C06: 16-bit fields in range, address pairs of equal length < 256 (and, without FixLengths,
   size fields equal to the address lengths): header ++ payload is written; decoding it into any
   object gives the same fields, addresses and payload, no error, no truncation. *)
Theorem C06_arp_roundtrip : forall l payload fixl csum junk bytes l' old,
  arp_wf fixl l -> arp_serialize l payload fixl csum junk = (Ok bytes, l') ->
  l' = arp_fixed fixl l /\ bytes = arp_hdr l' ++ payload /\
  arp_decode_into old bytes =
    (mkArp (arp_hdr l') payload (a_addrtype l) (a_proto l) (zlen (a_shw l)) (zlen (a_sprot l)) (a_op l)
           (a_shw l) (a_sprot l) (a_dhw l) (a_dprot l), Ok tt, false).
Proof. exact arp_roundtrip. Qed.
Print Assumptions C06_arp_roundtrip.

Theorem C06_arp_decoded_wf : forall old data l tr fixl, bytes_ok data ->
  arp_decode_into old data = (l, Ok tt, tr) -> arp_wf fixl l.
Proof. exact arp_decoded_wf. Qed.
Print Assumptions C06_arp_decoded_wf.

(* re-serializing the decoded layer (any options, any buffer content) gives the same bytes *)
Theorem C06_arp_fixpoint : forall l payload fixl csum junk junk' fixl' csum' bytes l' d tr,
  arp_wf fixl l -> arp_serialize l payload fixl csum junk = (Ok bytes, l') ->
  arp_decode_into arp_fresh bytes = (d, Ok tt, tr) ->
  fst (arp_serialize d (a_payload d) fixl' csum' junk') = Ok bytes.
Proof.
  intros l payload fixl csum junk junk' fixl' csum' bytes l' d tr Hwf H D.
  destruct (arp_roundtrip l payload fixl csum junk bytes l' arp_fresh Hwf H) as [El [Eb Ed]].
  rewrite Ed in D. assert (Hd : d = mkArp (arp_hdr l') payload (a_addrtype l) (a_proto l) (zlen (a_shw l)) (zlen (a_sprot l)) (a_op l)
           (a_shw l) (a_sprot l) (a_dhw l) (a_dprot l)) by congruence. clear D.
  destruct Hwf as [Hat [Hpr [Hop [Hh [Hp [Hh2 [Hp2 Hnf]]]]]]].
  pose proof (zlen_nonneg (a_shw l)); pose proof (zlen_nonneg (a_sprot l)).
  rewrite arp_serialize_spec. unfold arp_ser_spec. subst d. cbn [a_shw a_sprot a_dhw a_dprot a_payload].
  replace (zlen (a_shw l) =? zlen (a_dhw l)) with true by lia.
  replace (zlen (a_sprot l) =? zlen (a_dprot l)) with true by lia.
  rewrite !andb_false_r. cbn [fst]. rewrite Eb. f_equal. f_equal.
  assert (Hs : a_hwsize l' mod 256 = zlen (a_shw l) /\ a_protsize l' mod 256 = zlen (a_sprot l) /\
               a_addrtype l' = a_addrtype l /\ a_proto l' = a_proto l /\ a_op l' = a_op l /\
               a_shw l' = a_shw l /\ a_sprot l' = a_sprot l /\ a_dhw l' = a_dhw l /\ a_dprot l' = a_dprot l).
  { subst l'. destruct fixl; cbn [arp_fixed a_hwsize a_protsize a_addrtype a_proto a_op a_shw a_sprot a_dhw a_dprot].
    - rewrite !Z.mod_mod by lia. rewrite !Z.mod_small by lia. repeat split; reflexivity.
    - destruct (Hnf eq_refl) as [-> ->]. rewrite !Z.mod_small by lia. repeat split; reflexivity. }
  destruct Hs as [S1 [S2 [S3 [S4 [S5 [S6 [S7 [S8 S9]]]]]]]].
  unfold arp_hdr. rewrite S1, S2, S3, S4, S5, S6, S7, S8, S9.
  destruct fixl'; cbn [arp_fixed a_hwsize a_protsize a_addrtype a_proto a_op a_shw a_sprot a_dhw a_dprot];
    rewrite ?Z.mod_mod by lia; rewrite ?Z.mod_small by lia; reflexivity.
Qed.
Print Assumptions C06_arp_fixpoint.

Theorem C07_arp_no_panic : forall l payload fixl csum junk,
  is_panic (fst (arp_serialize l payload fixl csum junk)) = false.
Proof. exact arp_serialize_no_panic. Qed.
Print Assumptions C07_arp_no_panic.

Theorem C07_arp_junk_free : forall l payload fixl csum junk1 junk2,
  arp_serialize l payload fixl csum junk1 = arp_serialize l payload fixl csum junk2.
Proof. exact arp_serialize_junk_free. Qed.
Print Assumptions C07_arp_junk_free.

(* C01: no hand-written String method, no flow accessor: only the reflective, total renderers *)
Theorem C01_arp_render_total : forall old data,
  arp_render_panics (fst (fst (arp_decode_into old data))) = false.
Proof. reflexivity. Qed.

Example Larp_nonvacuous :
  let l := mkArp [] [] 1 2048 0 0 1 [1;2;3;4;5;6] [10;0;0;1] [0;0;0;0;0;0] [10;0;0;2] in
  arp_wf true l /\ exists bytes l', arp_serialize l [7] true false [9;9;9] = (Ok bytes, l') /\
    bytes = [0;1;8;0;6;4;0;1;1;2;3;4;5;6;10;0;0;1;0;0;0;0;0;0;10;0;0;2;7] /\ a_hwsize l' = 6 /\
    bytes_ok bytes.
Proof.
  split; [unfold arp_wf; cbn; repeat split; try lia; discriminate|].
  eexists. eexists. vm_compute. split; [reflexivity|]. split; [reflexivity|]. split; [reflexivity|].
  repeat constructor; discriminate.
Qed.
