(* Lmodbus — Modbus/TCP MBAP header decoder (layers/modbustcp.go): contributions to C19, C05, C01. No SerializeTo (C06/C07 n/a). *)
From GP Require Import Base ListX Codec MiscLib LmodbusModel.
From Coq Require Import Lia ZifyBool ZifyNat.
Open Scope Z_scope.
Ltac Zify.zify_post_hook ::= Z.div_mod_to_equations.

Ltac xstep :=
  match goal with
  | |- context [ml_bind ?o _ _ _] => destruct o eqn:?; cbn [ml_bind]
  | |- context [if ?c then _ else _] => destruct c eqn:?
  end.

Theorem C19_modbus_no_panic : forall old data, is_panic (snd (fst (mb_decode_into old data))) = false.
Proof.
  intros old data. unfold mb_decode_into. cbv zeta. destruct (zlen data <? 9) eqn:Hn; [reflexivity|]. destruct (260 <? zlen data); [reflexivity|].
  rewrite !cd_slc_ok by lia. rewrite !cd_rd16_ok by lia. cbn [ml_bind].
  match goal with |- context [if negb ?c then _ else _] => destruct c; cbn [negb] end; [|reflexivity].
  rewrite cd_idx_ok by lia. reflexivity.
Qed.
Print Assumptions C19_modbus_no_panic.

Theorem C05_modbus_fresh : forall old data,
  let r1 := mb_decode_into old data in
  let r2 := mb_decode_into mb_fresh data in
  snd (fst r1) = snd (fst r2) /\ snd r1 = snd r2 /\
  (snd (fst r1) = Ok tt -> fst (fst r1) = fst (fst r2)).
Proof.
  intros old data. cbv zeta. unfold mb_decode_into. cbv zeta.
  repeat (xstep; try solve [cbn [fst snd]; split; [reflexivity | split; [reflexivity | try (intros X; discriminate X); try reflexivity]]]).
  all: try (cbn [fst snd]; split; [reflexivity | split; [reflexivity | intros _; reflexivity]]).
Qed.
Print Assumptions C05_modbus_fresh.

(* success means: 9..260 octets, and the length field counts the unit identifier and the PDU *)
Theorem C19_modbus_shape : forall old data l tr, mb_decode_into old data = (l, Ok tt, tr) ->
  9 <= zlen data <= 260 /\ mb_length l = zlen (mb_payload l) + 1 /\ mb_contents l ++ mb_payload l = data /\ tr = false.
Proof.
  intros old data l tr. unfold mb_decode_into. cbv zeta. destruct (zlen data <? 9) eqn:Hn; [discriminate|]. destruct (260 <? zlen data) eqn:Hm; [discriminate|].
  rewrite !cd_slc_ok by lia. rewrite !cd_rd16_ok by lia. cbn [ml_bind].
  set (p := slice data (Z.to_nat 7) (Z.to_nat (zlen data))).
  assert (Hp : zlen p = zlen data - 7) by (unfold p, zlen in *; rewrite slice_length by lia; lia).
  match goal with |- context [if negb (?a =? ?b) then _ else _] => destruct (a =? b) eqn:E; cbn [negb] end; [|discriminate].
  rewrite cd_idx_ok by lia. cbn [ml_bind]. intros X.
  match type of X with (?t, _, _) = _ => assert (El : l = t) by congruence end. assert (tr = false) by congruence. subst l. clear X.
  cbn [mb_length mb_payload mb_contents]. fold p. split; [lia|]. split; [rewrite Hp in *; lia|]. split; [|assumption].
  unfold p, slice. change (Z.to_nat 0) with 0%nat. cbn [skipn]. rewrite (firstn_all2 (n := Z.to_nat (zlen data)) data) by (unfold zlen; lia). apply firstn_skipn.
Qed.
Print Assumptions C19_modbus_shape.

Theorem C01_modbus_render_total : forall old data, mb_render_panics (fst (fst (mb_decode_into old data))) = false.
Proof. reflexivity. Qed.

Example Lmodbus_nonvacuous : mb_decode_into mb_fresh [0;1;0;0;0;3;255;4;1] = (mkMb [0;1;0;0;0;3;255] [4;1] 1 0 3 255, Ok tt, false).
Proof. vm_compute. reflexivity. Qed.
