(* Licmp4 — ICMPv4 header codec (layers/icmp4.go): contributions to C19, C05, C06, C07, C01. *)
From GP Require Import Base Codec Licmp4Model Licmp4Proofs.
Open Scope Z_scope.

Theorem C19_icmp4_no_panic : forall old data, is_panic (snd (fst (icmp4_decode_into old data))) = false.
Proof. exact icmp4_decode_no_panic. Qed.
Print Assumptions C19_icmp4_no_panic.

Theorem C05_icmp4_fresh : forall old data,
  let r1 := icmp4_decode_into old data in
  let r2 := icmp4_decode_into icmp4_fresh data in
  snd (fst r1) = snd (fst r2) /\ snd r1 = snd r2 /\
  (snd (fst r1) = Ok tt -> fst (fst r1) = fst (fst r2)).
Proof. exact icmp4_decode_fresh. Qed.
Print Assumptions C05_icmp4_fresh.

(* C06: every layer with type/code, id, seq in range, every payload (any length, odd or even),
   any options (with ComputeChecksums, or a stored checksum in range): the bytes are
   header ++ payload and decode — into any object — to the same type/code, id, seq, the checksum
   SerializeTo left in the layer, and the same payload; no error, no truncation. *)
Theorem C06_icmp4_roundtrip : forall l payload fixl csum junk bytes l' old,
  icmp4_wf l -> (csum = true \/ 0 <= ic_csum l < 65536) ->
  icmp4_serialize l payload fixl csum junk = (Ok bytes, l') ->
  l' = ic_set_csum l (icmp4_ck l payload csum) /\ bytes = icmp4_hdr l' (ic_csum l') ++ payload /\
  icmp4_decode_into old bytes =
    (mkIcmp4 (icmp4_hdr l' (ic_csum l')) payload (ic_typecode l) (ic_csum l') (ic_id l) (ic_seq l), Ok tt, false).
Proof. exact icmp4_roundtrip. Qed.
Print Assumptions C06_icmp4_roundtrip.

Theorem C06_icmp4_fixpoint : forall l d payload fixl junk junk',
  ic_typecode d = ic_typecode l -> ic_id d = ic_id l -> ic_seq d = ic_seq l ->
  fst (icmp4_serialize d payload fixl true junk') = fst (icmp4_serialize l payload fixl true junk).
Proof. exact icmp4_fixpoint. Qed.
Print Assumptions C06_icmp4_fixpoint.

(* serialization always succeeds *)
Theorem C07_icmp4_no_panic : forall l payload fixl csum junk,
  is_panic (fst (icmp4_serialize l payload fixl csum junk)) = false.
Proof. exact icmp4_serialize_no_panic. Qed.
Print Assumptions C07_icmp4_no_panic.

Theorem C07_icmp4_junk_free : forall l payload fixl csum junk1 junk2,
  icmp4_serialize l payload fixl csum junk1 = icmp4_serialize l payload fixl csum junk2.
Proof. exact icmp4_serialize_junk_free. Qed.
Print Assumptions C07_icmp4_junk_free.

Theorem C01_icmp4_render_total : forall old data,
  icmp4_render_panics (fst (fst (icmp4_decode_into old data))) = false.
Proof. reflexivity. Qed.

(* non-vacuity: echo request with an odd payload, dirty buffer *)
Example Licmp4_nonvacuous :
  let l := mkIcmp4 [] [] 2048 0 4660 1 in
  icmp4_wf l /\ exists bytes l', icmp4_serialize l [97;98;99] true true (repeat 170 8) = (Ok bytes, l') /\
    bytes = [8;0;33;104;18;52;0;1;97;98;99].
Proof. split; [unfold icmp4_wf; cbn; lia|]. eexists; eexists. vm_compute. split; reflexivity. Qed.
