(* Ldot11ctrl — the 802.11 control sub-layers and Dot11WEP (layers/dot11.go): contributions to C19, C05, C01.  No SerializeTo: C06/C07 do not apply. *)
From GP Require Import Base Codec MiscLib Ldot11Model Ldot11subModel Ldot11subProofs.
Open Scope Z_scope.

Theorem C19_dot11ctrl_no_panic : forall k old data, is_panic (snd (fst (sb_decode_into k old data))) = false.
Proof. exact sb_decode_no_panic. Qed.
Print Assumptions C19_dot11ctrl_no_panic.

(* C05: after any history of earlier decodes into the same object, a decode gives what a fresh object gives (the component
   the decoder does not assign is never assigned by it, so it is still nil) *)
Theorem C05_dot11ctrl_fresh : forall k hist data,
  sb_decode_into k (fold_left (fun st d => fst (fst (sb_decode_into k st d))) hist sb_fresh) data = sb_decode_into k sb_fresh data.
Proof. exact sb_decode_fresh. Qed.
Print Assumptions C05_dot11ctrl_fresh.

Theorem C01_dot11ctrl_render_total : forall k old data, sb_render_panics (fst (fst (sb_decode_into k old data))) = false.
Proof. reflexivity. Qed.

Example Ldot11ctrl_nonvacuous :
  (* an RTS frame (two addresses) with two further octets: Dot11 then Dot11CtrlRTS holding them as Contents; an ACK with nothing *)
  sb_chain ([180;0;0;0] ++ repeat 1 6 ++ repeat 2 6 ++ [7;8] ++ [0;0;0;0]) = ([(0, 16, 2); (145, 2, 0)], false) /\
  sb_chain ([212;0;0;0] ++ repeat 1 6 ++ [0;0;0;0]) = ([(0, 10, 0)], false) /\
  (* a beacon: the body follows (Ldot11mgmt) *)
  sb_chain ([128;0;0;0] ++ repeat 1 18 ++ [0;0] ++ [9] ++ [0;0;0;0]) = ([(0, 24, 1)], true).
Proof. repeat split; vm_compute; reflexivity. Qed.
