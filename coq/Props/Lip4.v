(* Lip4 — IPv4 header codec (layers/ip4.go): contributions to C19, C05, C06, C07, C01.
   Property theorems only; each is closed by a lemma of Proofs/Lip4Proofs.v.
   `ip4_decode_into`/`ip4_serialize` model the code after the four fix: commits of branch
   agent-lnet4 of /repo; `*_orig` model the unchanged code and carry the refutations. *)
From GP Require Import Base Codec Lip4Model Lip4Proofs Lip4RtProofs Lip4WfProofs.
Open Scope Z_scope.

(* C19: DecodeFromBytes never panics — any previous receiver state, any list of integers as data
   (not even restricted to bytes), repaired and unchanged code alike. *)
Theorem C19_ip4_no_panic : forall fixed old data,
  is_panic (snd (fst (ip4_decode_gen fixed old data))) = false.
Proof. exact decode_no_panic. Qed.
Print Assumptions C19_ip4_no_panic.

(* the option loop's explicit fuel (length + 1) is never exhausted *)
Theorem C19_ip4_fuel : forall hd, op_out (ip4_parse_opts (S (length hd)) hd) <> Err ip4_fuel_err.
Proof. intros hd. apply parse_fuel. apply Nat.lt_succ_diag_r. Qed.
Print Assumptions C19_ip4_fuel.

(* C05: decoding into a reused object, whatever it held, gives the same outcome and truncation
   flag as decoding into a fresh one, and on success the same layer (every field, Contents,
   Payload).  (After an error the caller must not use the layer; the fields that were not
   reached keep their old values — that residue is what C01/C07 below quantify over.) *)
Theorem C05_ip4_fresh : forall old data,
  let r1 := ip4_decode_into old data in
  let r2 := ip4_decode_into ip4_fresh data in
  snd (fst r1) = snd (fst r2) /\ snd r1 = snd r2 /\
  (snd (fst r1) = Ok tt -> fst (fst r1) = fst (fst r2)).
Proof. exact decode_fresh. Qed.
Print Assumptions C05_ip4_fresh.

(* unchanged code: Padding of the previous packet survives (DESIGN.md section 9, C05) *)
Theorem C05_ip4_fresh_orig_refuted :
  exists old data, old = fst (fst (ip4_decode_into_orig ip4_fresh c05_witness_a)) /\
    snd (fst (ip4_decode_into_orig old data)) = Ok tt /\
    i4_padding (fst (fst (ip4_decode_into_orig old data))) = [170;187;204] /\
    i4_padding (fst (fst (ip4_decode_into_orig ip4_fresh data))) = [].
Proof. exact decode_fresh_orig_refuted. Qed.
Print Assumptions C05_ip4_fresh_orig_refuted.

(* C07: the output (bytes or error, and the layer as FixLengths/ComputeChecksums left it) does
   not depend on the prior content of the region PrependBytes returned — for EVERY layer value,
   payload and option set. *)
Theorem C07_ip4_junk_free : forall l payload fixl csum junk1 junk2,
  ip4_serialize l payload fixl csum junk1 = ip4_serialize l payload fixl csum junk2.
Proof. exact serialize_junk_free. Qed.
Print Assumptions C07_ip4_junk_free.

Theorem C07_ip4_junk_free_orig_refuted :
  fst (ip4_serialize_orig c07_witness [] true true (repeat 0 24)) <>
  fst (ip4_serialize_orig c07_witness [] true true (repeat 170 24)).
Proof. exact serialize_junk_orig_refuted. Qed.
Print Assumptions C07_ip4_junk_free_orig_refuted.

(* C07: SerializeTo never panics, for every layer value whose option type/length octets are
   uint8 (true of every Go value: decoded, error-path residue, or built from public fields);
   nothing is assumed about addresses, option data, lengths or the other fields. *)
Theorem C07_ip4_no_panic : forall l payload fixl csum junk,
  Forall opt_typed (i4_opts l) -> is_panic (fst (ip4_serialize l payload fixl csum junk)) = false.
Proof. exact serialize_no_panic. Qed.
Print Assumptions C07_ip4_no_panic.

Theorem C07_ip4_no_panic_orig_refuted :
  Forall opt_typed (i4_opts c07_panic_witness) /\
  is_panic (fst (ip4_serialize_orig c07_panic_witness [] true true [])) = true.
Proof. exact serialize_panic_orig_refuted. Qed.
Print Assumptions C07_ip4_no_panic_orig_refuted.

(* C06: for every well-formed layer (fields in range, 4 byte addresses, options that are NOPs or
   typed options with OptionLength = 2 + len(OptionData) >= 3, end-of-options only as the last
   option and otherwise whole 32 bit words, at most 40 option bytes — ip4_wf), every payload that
   fits the 16 bit total length, any buffer content: SerializeTo with FixLengths and
   ComputeChecksums succeeds, writes header ++ options area ++ payload, sets IHL and Length to the
   true sizes, and decoding the bytes — into any object — succeeds without truncation and gives
   back exactly the layer as SerializeTo left it (all fields, options in order), Contents = the
   header, Payload = the payload, Padding = the zero bytes that pad the options area. *)
Theorem C06_ip4_roundtrip : forall l payload junk old,
  ip4_wf l -> 20 + ip4_opt_size (i4_opts l) + zlen payload <= 65535 ->
  exists bytes l', ip4_serialize l payload true true junk = (Ok bytes, l') /\
    bytes = ip4_hdr l' (i4_src l) (i4_dst l) (i4_csum l') ++ ip4_area l ++ payload /\
    i4_ihl l' = 5 + ip4_opt_size (i4_opts l) / 4 /\ i4_length l' = zlen bytes /\
    l' = set_csum (ip4_fixed l payload) (i4_csum l') /\
    ip4_decode_into old bytes = (ip4_readback l' l payload, Ok tt, false).
Proof. exact ip4_roundtrip. Qed.
Print Assumptions C06_ip4_roundtrip.

(* C06: every layer obtained by decoding any byte string (into any object) is well-formed, so the
   round trip above applies to it: "for every layer value obtained by decoding any bytes" *)
Theorem C06_ip4_decoded_wf : forall old data l tr, bytes_ok data ->
  ip4_decode_into old data = (l, Ok tt, tr) -> ip4_wf l.
Proof. exact ip4_decoded_wf. Qed.
Print Assumptions C06_ip4_decoded_wf.

Theorem C06_ip4_decoded_roundtrip : forall old data l tr payload junk old',
  bytes_ok data -> ip4_decode_into old data = (l, Ok tt, tr) ->
  20 + ip4_opt_size (i4_opts l) + zlen payload <= 65535 ->
  exists bytes l', ip4_serialize l payload true true junk = (Ok bytes, l') /\
    ip4_decode_into old' bytes = (ip4_readback l' l payload, Ok tt, false).
Proof.
  intros old data l tr payload junk old' Hb Hd Hp.
  destruct (ip4_roundtrip l payload junk old' (ip4_decoded_wf old data l tr Hb Hd) Hp) as [bytes [l' [H1 [_ [_ [_ [_ H2]]]]]]].
  exists bytes, l'. split; assumption.
Qed.
Print Assumptions C06_ip4_decoded_roundtrip.

(* C06: serializing the layer read back reproduces the bytes *)
Theorem C06_ip4_fixpoint : forall l payload junk junk' bytes l',
  ip4_wf l -> 20 + ip4_opt_size (i4_opts l) + zlen payload <= 65535 ->
  ip4_serialize l payload true true junk = (Ok bytes, l') ->
  fst (ip4_serialize (ip4_readback l' l payload) payload true true junk') = Ok bytes.
Proof. exact ip4_fixpoint. Qed.
Print Assumptions C06_ip4_fixpoint.

(* C06, Padding: SerializeTo never reads the Padding field, so the bytes a decoded header carried
   after end-of-options come back as zeros (known finding Lip4-padding-not-serialized) *)
Theorem C06_ip4_padding_refuted :
  let l := fst (fst (ip4_decode_into ip4_fresh c05_witness_a)) in
  i4_padding l = [170;187;204] /\
  match ip4_serialize l [] true true [] with
  | (Ok bytes, _) => i4_padding (fst (fst (ip4_decode_into ip4_fresh bytes))) = [0;0;0]
  | _ => False
  end.
Proof. vm_compute. split; reflexivity. Qed.
Print Assumptions C06_ip4_padding_refuted.

(* a layer outside ip4_wf that serializes but does not read back: OptionLength 2 is written, and
   rejected by DecodeFromBytes ("Must be greater than 2") — the range predicate is tight there *)
Example C06_ip4_optlen2_not_readable :
  let l := mkIp4 [] [] 4 5 0 0 1 0 0 64 17 0 [10;0;0;1] [10;0;0;2] [mkOpt 7 2 []; mkOpt 1 1 []; mkOpt 1 1 []] [] in
  match ip4_serialize l [] true true [] with
  | (Ok bytes, _) => snd (fst (ip4_decode_into ip4_fresh bytes)) = Err 8
  | _ => False
  end.
Proof. vm_compute. reflexivity. Qed.

(* C01: LayerString/LayerDump/LayerGoString are reflective and total; the one panic condition of
   the read-only accessors (NetworkFlow -> NewFlow with an address longer than 16 bytes) is an
   invariant of decoding: false on a fresh layer and preserved by every decode, successful or not. *)
Theorem C01_ip4_render_total : forall fixed old data,
  ip4_render_panics old = false ->
  ip4_render_panics (fst (fst (ip4_decode_gen fixed old data))) = false.
Proof. exact decode_render. Qed.
Print Assumptions C01_ip4_render_total.

Example C01_ip4_render_fresh : ip4_render_panics ip4_fresh = false.
Proof. reflexivity. Qed.

(* non-vacuity: a datagram with five options decodes, its layer is typed and serializes *)
Definition nv_data : list Z := [72;0;0;34;0;1;64;0;64;17;0;0;10;0;0;1;10;0;0;2; 1;7;4;9;9;148;4;0;0;1;0;0; 170;187].
Definition nv_layer : ip4 := fst (fst (ip4_decode_into ip4_fresh nv_data)).
Example Lip4_nonvacuous_decode :
  ip4_decode_into ip4_fresh nv_data = (nv_layer, Ok tt, false) /\ (length (i4_opts nv_layer) = 5)%nat /\
  i4_payload nv_layer = [170;187].
Proof. vm_compute. repeat split. Qed.
Example Lip4_nonvacuous_typed : Forall opt_typed (i4_opts nv_layer).
Proof.
  let l := eval vm_compute in (i4_opts nv_layer) in change (Forall opt_typed l).
  repeat constructor; vm_compute; discriminate.
Qed.
Example Lip4_nonvacuous_serialize :
  exists bytes l', ip4_serialize nv_layer [170;187] true true [] = (Ok bytes, l') /\ (length bytes = 34)%nat.
Proof. eexists; eexists. vm_compute. split; reflexivity. Qed.

Example Lip4_nonvacuous_wf : ip4_wf nv_layer /\ 20 + ip4_opt_size (i4_opts nv_layer) + zlen [170;187] <= 65535.
Proof.
  split; [|vm_compute; discriminate].
  unfold ip4_wf. repeat (split; [vm_compute; try split; try discriminate; reflexivity|]).
  split.
  - exists (firstn 4 (i4_opts nv_layer)). split.
    + let b := eval vm_compute in (firstn 4 (i4_opts nv_layer)) in change (Forall opt_rt_ok b).
      apply Forall_cons; [left; repeat split; reflexivity|].
      apply Forall_cons; [right; cbn [ot ol od]; unfold zlen; cbn [length]; lia|].
      apply Forall_cons; [right; cbn [ot ol od]; unfold zlen; cbn [length]; lia|].
      apply Forall_cons; [left; repeat split; reflexivity|]. apply Forall_nil.
    + right. vm_compute. reflexivity.
  - vm_compute. discriminate.
Qed.
