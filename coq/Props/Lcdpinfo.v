(* Lcdpinfo — CiscoDiscoveryInfo layer (typed interpretation of the CDP TLVs) of layers/cdp.go: contributions to C19, C01.
   Decoder function only (a new layer per call: C05 n/a), no SerializeTo (C06/C07 n/a).  Fuel exhaustion of the three loops
   of the model is a Panic outcome, so C19_cdpinfo_no_panic also proves the fuel bounds. *)
From GP Require Import Base ListX Codec MiscLib LcdpModel LcdpinfoModel Lcdp.
From Coq Require Import Lia ZifyBool ZifyNat.
Open Scope Z_scope.

Definition ci_np (r : ci_res) : Prop := is_panic (snd r) = false.

Ltac rd_ok := repeat (first [rewrite cd_idx_ok by lia | rewrite cd_rd16_ok by lia | rewrite ml_rd32_ok by lia | rewrite cd_slc_ok by lia]); cbn [ci_bind].

Lemma ci_u8_ok k g v : ci_np (ci_u8 k g v).
Proof. unfold ci_np, ci_u8. destruct (zlen v <? 1) eqn:E; [reflexivity|]. rd_ok. reflexivity. Qed.
Lemma ci_u16_ok k v : ci_np (ci_u16 k v).
Proof. unfold ci_np, ci_u16. destruct (zlen v <? 2) eqn:E; [reflexivity|]. rd_ok. reflexivity. Qed.
Lemma ci_u32_ok k g v : ci_np (ci_u32 k g v).
Proof. unfold ci_np, ci_u32. destruct (zlen v <? 4) eqn:E; [reflexivity|]. rd_ok. reflexivity. Qed.
Lemma ci_vlan_ok k v : ci_np (ci_vlan k v).
Proof. unfold ci_np, ci_vlan. destruct (zlen v <? 3) eqn:E; [reflexivity|]. rd_ok. reflexivity. Qed.
Lemma ci_location_ok v : ci_np (ci_location v).
Proof. unfold ci_np, ci_location. destruct (zlen v <? 2) eqn:E; [reflexivity|]. rd_ok. reflexivity. Qed.
Lemma ci_hello_ok v : ci_np (ci_hello v).
Proof. unfold ci_np, ci_hello. destruct (zlen v <? 32) eqn:E; [reflexivity|]. rd_ok. reflexivity. Qed.

Lemma ci_pfx_loop_ok v : forall n o log, 0 <= o -> o + 5 * Z.of_nat n <= zlen v -> ci_np (ci_pfx_loop false v o n log).
Proof.
  induction n as [|n IH]; intros o log H0 H1; [reflexivity|]. unfold ci_np in *. cbn [ci_pfx_loop].
  rewrite !cd_idx_ok by lia.
  match goal with |- context [if 32 <? ?m then _ else _] => destruct (32 <? m) end; [reflexivity|]. apply IH; lia.
Qed.
Lemma ci_prefix_ok v : ci_np (ci_prefix false v).
Proof.
  unfold ci_prefix. cbv zeta. destruct ((zlen v mod 5 =? 0) && (5 <=? zlen v)) eqn:E; [|reflexivity].
  apply ci_pfx_loop_ok; lia.
Qed.

Lemma ci_pow_loop_ok w v : forall fuel n log, 0 <= n <= zlen v -> zlen v - n < Z.of_nat fuel -> ci_np (ci_pow_loop false w v n fuel log).
Proof.
  induction fuel as [|f IH]; intros n log H0 H1; [lia|]. unfold ci_np in *. cbn [ci_pow_loop].
  destruct (n + 4 <=? zlen v) eqn:E; [|reflexivity]. rewrite ml_rd32_ok by lia. apply IH; lia.
Qed.
Lemma ci_power_ok w v : ci_np (ci_power false w v).
Proof.
  unfold ci_power. destruct (zlen v <? 4) eqn:E; [reflexivity|]. rd_ok. apply ci_pow_loop_ok; lia.
Qed.

Lemma ci_addr_loop_ok v na : bytes_ok v -> forall fuel o i acc, 0 <= o -> o + 8 <= zlen v -> zlen v - o < Z.of_nat fuel ->
  is_panic (ci_addr_loop v o i na fuel acc) = false.
Proof.
  intros Hb. induction fuel as [|f IH]; intros o i acc H0 H1 H2; [lia|]. cbn [ci_addr_loop]. cbv zeta.
  destruct (na <=? i); [reflexivity|].
  rewrite (cd_idx_ok v o) by lia. cbn [obind].
  match goal with |- context [if negb ?c then _ else _] => destruct c; cbn [negb]; [|reflexivity] end.
  rewrite (cd_idx_ok v (o + 1)) by lia. cbn [obind].
  pose proof (bytes_ok_nth v (Z.to_nat (o + 1)) Hb) as Hpl. set (pl := nth (Z.to_nat (o + 1)) v 0) in *.
  match goal with |- context [if ?c then Err 13 else _] => destruct c; [reflexivity|] end.
  destruct (zlen v - o <? 2 + pl + 2) eqn:E1; [reflexivity|].
  rewrite (cd_slc_ok v (o + 2) (o + 2 + pl)) by lia. cbn [obind].
  rewrite (cd_rd16_ok v (o + 2 + pl)) by lia. cbn [obind].
  pose proof (bytes_ok_nth v (Z.to_nat (o + 2 + pl)) Hb) as Ha. pose proof (bytes_ok_nth v (Z.to_nat (o + 2 + pl + 1)) Hb) as Hc.
  set (al := nth (Z.to_nat (o + 2 + pl)) v 0 * 256 + nth (Z.to_nat (o + 2 + pl + 1)) v 0) in *.
  destruct (zlen v - (o + 2 + pl) <? 2 + al) eqn:E2; [reflexivity|].
  rewrite (cd_slc_ok v (o + 2 + pl + 2) (o + 2 + pl + 2 + al)) by lia. cbn [obind].
  destruct (zlen v - (o + 2 + pl + 2 + al) <? 8) eqn:E3; [reflexivity|]. apply IH; lia.
Qed.
Lemma ci_addrs_ok k v : bytes_ok v -> ci_np (ci_addrs k v).
Proof.
  intros Hb. unfold ci_np, ci_addrs. destruct (zlen v <? 4) eqn:E; [reflexivity|].
  assert (P : is_panic (ci_addresses v) = false).
  { unfold ci_addresses. rewrite E. rewrite ml_rd32_ok by lia. cbn [obind].
    match goal with |- context [if ?x <? 1 then _ else _] => set (na := x); destruct (na <? 1) eqn:E1; [reflexivity|] end.
    destruct (zlen v - 4 <? na * 8) eqn:E2; [reflexivity|]. apply ci_addr_loop_ok; [assumption|lia|lia|lia]. }
  destruct (ci_addresses v); [reflexivity|reflexivity|discriminate P].
Qed.

Lemma zlen_slice (l : list Z) a b : 0 <= a <= b -> b <= zlen l -> zlen (slice l (Z.to_nat a) (Z.to_nat b)) = b - a.
Proof. intros H1 H2. unfold zlen in *. rewrite slice_length by lia. lia. Qed.

Lemma ci_ew_loop_ok v tn : bytes_ok v -> forall fuel o seen log, 0 <= o <= zlen v -> zlen v - o < Z.of_nat fuel ->
  ci_np (ci_ew_loop v o seen tn fuel log).
Proof.
  intros Hb. induction fuel as [|f IH]; intros o seen log H0 H1; [lia|]. unfold ci_np in *. cbn [ci_ew_loop]. cbv zeta.
  destruct (zlen v - o <=? 8) eqn:E0; [reflexivity|]. destruct (tn <? seen + 1); [reflexivity|].
  rewrite (ml_rd32_ok v o) by lia. rewrite (ml_rd32_ok v (o + 4)) by lia.
  pose proof (bytes_ok_nth v (Z.to_nat (o + 4)) Hb) as B0. pose proof (bytes_ok_nth v (Z.to_nat (o + 4 + 1)) Hb) as B1.
  pose proof (bytes_ok_nth v (Z.to_nat (o + 4 + 2)) Hb) as B2. pose proof (bytes_ok_nth v (Z.to_nat (o + 4 + 2 + 1)) Hb) as B3.
  match goal with |- context [if zlen v - o - 8 <? ?x then _ else _] => set (tl := x) in * end.
  match goal with |- context [?x =? 7] => set (ty := x) end.
  assert (Htl : 0 <= tl) by (unfold tl; lia). clearbody tl ty.
  destruct (zlen v - o - 8 <? tl) eqn:E1; [reflexivity|].
  rewrite (cd_slc_ok v (o + 8) (zlen v)) by lia.
  pose proof (zlen_slice v (o + 8) (zlen v) ltac:(lia) ltac:(lia)) as Hr.
  set (rest := slice v (Z.to_nat (o + 8)) (Z.to_nat (zlen v))) in *.
  rewrite (cd_slc_ok rest tl (zlen rest)) by lia.
  destruct (ty =? 7); [apply IH; lia|]. destruct (ty =? 8); [apply IH; lia|]. destruct (ty =? 9); [apply IH; lia|].
  destruct (ty =? 23); [|apply IH; lia].
  destruct (18 <=? zlen rest) eqn:E2; [|apply IH; lia].
  rewrite (cd_slc_ok rest 0 2), (cd_slc_ok rest 2 4), (cd_slc_ok rest 4 8), (cd_slc_ok rest 8 10), (cd_slc_ok rest 10 14) by lia.
  cbn [obind]. apply IH; lia.
Qed.
Lemma ci_energywise_ok v : bytes_ok v -> ci_np (ci_energywise v).
Proof.
  intros Hb. unfold ci_energywise. destruct (zlen v <? 72) eqn:E; [reflexivity|]. rd_ok. cbv zeta.
  match goal with |- context [if zlen v - 72 <? ?x then _ else _] => destruct (zlen v - 72 <? x) end; [reflexivity|].
  apply ci_ew_loop_ok; [assumption|lia|lia].
Qed.

Lemma ci_interp_ok val : bytes_ok (cv_value val) -> ci_np (ci_interp false val).
Proof.
  intros Hb. unfold ci_interp. cbv zeta.
  repeat match goal with |- context [if cv_type val =? ?k then _ else _] => destruct (cv_type val =? k) end;
    first [ apply ci_u8_ok | apply ci_u16_ok | apply ci_u32_ok | apply ci_vlan_ok | apply ci_location_ok | apply ci_hello_ok
          | apply ci_prefix_ok | apply ci_power_ok | apply ci_addrs_ok; assumption | apply ci_energywise_ok; assumption | reflexivity ].
Qed.

Lemma ci_all_ok : forall vs log, Forall (fun v => bytes_ok (cv_value v)) vs -> ci_np (ci_all false vs log).
Proof.
  induction vs as [|v r IH]; intros log Hf; [reflexivity|]. inversion Hf as [|? ? Hv Hr]; subst.
  pose proof (ci_interp_ok v Hv) as P. unfold ci_np in *. cbn [ci_all].
  destruct (ci_interp false v) as [u [[]|c|s]]; cbn [snd] in *; [apply IH; assumption|reflexivity|discriminate P].
Qed.

Lemma cd_slc_bytes l a b v : bytes_ok l -> cd_slc l a b = Ok v -> bytes_ok v.
Proof.
  intros Hb H. unfold cd_slc in H. destruct ((0 <=? a) && (a <=? b) && (b <=? zlen l)); [|discriminate H].
  assert (E : v = slice l (Z.to_nat a) (Z.to_nat b)) by congruence. subst v. apply bytes_ok_slice; assumption.
Qed.
Lemma cdp_loop_vals data : bytes_ok data -> forall fuel off vs tr, cdp_loop data off fuel = (Ok vs, tr) ->
  Forall (fun v => bytes_ok (cv_value v)) vs.
Proof.
  intros Hb. induction fuel as [|f IH]; intros off vs tr H; cbn [cdp_loop] in H; cbv zeta in H.
  - assert (E : vs = []) by congruence. subst. constructor.
  - destruct (zlen data <=? off); [assert (E : vs = []) by congruence; subst; constructor|].
    destruct (zlen data - off <? 4); [discriminate H|].
    destruct (cd_rd16 data off) as [ty|c|s]; [|discriminate H|discriminate H].
    destruct (cd_rd16 data (off + 2)) as [ln|c|s]; [|discriminate H|discriminate H].
    destruct (ln <? 4); [discriminate H|]. destruct (zlen data - off <? ln); [discriminate H|].
    destruct (cd_slc data (off + 4) (off + ln)) as [v|c|s] eqn:S; [|discriminate H|discriminate H].
    set (r := cdp_loop data (off + ln) f) in *. specialize (IH (off + ln)). fold r in IH.
    destruct r as [[vs'|c|s] tr']; [|discriminate H|discriminate H].
    assert (E : vs = mkCv ty ln v :: vs') by congruence. subst vs. constructor; [exact (cd_slc_bytes _ _ _ _ Hb S)|exact (IH vs' tr' eq_refl)].
Qed.

Theorem C19_cdpinfo_no_panic : forall data, bytes_ok data -> is_panic (snd (fst (ci_decode data))) = false.
Proof.
  intros data Hb. unfold ci_decode, ci_decode_gen.
  pose proof (cdp_loop_ok data Hb (Z.to_nat (zlen data + 1)) 0 ltac:(lia)) as P.
  pose proof (cdp_loop_vals data Hb (Z.to_nat (zlen data + 1)) 0) as V.
  destruct (cdp_loop data 0 (Z.to_nat (zlen data + 1))) as [[vs|c|s] tr]; cbn [fst snd] in *; [|reflexivity|discriminate P].
  exact (ci_all_ok vs [] (V vs tr eq_refl)).
Qed.
Print Assumptions C19_cdpinfo_no_panic.

(* the fuel of the TLV walk is never exhausted: any two fuels above the number of octets left give the same result *)
Lemma cdp_loop_fuel data : forall f1 f2 off, 0 <= off -> zlen data - off < Z.of_nat f1 -> zlen data - off < Z.of_nat f2 ->
  cdp_loop data off f1 = cdp_loop data off f2.
Proof.
  induction f1 as [|f1 IH]; intros f2 off H0 H1 H2.
  - destruct f2 as [|f2]; [reflexivity|]. cbn [cdp_loop]. cbv zeta. destruct (zlen data <=? off) eqn:C0; [reflexivity|lia].
  - destruct f2 as [|f2].
    + cbn [cdp_loop]. cbv zeta. destruct (zlen data <=? off) eqn:C0; [reflexivity|lia].
    + cbn [cdp_loop]. cbv zeta. destruct (zlen data <=? off) eqn:C0; [reflexivity|]. destruct (zlen data - off <? 4); [reflexivity|].
      destruct (cd_rd16 data off) as [ty|?|?]; [|reflexivity|reflexivity]. destruct (cd_rd16 data (off + 2)) as [ln|?|?]; [|reflexivity|reflexivity].
      destruct (ln <? 4) eqn:C2; [reflexivity|]. destruct (zlen data - off <? ln) eqn:C3; [reflexivity|].
      destruct (cd_slc data (off + 4) (off + ln)); [|reflexivity|reflexivity]. rewrite (IH f2 (off + ln)) by lia. reflexivity.
Qed.
Theorem C19_cdpinfo_walk_fuel : forall data extra, ci_decode data =
  match cdp_loop data 0 (Z.to_nat (zlen data + 1) + extra) with
  | (Ok vs, tr) => let r := ci_all false vs [] in (mkCi data (fst r), snd r, tr)
  | (Err c, tr) => (mkCi data [], Err c, tr)
  | (Panic s, tr) => (mkCi data [], Panic s, tr)
  end.
Proof.
  intros data extra. unfold ci_decode, ci_decode_gen. pose proof (zlen_nonneg data).
  rewrite (cdp_loop_fuel data (Z.to_nat (zlen data + 1)) (Z.to_nat (zlen data + 1) + extra) 0) by lia. reflexivity.
Qed.
Print Assumptions C19_cdpinfo_walk_fuel.

(* the code before the repairs: an IP prefix TLV with prefix length 33 (nil IPNet dereferenced) and a power-requested TLV with
   six value octets as the last TLV (val.Value[4:8] past the capacity) panic *)
Theorem C19_cdpinfo_no_panic_orig_prefix_refuted : exists data, bytes_ok data /\ is_panic (snd (fst (ci_decode_orig data))) = true.
Proof. exists [0;7;0;9;10;0;0;0;33]. split; [repeat constructor; vm_compute; intuition discriminate|vm_compute; reflexivity]. Qed.
Print Assumptions C19_cdpinfo_no_panic_orig_prefix_refuted.
Theorem C19_cdpinfo_no_panic_orig_power_refuted : exists data, bytes_ok data /\ is_panic (snd (fst (ci_decode_orig data))) = true.
Proof. exists [0;25;0;10;0;1;0;2;9;9]. split; [repeat constructor; vm_compute; intuition discriminate|vm_compute; reflexivity]. Qed.
Print Assumptions C19_cdpinfo_no_panic_orig_power_refuted.

(* the layer is added before the TLVs are parsed: Contents is the whole input whatever the outcome (error-after-add) *)
Theorem C01_cdpinfo_contents : forall data, ci_contents (fst (fst (ci_decode data))) = data.
Proof. intros data. unfold ci_decode, ci_decode_gen. destruct (cdp_loop data 0 (Z.to_nat (zlen data + 1))) as [[vs|c|s] tr]; reflexivity. Qed.
Print Assumptions C01_cdpinfo_contents.

Theorem C01_cdpinfo_render_total : forall data, ci_render_panics (fst (fst (ci_decode data))) = false.
Proof. reflexivity. Qed.
Print Assumptions C01_cdpinfo_render_total.

Example Lcdpinfo_nonvacuous :
  (let r := ci_decode [0;1;0;6;65;66; 0;7;0;9;10;1;2;3;24; 0;25;0;12;0;1;0;2;0;0;1;0; 0;99;0;4] in
   snd (fst r) = Ok tt /\ ci_str (ci_log (fst (fst r))) 0 = [65;66] /\ ci_prefixes (ci_log (fst (fst r))) = [[10;1;2;0;24]] /\
   ci_pow (ci_log (fst (fst r))) 0 = [256] /\ ci_num (ci_log (fst (fst r))) 19 = 1 /\ ci_unknown (ci_log (fst (fst r))) = [mkCv 99 4 []]) /\
  snd (fst (ci_decode [0;7;0;9;10;0;0;0;33])) = Err 21 /\
  (let r := ci_decode [0;25;0;10;0;1;0;2;9;9] in snd (fst r) = Ok tt /\ ci_pow (ci_log (fst (fst r))) 0 = []) /\
  (let r := ci_decode [0;1;0;5;65; 0;4;0;5;1] in snd (fst r) = Err 20 /\ ci_str (ci_log (fst (fst r))) 0 = [65]) /\
  (let r := ci_decode [0;2;0;17; 0;0;0;1; 1;1;204; 0;4; 10;0;0;1] in
   snd (fst r) = Ok tt /\ ci_addrs_of (ci_log (fst (fst r))) 0 = [[0;0;0;0;0;0;0;0;0;0;255;255;10;0;0;1]]) /\
  ci_addrs_of (ci_log (fst (fst (ci_decode [0;22;0;36; 0;0;0;1; 2;8;170;170;3;0;0;0;8;0; 0;16; 1;2;3;4;5;6;7;8;9;10;11;12;13;14;15;16])))) 1 =
    [[1;2;3;4;5;6;7;8;9;10;11;12;13;14;15;16]].
Proof. vm_compute. intuition reflexivity. Qed.
