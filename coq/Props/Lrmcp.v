(* Lrmcp — RMCP header codec (layers/rmcp.go): contributions to C19, C05, C06, C07, C01. *)
From GP Require Import Base ListX Codec CodecBits MiscLib LrmcpModel.
From Coq Require Import Lia ZifyBool ZifyNat.
Open Scope Z_scope.
Ltac Zify.zify_post_hook ::= Z.div_mod_to_equations.

Ltac xstep :=
  match goal with
  | |- context [ml_bind ?o _ _ _] => destruct o eqn:?; cbn [ml_bind]
  | |- context [if ?c then _ else _] => destruct c eqn:?
  end.

Theorem C19_rmcp_no_panic : forall old data, is_panic (snd (fst (rm_decode_into old data))) = false.
Proof.
  intros old data. unfold rm_decode_into. cbv zeta. destruct (zlen data <? 4) eqn:Hn; [reflexivity|].
  rewrite ?cd_idx_ok by lia. rewrite ?cd_slc_ok by lia. reflexivity.
Qed.
Print Assumptions C19_rmcp_no_panic.

Theorem C05_rmcp_fresh : forall old data,
  let r1 := rm_decode_into old data in
  let r2 := rm_decode_into rm_fresh data in
  snd (fst r1) = snd (fst r2) /\ snd r1 = snd r2 /\
  (snd (fst r1) = Ok tt -> fst (fst r1) = fst (fst r2)).
Proof.
  intros old data. cbv zeta. unfold rm_decode_into. cbv zeta.
  repeat (xstep; try solve [cbn [fst snd]; split; [reflexivity | split; [reflexivity | try (intros X; discriminate X); try reflexivity]]]).
  all: try (cbn [fst snd]; split; [reflexivity | split; [reflexivity | intros _; reflexivity]]).
Qed.
Print Assumptions C05_rmcp_fresh.

(* a decoded class is below 16, inside the table RMCPClass.String and NextLayerType index *)
Theorem C01_rmcp_render_total : forall old data, bytes_ok data ->
  snd (fst (rm_decode_into old data)) = Ok tt -> rm_render_panics (fst (fst (rm_decode_into old data))) = false.
Proof.
  intros old data Hb. unfold rm_decode_into. cbv zeta. destruct (zlen data <? 4) eqn:Hn; [intros X; discriminate X|].
  rewrite ?cd_idx_ok by lia. rewrite ?cd_slc_ok by lia. cbn [ml_bind fst snd]. intros _. unfold rm_render_panics. cbn [rm_class]. lia.
Qed.
Print Assumptions C01_rmcp_render_total.

Lemma rm_serialize_spec l payload fixl csum junk : rm_serialize l payload fixl csum junk = (Ok (rm_hdr l ++ payload), l).
Proof.
  unfold rm_serialize. pose proof (ml_tile_init 4 junk ltac:(lia)) as T.
  destruct (ml_tile_wrc _ _ (rm_hdr l) _ 0 T eq_refl ltac:(change (zlen (rm_hdr l)) with 4; change (zlen []) with 0; lia)) as [b [E T']].
  rewrite E. apply ml_tile_done in T'; [|reflexivity]. subst b. reflexivity.
Qed.

Theorem C07_rmcp_no_panic : forall l payload fixl csum junk, is_panic (fst (rm_serialize l payload fixl csum junk)) = false.
Proof. intros. rewrite rm_serialize_spec. reflexivity. Qed.
Print Assumptions C07_rmcp_no_panic.

Theorem C07_rmcp_junk_free : forall l payload fixl csum junk1 junk2,
  rm_serialize l payload fixl csum junk1 = rm_serialize l payload fixl csum junk2.
Proof. intros. rewrite !rm_serialize_spec. reflexivity. Qed.
Print Assumptions C07_rmcp_junk_free.

Definition rm_wf (l : rmcp) : Prop := 0 <= rm_ver l < 256 /\ 0 <= rm_seq l < 256 /\ 0 <= rm_class l < 16.

Theorem C06_rmcp_roundtrip : forall l payload fixl csum junk bytes l' old,
  rm_wf l -> rm_serialize l payload fixl csum junk = (Ok bytes, l') ->
  l' = l /\ bytes = rm_hdr l ++ payload /\
  rm_decode_into old bytes = (mkRm (rm_hdr l) payload (rm_ver l) (rm_seq l) (rm_ack l) (rm_class l), Ok tt, false).
Proof.
  intros l payload fixl csum junk bytes l' old [H1 [H2 H3]]. rewrite rm_serialize_spec. intros X.
  assert (E1 : bytes = rm_hdr l ++ payload) by congruence. assert (E2 : l' = l) by congruence. clear X.
  split; [exact E2|]. split; [exact E1|]. subst bytes l'. pose proof (zlen_nonneg payload) as Np.
  remember (rm_hdr l ++ payload) as data eqn:Hd.
  assert (Hn : zlen data = 4 + zlen payload) by (subst data; rewrite zlen_app; reflexivity).
  assert (HnthZ : forall k, 0 <= k < 4 -> nth (Z.to_nat k) data 0 = nth (Z.to_nat k) (rm_hdr l) 0).
  { intros k Hk. subst data. apply app_nth1. change (length (rm_hdr l)) with 4%nat. lia. }
  unfold rm_decode_into. cbv zeta. destruct (zlen data <? 4) eqn:C; [lia|].
  rewrite !cd_idx_ok by lia. rewrite !cd_slc_ok by lia. cbn [ml_bind].
  assert (S1 : slice data (Z.to_nat 0) (Z.to_nat 4) = rm_hdr l) by (subst data; apply slice_from_start; reflexivity).
  assert (S2 : slice data (Z.to_nat 4) (Z.to_nat (zlen data)) = payload).
  { rewrite Hn. subst data. apply slice_to_end; [reflexivity|]. change (length (rm_hdr l)) with 4%nat. unfold zlen. lia. }
  rewrite S1, S2. rewrite !HnthZ by lia.
  repeat match goal with |- context [Z.to_nat ?k] => let v := eval vm_compute in (Z.to_nat k) in change (Z.to_nat k) with v end.
  unfold rm_hdr. cbn [nth].
  rewrite (Z.mod_small (rm_class l) 256) by lia.
  rewrite (cd_lor_disjoint (if rm_ack l then 1 else 0) (rm_class l) 7) by lia.
  change (2 ^ 7) with 128.
  f_equal. f_equal. f_equal; try lia. destruct (rm_ack l); lia.
Qed.
Print Assumptions C06_rmcp_roundtrip.

Example Lrmcp_nonvacuous :
  let l := mkRm [] [] 6 255 true 6 in
  rm_wf l /\ fst (rm_serialize l [9] false false []) = Ok [6;0;255;134;9] /\ rm_next l = 1.
Proof. split; [unfold rm_wf; cbn; lia|]. repeat split; vm_compute; reflexivity. Qed.
