(* Lipsec — IPSec AH and ESP decoders (layers/ipsec.go): contributions to C19, C05, C01.
   Neither type has SerializeTo, so C06 and C07 do not apply. *)
From GP Require Import Base ListX Codec MiscLib LipsecModel.
From Coq Require Import Lia ZifyBool ZifyNat.
Open Scope Z_scope.
Ltac Zify.zify_post_hook ::= Z.div_mod_to_equations.

Theorem C19_ah_no_panic : forall old data, bytes_ok data -> is_panic (snd (fst (ah_decode_into old data))) = false.
Proof.
  intros old data Hb. unfold ah_decode_into. cbv zeta. destruct (zlen data <? 12) eqn:Hn; [reflexivity|].
  rewrite !cd_idx_ok by lia. rewrite cd_rd16_ok by lia. rewrite !ml_rd32_ok by lia. cbn [ml_bind].
  pose proof (bytes_ok_nth data (Z.to_nat 1) Hb) as H1. set (hl := nth (Z.to_nat 1) data 0) in *.
  destruct ((hl + 2) * 4 <? 12) eqn:C1; [reflexivity|].
  destruct (zlen data <? (hl + 2) * 4) eqn:C2; [reflexivity|].
  rewrite !cd_slc_ok by lia. reflexivity.
Qed.
Print Assumptions C19_ah_no_panic.

Theorem C19_esp_no_panic : forall old data, is_panic (snd (fst (esp_decode_into old data))) = false.
Proof.
  intros old data. unfold esp_decode_into. cbv zeta. destruct (zlen data <? 8) eqn:Hn; [reflexivity|].
  rewrite !ml_rd32_ok by lia. rewrite !cd_slc_ok by lia. reflexivity.
Qed.
Print Assumptions C19_esp_no_panic.

Ltac istep :=
  match goal with
  | |- context [ml_bind ?o _ _ _] => destruct o eqn:?; cbn [ml_bind]
  | |- context [if ?c then _ else _] => destruct c eqn:?
  end.
Ltac fresh_tac :=
  repeat (istep; try solve [cbn [fst snd]; split; [reflexivity | split; [reflexivity | try (intros X; discriminate X); try reflexivity]]]);
  try (cbn [fst snd]; split; [reflexivity | split; [reflexivity | intros _; reflexivity]]).

(* C05: same outcome and truncation as a fresh object; on success the same layer.  (On the two
   late error returns the receiver keeps the old AuthenticationData next to the new header
   fields, with Contents and Payload nil: ipsec.go:43-62.) *)
Theorem C05_ah_fresh : forall old data,
  let r1 := ah_decode_into old data in
  let r2 := ah_decode_into ah_fresh data in
  snd (fst r1) = snd (fst r2) /\ snd r1 = snd r2 /\
  (snd (fst r1) = Ok tt -> fst (fst r1) = fst (fst r2)).
Proof. intros old data. cbv zeta. unfold ah_decode_into. cbv zeta. fresh_tac. Qed.
Print Assumptions C05_ah_fresh.

Theorem C05_esp_fresh : forall old data,
  let r1 := esp_decode_into old data in
  let r2 := esp_decode_into esp_fresh data in
  snd (fst r1) = snd (fst r2) /\ snd r1 = snd r2 /\
  (snd (fst r1) = Ok tt -> fst (fst r1) = fst (fst r2)).
Proof. intros old data. cbv zeta. unfold esp_decode_into. cbv zeta. fresh_tac. Qed.
Print Assumptions C05_esp_fresh.

(* what a successful AH decode guarantees: the three slices partition the input *)
Theorem C05_ah_partition : forall old data l tr, bytes_ok data -> ah_decode_into old data = (l, Ok tt, tr) ->
  ah_contents l ++ ah_payload l = data /\ ah_actual l = (ah_hl l + 2) * 4 /\ zlen (ah_contents l) = ah_actual l /\
  zlen (ah_auth l) = ah_actual l - 12 /\ tr = false.
Proof.
  intros old data l tr Hb. unfold ah_decode_into. cbv zeta. destruct (zlen data <? 12) eqn:Hn; [discriminate|].
  rewrite !cd_idx_ok by lia. rewrite cd_rd16_ok by lia. rewrite !ml_rd32_ok by lia. cbn [ml_bind].
  pose proof (bytes_ok_nth data (Z.to_nat 1) Hb) as H1. set (hl := nth (Z.to_nat 1) data 0) in *.
  destruct ((hl + 2) * 4 <? 12) eqn:C1; [discriminate|].
  destruct (zlen data <? (hl + 2) * 4) eqn:C2; [discriminate|].
  rewrite !cd_slc_ok by lia. cbn [ml_bind]. intros X.
  match type of X with (?t, _, _) = _ => assert (El : l = t) by congruence end. assert (tr = false) by congruence. subst l. clear X.
  cbn [ah_contents ah_payload ah_actual ah_hl ah_auth].
  split; [|split; [reflexivity|split; [|split; [|assumption]]]].
  - unfold slice. change (Z.to_nat 0) with 0%nat. cbn [skipn]. rewrite firstn_all2 with (n := Z.to_nat (zlen data)) by (unfold zlen; lia).
    apply firstn_skipn.
  - unfold zlen in *. rewrite slice_length by lia. lia.
  - unfold zlen in *. rewrite slice_length by lia. lia.
Qed.
Print Assumptions C05_ah_partition.

(* C01: neither type has a String method or a flow accessor: reflective renderers only *)
Theorem C01_ah_render_total : forall old data, ah_render_panics (fst (fst (ah_decode_into old data))) = false.
Proof. reflexivity. Qed.
Theorem C01_esp_render_total : forall old data, esp_render_panics (fst (fst (esp_decode_into old data))) = false.
Proof. reflexivity. Qed.

Example Lipsec_nonvacuous :
  ah_decode_into ah_fresh [6;1;0;0;0;0;0;1;0;0;0;2;9;9] = (mkAh [6;1;0;0;0;0;0;1;0;0;0;2] [9;9] 6 1 12 0 1 2 [], Ok tt, false) /\
  snd (fst (ah_decode_into ah_fresh [6;0;0;0;0;0;0;1;0;0;0;2;9;9])) = Err 2 /\
  esp_decode_into esp_fresh [0;0;0;1;0;0;0;2;7] = (mkEsp [0;0;0;1;0;0;0;2;7] [] 1 2 [7], Ok tt, false).
Proof. repeat split; vm_compute; reflexivity. Qed.
