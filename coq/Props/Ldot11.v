(* Ldot11 — 802.11 MAC header codec (layers/dot11.go Dot11, as repaired on agent-fixer and agent-ldot11):
   contributions to C19, C05, C06, C07, C01. *)
From GP Require Import Base Codec MiscLib Ldot11Model Ldot11Proofs Ldot11Rt.
Open Scope Z_scope.

(* all byte strings (no hypothesis on the octets), all receiver states; no loops *)
Theorem C19_dot11_no_panic : forall old data, is_panic (snd (fst (d11_decode_into old data))) = false.
Proof. exact d11_decode_no_panic. Qed.
Print Assumptions C19_dot11_no_panic.

(* C05: Address2-4, sequence/fragment number, QOS, HTControl and DataLayer are reset (repair) before the type-dependent
   parts are read; the other fields are assigned on every path that returns nil *)
Theorem C05_dot11_fresh : forall old data,
  let r1 := d11_decode_into old data in
  let r2 := d11_decode_into d11_fresh data in
  snd (fst r1) = snd (fst r2) /\ snd r1 = snd r2 /\
  (snd (fst r1) = Ok tt -> fst (fst r1) = fst (fst r2)).
Proof. exact d11_decode_fresh. Qed.
Print Assumptions C05_dot11_fresh.

Theorem C01_dot11_render_total : forall old data, d11_render_panics (fst (fst (d11_decode_into old data))) = false.
Proof. reflexivity. Qed.

(* every layer value: any Type (uint8), addresses of any length (nil included), any flags *)
Theorem C07_dot11_no_panic : forall l payload fixl csum junk,
  is_panic (fst (d11_serialize l payload fixl csum junk)) = false.
Proof. exact d11_serialize_no_panic. Qed.
Print Assumptions C07_dot11_no_panic.

(* the prepended region is zeroed before the fields are copied in (addresses may be short) *)
Theorem C07_dot11_junk_free : forall l payload fixl csum junk1 junk2,
  d11_serialize l payload fixl csum junk1 = d11_serialize l payload fixl csum junk2.
Proof. exact d11_serialize_junk_free. Qed.
Print Assumptions C07_dot11_junk_free.

(* C06.  The plain statement is false of the code: DecodeFromBytes takes the last four octets of the frame as FCS,
   SerializeTo writes none, and it writes neither the QoS control nor the HT control field (Sweep known findings
   Sweep-C06-roundtrip-layers.Dot11 / -fixpoint-).  What is true, and proved below (C06_dot11_roundtrip):
   for a value in the domain d11_wfb (6 bit type that is neither QoS nor the unsupported data subtype 13, no HT control,
   exactly the 6-octet addresses its type carries, 12 bit sequence and 4 bit fragment number) and a payload of at
   least four octets, the fields come back, the payload comes back without its last four octets, and those come back
   as Checksum. *)
(* the domain d11_wfb and the header d11_hdr are defined in Proofs/Ldot11Rt.v *)
Theorem C06_dot11_roundtrip : forall l payload fixl csum junk bytes l' old,
  d11_wfb l = true -> 4 <= zlen payload ->
  d11_serialize l payload fixl csum junk = (Ok bytes, l') ->
  exists d, d11_decode_into old bytes = (d, Ok tt, false) /\
    d_type d = d_type l /\ d_proto d = d_proto l /\ d_flags d = d_flags l /\ d_dur d = d_dur l /\
    d_a1 d = d_a1 l /\ d_a2 d = d_a2 l /\ d_a3 d = d_a3 l /\ d_a4 d = d_a4 l /\ d_seq d = d_seq l /\ d_frag d = d_frag l /\
    d_qos d = None /\ d_htc d = None /\ d_data d = (d_type l mod 4 =? 2) /\
    d_payload d = firstn (Z.to_nat (zlen payload - 4)) payload /\
    d11_le32 payload (zlen payload - 4) = Ok (d_csum d) /\
    d_contents d = d11_hdr l /\ bytes = d11_hdr l ++ payload.
Proof.
  intros l payload fixl csum junk bytes l' old W Hp E.
  destruct (d11_roundtrip l payload fixl csum junk bytes l' old W Hp E) as (cs & Ecs & ED).
  eexists. split; [exact ED|]. cbn [d_type d_proto d_flags d_dur d_a1 d_a2 d_a3 d_a4 d_seq d_frag d_qos d_htc d_data d_payload d_csum d_contents].
  repeat split; try reflexivity; try exact Ecs.
  destruct (d11_wfb_spec l W) as (_ & _ & _ & _ & _ & _ & _ & A1 & X2 & X3 & X4 & _). cbv zeta in *.
  assert (AO : d11_addrs_ok l).
  { unfold d11_addrs_ok. cbv zeta. repeat split; [exact A1|intros C; rewrite C in X2|intros C; rewrite C in X3|intros C; rewrite C in X4];
      apply d11_addr6_len; assumption. }
  rewrite (d11_serialize_eq l payload fixl csum junk AO) in E. congruence.
Qed.
Print Assumptions C06_dot11_roundtrip.

(* an instance of the stated relation (a beacon header), by computation *)
Definition d11_ex : dot11 := mkD11 [] [] 32 0 0 314 [255;255;255;255;255;255] [1;2;3;4;5;6] [1;2;3;4;5;6] [] 291 5 0 None None false.
Example Ldot11_nonvacuous :
  d11_wfb d11_ex = true /\
  fst (d11_serialize d11_ex [7;8;9;1;2;3;4] true true [170;170]) =
    Ok [128;0;58;1; 255;255;255;255;255;255; 1;2;3;4;5;6; 1;2;3;4;5;6; 53;18; 7;8;9;1;2;3;4] /\
  d11_decode_into d11_fresh [128;0;58;1; 255;255;255;255;255;255; 1;2;3;4;5;6; 1;2;3;4;5;6; 53;18; 7;8;9;1;2;3;4] =
    (mkD11 [128;0;58;1; 255;255;255;255;255;255; 1;2;3;4;5;6; 1;2;3;4;5;6; 53;18] [7;8;9]
           32 0 0 314 [255;255;255;255;255;255] [1;2;3;4;5;6] [1;2;3;4;5;6] [] 291 5 67305985 None None false, Ok tt, false).
Proof. repeat split; vm_compute; reflexivity. Qed.

(* the plain round trip (same payload back) is refuted by the same value *)
Theorem C06_dot11_roundtrip_refuted : exists l payload bytes d,
  d11_wfb l = true /\ fst (d11_serialize l payload true true []) = Ok bytes /\
  d11_decode_into d11_fresh bytes = (d, Ok tt, false) /\ d_payload d <> payload.
Proof.
  exists d11_ex, [7;8;9;1;2;3;4]. eexists. eexists.
  split; [vm_compute; reflexivity|]. split; [vm_compute; reflexivity|]. split; [vm_compute; reflexivity|].
  cbn. discriminate.
Qed.
Print Assumptions C06_dot11_roundtrip_refuted.

(* a QoS data frame with four addresses and an HT control field that is cut inside the HT control field: the residue *)
Example Ldot11_error_residue :
  let r := d11_decode_into d11_fresh ([136;131;0;0] ++ repeat 1 6 ++ repeat 2 6 ++ repeat 3 6 ++ [16;0] ++ repeat 4 6 ++ [5;9] ++ [1;2]) in
  snd (fst r) = Err 6 /\ snd r = true /\ d_a4 (fst (fst r)) = repeat 4 6 /\ d_qos (fst (fst r)) = Some (mkQos 5 false 0 9) /\ d_htc (fst (fst r)) = None.
Proof. vm_compute. repeat split; reflexivity. Qed.
