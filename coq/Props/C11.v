(* C11 - placeholder until the proofs land (next commit) *)
From GP Require Import Base C11Common C11TModel C11RModel.
