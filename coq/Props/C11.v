(* C11 - Assembler stream lifecycle and buffering are bounded and leak-free.
   Property theorems only; each is closed by a lemma of Proofs/C11TProofs.v (tcpassembly),
   Proofs/C11RProofs.v (reassembly) or Proofs/C11LogProofs.v (the lifecycle automaton).

   The models (Model/C11TModel.v, Model/C11RModel.v) are pools of connections at the level of
   lengths; [trun_state v (tinit maxPer maxTotal) ops] is the state and the callback log after
   the history [ops] of Assemble / FlushWithOptions / FlushAll calls on any connections.
   Variant [fixedv] = the repository with the four C11 repairs, [origv] = the unchanged tree. *)
From GP Require Import Base C11Common C11TModel C11RModel C11LogProofs C11TProofs C11RProofs C11ROnce C11RAge C11RLimit.
Open Scope Z_scope.

(* ================================================================== tcpassembly *)

(* C11_pages: after every history (any variant) pages-in-use is exactly the number of pages
   queued in the live connections, and every connection's own counter equals its queue *)
Theorem C11_t_pages : forall v maxPer maxTotal ops,
  let st := fst (trun_state v (tinit maxPer maxTotal) ops) in
  ts_used st = qsum (ts_conns st) /\ Forall (fun c => tc_pages c = zlen (tc_queue c)) (ts_conns st).
Proof. exact t_pages. Qed.
Print Assumptions C11_t_pages.

(* C11_once: the callback log of every history is accepted by the lifecycle automaton
   (New before anything, data only while open, one Complete, nothing after), and the streams
   still open at the end are exactly the streams of the connections in the pool *)
Theorem C11_t_once : forall v maxPer maxTotal ops,
  exists ls, lrun l0 (snd (trun_state v (tinit maxPer maxTotal) ops)) = Some ls /\
             l_open ls = map tc_sid (ts_conns (fst (trun_state v (tinit maxPer maxTotal) ops))).
Proof. exact t_once. Qed.
Print Assumptions C11_t_once.

(* what acceptance by the automaton means (for both packages) *)
Theorem C11_once_nothing_after_complete : forall l1 l2 sid rm s',
  lrun l0 (l1 ++ EDone sid rm :: l2) = Some s' -> forall e, In e l2 -> ev_sid e <> sid.
Proof. intros l1 l2 sid rm s'. apply lrun_nothing_after_done. exact l0_good. Qed.
Theorem C11_once_exactly_one_complete : forall l s' sid,
  lrun l0 l = Some s' -> ndone sid l = (if zmem sid (l_done s') then 1%nat else O).
Proof. intros l s' sid H. eapply lrun_done_count; [exact l0_good| |exact H]. intros []. Qed.
Theorem C11_once_created_is_open_or_done : forall l s' sid,
  lrun l0 l = Some s' -> In (ENew sid) l -> In sid (l_open s') \/ In sid (l_done s').
Proof. intros l s' sid H Hin. eapply lrun_new_accounted; [exact H|left; exact Hin]. Qed.
Print Assumptions C11_once_nothing_after_complete.
Print Assumptions C11_once_exactly_one_complete.
Print Assumptions C11_once_created_is_open_or_done.

(* C11_flushall: FlushAll from any state satisfying the page invariant (in particular every
   reachable one) empties the pool and leaves no page in use; with C11_t_once: no stream is open,
   i.e. every stream ever created has had its one Complete *)
Theorem C11_t_flushall : forall v st, tinv st -> ts_dead st = false ->
  let st' := fst (tstep v st TFlushAll) in ts_conns st' = [] /\ ts_used st' = 0.
Proof. exact t_flushall. Qed.
Theorem C11_t_reachable_inv : forall v maxPer maxTotal ops, tinv (fst (trun_state v (tinit maxPer maxTotal) ops)).
Proof. intros. apply trun_state_inv. apply tinit_inv. Qed.
Print Assumptions C11_t_flushall.

(* C11_limit (repaired insertIntoConn): after every call a per-connection limit L > 0 leaves
   fewer than L pages in every connection and a total limit T > 0 fewer than T pages in use;
   during a call at most the pages of the packet in hand come on top *)
Theorem C11_t_limit : forall v maxPer maxTotal ops, v_limit v = true ->
  let st := fst (trun_state v (tinit maxPer maxTotal) ops) in
  (maxPer > 0 -> Forall (fun c => zlen (tc_queue c) < maxPer) (ts_conns st)) /\
  (maxTotal > 0 -> ts_used st < maxTotal).
Proof. exact t_limit. Qed.
Print Assumptions C11_t_limit.

(* the unchanged tree: limit 5, four one-page segments then five 5000-byte segments, all out of
   order: 12 pages queued > 5 + 3 *)
Definition t_limit_witness : list top :=
  [TSeg 0 1000 true false false 0 100; TSeg 0 2000 false false false 5 100; TSeg 0 2010 false false false 5 100;
   TSeg 0 2020 false false false 5 100; TSeg 0 2030 false false false 5 100;
   TSeg 0 100000 false false false 5000 100; TSeg 0 110000 false false false 5000 100;
   TSeg 0 120000 false false false 5000 100; TSeg 0 130000 false false false 5000 100;
   TSeg 0 140000 false false false 5000 100].
Theorem C11_limit_t_orig_refuted :
  exists ops c, In c (ts_conns (fst (trun_state origv (tinit 5 0) ops))) /\ zlen (tc_queue c) > 5 + npages 5000.
Proof. exists t_limit_witness. eexists. vm_compute. split; [left; reflexivity|reflexivity]. Qed.

(* C11_age: after FlushWithOptions{T: t, CloseAll: ca} no connection left in the pool waits in
   front of data older than t, with CloseAll none is left idle since before t with nothing
   queued, and every batch handed to a stream starts with data older than t *)
Theorem C11_t_age : forall v st t ca, tinv st -> ts_dead st = false ->
  Forall (aged t ca) (ts_conns (fst (tstep v st (TFlush t ca)))) /\
  Forall (ev_older t) (to_ev (snd (tstep v st (TFlush t ca)))).
Proof. exact t_age. Qed.
(* ... and a connection the cut-off does not concern is not touched *)
Theorem C11_t_age_untouched : forall t ca c u, head_older c t = false ->
  (ca = true -> tc_queue c = [] -> t <= tc_seen c) -> C11TModel.flush_conn t ca c u = (mkTR c false u [], false).
Proof. exact flush_conn_untouched. Qed.
Print Assumptions C11_t_age.
Print Assumptions C11_t_age_untouched.

(* tc_seen is the connection's own newest timestamp only in the repaired code; in the unchanged
   tree a recycled connection object keeps the previous connection's: a connection whose only
   packet has time 100 survives FlushOlderThan 150 with nothing queued *)
Definition t_stale_witness : list top :=
  [TSeg 0 1000 true false false 0 200; TSeg 0 1001 false true false 0 200; TSeg 0 5000 true false false 0 100;
   TFlush 150 true].
Theorem C11_age_idle_orig_refuted :
  exists c, ts_conns (fst (trun_state origv (tinit 0 0) t_stale_witness)) = [c] /\ tc_queue c = [] /\ tc_seen c = 200.
Proof. eexists. vm_compute. repeat split. Qed.
Example C11_age_idle_fixed : ts_conns (fst (trun_state fixedv (tinit 0 0) t_stale_witness)) = [].
Proof. vm_compute. reflexivity. Qed.

(* non-vacuity: a history with two connections, out-of-order multi-page data, a limit flush, an
   age flush that releases one connection's data and leaves the other, and FlushAll *)
Definition t_example : list top :=
  [TSeg 0 1000 true false false 0 100; TSeg 2 7000 true false false 0 101;
   TSeg 0 3000 false false false 4000 102; TSeg 0 9000 false false false 10 103; TSeg 0 9100 false false false 10 104;
   TSeg 2 7100 false false false 5 110; TFlush 105 true; TSeg 2 7001 false true false 99 111; TFlushAll].
Example C11_t_nonvacuous :
  exists ls, lrun l0 (snd (trun_state fixedv (tinit 4 0) t_example)) = Some ls /\ l_open ls = [] /\ l_done ls = [2; 1] /\
  ts_used (fst (trun_state fixedv (tinit 4 0) t_example)) = 0 /\
  ts_used (fst (trun_state fixedv (tinit 4 0) (firstn 6 t_example))) = 3.
Proof. eexists. vm_compute. repeat split. Qed.

(* ================================================================== reassembly *)

(* C11_pages (repaired closeHalfConnection and page counter): after every history pages-in-use is
   exactly the number of pages queued or saved in the connections of the pool, and every
   half-connection's own counter equals queued + saved *)
Theorem C11_r_pages : forall v cfg ops, v_saved v = true -> v_hpages v = true ->
  let st := fst (rrun_state v (rinit cfg) ops) in
  rs_used st = psum (rs_conns st) /\
  Forall (fun c => h_pages (rc_c2s c) = hp (rc_c2s c) /\ h_pages (rc_s2c c) = hp (rc_s2c c)) (rs_conns st).
Proof. exact r_pages. Qed.
Print Assumptions C11_r_pages.

(* C11_flushall: FlushAll from any state satisfying the invariant (every reachable one does:
   C11_r_reachable_inv), if the model reports no panic: no page is in use, and every connection
   still in the pool is closed in both directions and belongs to a stream that declined removal *)
Theorem C11_r_flushall : forall v cfg st, v_saved v = true -> v_hpages v = true ->
  rinv cfg st -> rs_dead st = false -> ro_panic (snd (rstep v st RFlushAll)) = false ->
  rs_used (fst (rstep v st RFlushAll)) = 0 /\
  Forall (fun c => both_closed c = true /\ declines cfg (rc_sid c) = true) (rs_conns (fst (rstep v st RFlushAll))).
Proof. intros v cfg st Hs Hh. exact (r_flushall_step v cfg Hs Hh st). Qed.
Theorem C11_r_reachable_inv : forall v cfg ops, v_saved v = true -> v_hpages v = true ->
  rinv cfg (fst (rrun_state v (rinit cfg) ops)).
Proof. intros v cfg ops Hs Hh. apply rrun_state_inv; [exact Hs|exact Hh|apply rinit_inv]. Qed.
Print Assumptions C11_r_flushall.
Print Assumptions C11_r_reachable_inv.

(* C11_once (repaired model): if no call of the history panicked in the model, the callback log
   is accepted by the lifecycle automaton (C11_once_* above say what that means) and the streams
   still open are exactly those of the connections not yet closed in both directions; with
   C11_r_flushall, after FlushAll no stream is open: every stream created has its one Complete *)
Theorem C11_r_once : forall v cfg ops, v_saved v = true -> v_hpages v = true ->
  rs_dead (fst (rrun_state v (rinit cfg) ops)) = false ->
  exists ls, lrun l0 (snd (rrun_state v (rinit cfg) ops)) = Some ls /\
             l_open ls = osids (rs_conns (fst (rrun_state v (rinit cfg) ops))).
Proof. exact r_once. Qed.
Print Assumptions C11_r_once.

(* C11_once without any hypothesis: for EVERY variant, configuration and history -- including
   histories on which a checked slice operation of the model fails (the model then reports a panic
   for that call and stops, as the harness does) -- the whole callback log is accepted by the
   lifecycle automaton: New first, data only while open, exactly one Complete per completed stream,
   nothing after it.  The characterisation of the open streams needs the state and is given for as
   long as no call has panicked (rs_dead = false is exactly "no call so far panicked in the model":
   the sites are the re-slices of checkOverlap cases 2/4/6, overlapExisting and cleanSG; none is
   reached by any generated case). *)
Theorem C11_r_once_total : forall v cfg ops,
  exists ls, lrun l0 (snd (rrun_state v (rinit cfg) ops)) = Some ls /\
             (rs_dead (fst (rrun_state v (rinit cfg) ops)) = false ->
              l_open ls = osids (rs_conns (fst (rrun_state v (rinit cfg) ops)))).
Proof. exact r_once_total. Qed.
Print Assumptions C11_r_once_total.

(* C11_age (repaired model): FlushWithOptions{T: t, TC: tc} (FlushCloseOlderThan t is t = tc) from
   any state satisfying the invariant.  Every batch handed to a stream starts with a page seen
   before t (the time stamp the stream is given is that page's, or none when the page is not the
   first of its packet); and, if the call does not panic in the model, every half-connection left
   open in the pool does not wait in front of data older than t and, when it has nothing queued,
   belongs to a connection heard from since tc. *)
Theorem C11_r_age : forall v cfg st t tc, v_saved v = true -> v_hpages v = true ->
  rinv cfg st -> rs_dead st = false ->
  Forall (ev_older_r t) (ro_ev (snd (rstep v st (RFlush t tc)))) /\
  (ro_panic (snd (rstep v st (RFlush t tc))) = false ->
   Forall (aged_r t tc) (rs_conns (fst (rstep v st (RFlush t tc))))).
Proof. intros v cfg st t tc Hs Hh. exact (r_age_step v cfg Hs Hh st t tc). Qed.
(* ... and a half-connection the cut-offs do not concern is not touched *)
Theorem C11_r_age_untouched : forall v cfg w t tc c x, h_closed (get_half c w) = false ->
  qhead_older (get_half c w) t = false -> (h_queue (get_half c w) = [] -> tc <= conn_last_seen c) ->
  x_panic x = false -> flush_close v cfg c w x t tc = (c, false, x, false, false).
Proof. exact flush_close_untouched. Qed.
Print Assumptions C11_r_age.
Print Assumptions C11_r_age_untouched.
Example C11_r_age_nonvacuous :
  let cfg := mkCfg 0 0 [] [] in
  let ops := [RSeg 0 false 1000 true false false 0 100; RSeg 0 false 1101 false false false 10 101;
              RSeg 0 false 1301 false false false 10 110; RSeg 1 false 7000 true false false 0 90] in
  let st := fst (rrun_state fixedv (rinit cfg) ops) in
  map ro_ev [snd (rstep fixedv st (RFlush 105 95))] = [[EData 1 1 10 100 false false 101 0; EDone 2 true]] /\
  map rc_sid (rs_conns (fst (rstep fixedv st (RFlush 105 95)))) = [1].
Proof. vm_compute. split; reflexivity. Qed.

(* non-vacuity: two connections, KeepFrom on every call, one stream declines removal, a FIN in one
   direction, FlushAll: nothing in use, the declining stream's connection stays, both completed *)
Definition r_example_cfg : rcfg := mkCfg 0 0 [(1, 0)] [false; true].
Definition r_example : list rop :=
  [RSeg 0 false 1000 true false false 0 100; RSeg 0 false 1001 false false false 3000 101;
   RSeg 1 false 5000 true false false 0 102; RSeg 1 true 9000 false false false 10 103;
   RSeg 0 false 6001 false false false 20 104; RSeg 0 false 4001 false true false 5 105; RFlushAll].
Example C11_r_nonvacuous :
  let st := fst (rrun_state fixedv (rinit r_example_cfg) r_example) in
  rs_used st = 0 /\ map rc_sid (rs_conns st) = [1] /\ rs_dead st = false /\
  rs_used (fst (rrun_state fixedv (rinit r_example_cfg) (firstn 5 r_example))) = 4 /\
  exists ls, lrun l0 (snd (rrun_state fixedv (rinit r_example_cfg) r_example)) = Some ls /\ l_open ls = [].
Proof. vm_compute. repeat split. eexists. split; reflexivity. Qed.

Definition r_keep_cfg : rcfg := mkCfg 0 0 [(1, 0)] [].
Definition r_leak_witness : list rop :=
  [RSeg 0 false 1000 true false false 0 100; RSeg 0 false 1001 false false false 10 101;
   RSeg 0 false 1011 false false false 10 102; RFlushAll].

(* the unchanged tree leaks the pages kept with KeepFrom: after FlushAll the pool is empty and
   two pages are still in use (Assembler.Dump: used: 2) *)
Theorem C11_pages_orig_refuted :
  exists cfg ops, let st := fst (rrun_state origv (rinit cfg) ops) in rs_conns st = [] /\ rs_used st = 2.
Proof. exists r_keep_cfg, r_leak_witness. vm_compute. split; reflexivity. Qed.
Example C11_pages_fixed_witness :
  let st := fst (rrun_state fixedv (rinit r_keep_cfg) r_leak_witness) in rs_conns st = [] /\ rs_used st = 0.
Proof. vm_compute. split; reflexivity. Qed.

(* the unchanged tree: half.pages goes negative (no page anywhere, counter -1) *)
Theorem C11_hpages_orig_refuted :
  exists cfg ops c, rs_conns (fst (rrun_state origv (rinit cfg) ops)) = [c] /\
    h_pages (rc_c2s c) = -1 /\ h_queue (rc_c2s c) = [] /\ h_saved (rc_c2s c) = [].
Proof.
  exists (mkCfg 0 0 [(1, 0); (0, 0)] []),
    [RSeg 0 false 1000 true false false 0 100; RSeg 0 false 1001 false false false 10 101;
     RSeg 0 false 1011 false false false 10 102].
  eexists. vm_compute. repeat split.
Qed.

(* reassembly, repaired or not: the page limit is overshot by more than the packet in hand when
   packets span several pages (known finding C11-limit-multipage-reassembly) *)
Definition r_limit_witness : list rop :=
  [RSeg 0 false 1000 true false false 0 100; RSeg 0 false 2000 false false false 5 100; RSeg 0 false 2010 false false false 5 100;
   RSeg 0 false 2020 false false false 5 100; RSeg 0 false 2030 false false false 5 100;
   RSeg 0 false 100000 false false false 5000 100; RSeg 0 false 110000 false false false 5000 100;
   RSeg 0 false 120000 false false false 5000 100; RSeg 0 false 130000 false false false 5000 100;
   RSeg 0 false 140000 false false false 5000 100].
(* C11_limit, the bound that DOES hold of reassembly as it stands (repaired counters).
   One call: when AssembleWithContext is given a segment of len bytes, every queue grows by at most
   pages(len) - 1 beyond max(old bound, limit - 1): a limit flush gives back at least one page, and
   without a limit flush the counters the code compared were below the limits. *)
Theorem C11_r_limit_step : forall v cfg st k dir seq syn fin rst len ts B,
  v_saved v = true -> v_hpages v = true -> rinv cfg st -> 0 <= B -> qbound B (rs_conns st) ->
  let st' := fst (rassemble v st k dir seq syn fin rst len ts) in
  (r_mpc cfg > 0 -> qbound (Z.max (r_mpc cfg - 1) (B + rpages len - 1)) (rs_conns st')) /\
  (r_mt cfg > 0 -> qtot (rs_conns st') <= Z.max (r_mt cfg - 1) (qtot (rs_conns st) + rpages len - 1)).
Proof. intros v cfg st k dir seq syn fin rst len ts B Hs Hh. exact (r_limit_assemble v cfg Hs Hh st k dir seq syn fin rst len ts B). Qed.
(* Every history: with a per-connection limit L > 0 every half-connection queues at most
   L - 1 + excess pages, with a total limit T > 0 at most T - 1 + excess pages are queued in all,
   where excess = sum over the AssembleWithContext calls so far of (pages of the segment - 1). *)
Theorem C11_r_limit : forall v cfg ops, v_saved v = true -> v_hpages v = true ->
  let st := fst (rrun_state v (rinit cfg) ops) in
  (r_mpc cfg > 0 -> forall c w, In c (rs_conns st) -> ql c w <= r_mpc cfg - 1 + excess ops) /\
  (r_mt cfg > 0 -> qtot (rs_conns st) <= r_mt cfg - 1 + excess ops).
Proof. exact r_limit. Qed.
(* in particular the property's own bound (and more) holds when no segment exceeds one page *)
Theorem C11_r_limit_single_page : forall v cfg ops, v_saved v = true -> v_hpages v = true ->
  (forall k d s a b f l t, In (RSeg k d s a b f l t) ops -> l <= PAGE) ->
  let st := fst (rrun_state v (rinit cfg) ops) in
  (r_mpc cfg > 0 -> forall c w, In c (rs_conns st) -> ql c w < r_mpc cfg) /\
  (r_mt cfg > 0 -> qtot (rs_conns st) < r_mt cfg).
Proof.
  intros v cfg ops Hs Hh Hl. cbn zeta. destruct (r_limit v cfg ops Hs Hh) as [A B]. rewrite (excess_single ops Hl) in A, B.
  split; [intros Hm c w Hin; specialize (A Hm c w Hin); lia|intros Hm; specialize (B Hm); lia].
Qed.
Print Assumptions C11_r_limit_step.
Print Assumptions C11_r_limit.
Print Assumptions C11_r_limit_single_page.
(* the bound of C11_r_limit is attained: the witness of the refutation below reaches 12 = 5 - 1 + 8 + ... *)
Example C11_r_limit_nonvacuous :
  excess [RSeg 0 false 1 false false false 5000 1; RSeg 0 false 1 false false false 1900 1; RSeg 0 false 1 false false false 1901 1] = 3.
Proof. vm_compute. reflexivity. Qed.

Definition C11_r_limit_statement : Prop :=
  forall cfg ops c, In c (rs_conns (fst (rrun_state fixedv (rinit cfg) ops))) -> r_mpc cfg > 0 ->
    forall maxlen, (forall k d s a b f l t, In (RSeg k d s a b f l t) ops -> l <= maxlen) ->
    zlen (h_queue (rc_c2s c)) <= r_mpc cfg + npages maxlen.
Theorem C11_limit_r_refuted : ~ C11_r_limit_statement.
Proof.
  intros H. pose (cfg := mkCfg 5 0 [] []).
  assert (E : exists c, rs_conns (fst (rrun_state fixedv (rinit cfg) r_limit_witness)) = [c] /\ zlen (h_queue (rc_c2s c)) = 12).
  { eexists. vm_compute. split; reflexivity. }
  destruct E as [c [E1 E2]].
  specialize (H cfg r_limit_witness c). rewrite E1 in H. specialize (H (or_introl eq_refl)).
  assert (Hm : r_mpc cfg > 0) by (vm_compute; reflexivity). specialize (H Hm 5000).
  assert (Hl : forall k d s a b f l t, In (RSeg k d s a b f l t) r_limit_witness -> l <= 5000).
  { intros k d s a b f l t Hin. unfold r_limit_witness in Hin. cbn [In] in Hin.
    repeat (destruct Hin as [Hin|Hin]; [inversion Hin; subst; vm_compute; discriminate|]). contradiction. }
  specialize (H Hl). rewrite E2 in H. vm_compute in H. apply H. reflexivity.
Qed.
