(* Lprism — Prism monitor-mode header decoder (layers/prism.go): contributions to C19, C05, C01.  No SerializeTo (C06/C07 n/a). *)
From GP Require Import Base ListX Codec MiscLib MiscLE LprismModel.
From Coq Require Import Lia ZifyBool ZifyNat.
Open Scope Z_scope.
Ltac Zify.zify_post_hook ::= Z.div_mod_to_equations.

Ltac xstep :=
  match goal with
  | |- context [ml_bind ?o _ _ _] => destruct o eqn:?; cbn [ml_bind]
  | |- context [if ?c then _ else _] => destruct c eqn:?
  end.

(* the value loop never leaves the data when k values of 12 octets fit behind the offset *)
Lemma pr_loop_ok data : bytes_ok data -> forall k off, 0 <= off -> off + 12 * Z.of_nat k <= zlen data ->
  exists r, pr_loop data off k = Ok r.
Proof.
  intros Hb. induction k as [|k IH]; intros off H0 H1; [eexists; reflexivity|].
  cbn [pr_loop]. rewrite cd_slc_ok by lia. cbn [obind].
  set (ch := slice data (Z.to_nat off) (Z.to_nat (off + 12))).
  assert (Hc : zlen ch = 12) by (unfold ch, zlen in *; rewrite slice_length by lia; lia).
  assert (Hbc : bytes_ok ch) by (apply bytes_ok_slice; exact Hb).
  rewrite ml_rd32le_ok by lia. rewrite !ml_rd16le_ok by lia. cbn [obind].
  pose proof (bytes_ok_nth ch (Z.to_nat 6) Hbc). pose proof (bytes_ok_nth ch (Z.to_nat (6 + 1)) Hbc).
  set (ln := nth (Z.to_nat 6) ch 0 + nth (Z.to_nat (6 + 1)) ch 0 * 256) in *.
  destruct (12 <? 8 + ln) eqn:C; [eexists; reflexivity|].
  rewrite cd_slc_ok by lia. cbn [obind].
  destruct (IH (off + 12)) as [r Hr]; [lia|lia|]. rewrite Hr. cbn [obind]. eexists; reflexivity.
Qed.

Theorem C19_prism_no_panic : forall old data, bytes_ok data -> is_panic (snd (fst (pr_decode_into old data))) = false.
Proof.
  intros old data Hb. unfold pr_decode_into. cbv zeta. destruct (zlen data <? 24) eqn:Hn; [reflexivity|].
  rewrite !ml_rd16le_ok by lia. cbn [ml_bind].
  pose proof (bytes_ok_nth data (Z.to_nat 4) Hb). pose proof (bytes_ok_nth data (Z.to_nat (4 + 1)) Hb).
  set (ln := nth (Z.to_nat 4) data 0 + nth (Z.to_nat (4 + 1)) data 0 * 256) in *.
  destruct (ln <? 24) eqn:C1; [reflexivity|]. destruct (zlen data <? ln) eqn:C2; [reflexivity|].
  rewrite !cd_slc_ok by lia. cbn [ml_bind].
  match goal with |- context [if ?c then _ else _] => destruct c; [reflexivity|] end.
  destruct (pr_loop_ok data Hb (Z.to_nat ((ln - 24) / 12)) 24) as [r Hr]; [lia| rewrite Z2Nat.id by lia; lia |].
  rewrite Hr. cbn [ml_bind]. destruct (negb (snd r)); [reflexivity|].
  match goal with |- context [if ?c then _ else _] => destruct c; reflexivity end.
Qed.
Print Assumptions C19_prism_no_panic.

Theorem C05_prism_fresh : forall old data,
  let r1 := pr_decode_into old data in
  let r2 := pr_decode_into pr_fresh data in
  snd (fst r1) = snd (fst r2) /\ snd r1 = snd r2 /\
  (snd (fst r1) = Ok tt -> fst (fst r1) = fst (fst r2)).
Proof.
  intros old data. cbv zeta. unfold pr_decode_into. cbv zeta.
  repeat (xstep; try solve [cbn [fst snd]; split; [reflexivity | split; [reflexivity | try (intros X; discriminate X); try reflexivity]]]).
  all: try (cbn [fst snd]; split; [reflexivity | split; [reflexivity | intros _; reflexivity]]).
Qed.
Print Assumptions C05_prism_fresh.

Theorem C01_prism_render_total : forall old data, pr_render_panics (fst (fst (pr_decode_into old data))) = false.
Proof. reflexivity. Qed.

Example Lprism_nonvacuous :
  let h := [68;0;0;0; 48;0;0;0] ++ repeat 119 16 in
  let v1 := [68;0;1;0; 1;0; 4;0; 9;8;7;6] in
  let v2 := [68;0;2;0; 0;0; 5;0; 1;2;3;4] in
  pr_decode_into pr_fresh (h ++ v1 ++ v1 ++ [128;0]) =
    (mkPr (h ++ v1 ++ v1) [128;0] 68 48 (repeat 119 16) [mkPv 65604 1 4 [9;8;7;6]; mkPv 65604 1 4 [9;8;7;6]], Ok tt, false) /\
  snd (fst (pr_decode_into pr_fresh (h ++ v2 ++ v1))) = Err 5 /\
  pr_vals (fst (fst (pr_decode_into pr_fresh (h ++ v2 ++ v1)))) = [mkPv 131140 0 5 []; pv_zero] /\
  snd (fst (pr_decode_into pr_fresh ([68;0;0;0; 49;0;0;0] ++ repeat 119 16 ++ v1 ++ v1 ++ [128;0]))) = Err 6.
Proof. repeat split; vm_compute; reflexivity. Qed.
