"""Per-property configuration for ./check: each lib/props/Cxx.py defines CONF, a dict with
  interesting : list of tags, one of which makes a case non-trivial
  rule        : how cases are generated / counted, in words
  assumptions, trusted_base, explanation : copied into the evidence
  shrink_keep_first : number of leading ops the shrinker never removes
  allowed_axioms : stdlib axioms the theorems may depend on (named in DESIGN.md section 6)
  pre         : list of hooks f(root, repo, work, harness_exe) -> (ok, message, extra_facts)
                run before the proofs are built (kernel regeneration go2v, source facts)
  model_optional : True when some cases have no model output by design
"""
import glob, os, importlib.util

PROPS = {}
_d = os.path.join(os.path.dirname(os.path.abspath(__file__)), 'props')
for _f in sorted(glob.glob(os.path.join(_d, '[A-Z]*.py'))):
    _n = os.path.basename(_f)[:-3]
    _s = importlib.util.spec_from_file_location('props_' + _n, _f)
    _m = importlib.util.module_from_spec(_s)
    _s.loader.exec_module(_m)
    PROPS[_n] = _m.CONF
