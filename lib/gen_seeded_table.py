#!/usr/bin/env python3
"""seeded/README.md: which check catches which independently seeded change (from seeded/*/meta.json)."""
import json, glob, os
root = os.path.dirname(os.path.dirname(os.path.abspath(__file__)))
rows = []
for d in sorted(glob.glob(os.path.join(root, 'seeded', '*'))):
    mf = os.path.join(d, 'meta.json')
    if not os.path.exists(mf): continue
    m = json.load(open(mf))
    checks = m.get('checks', {})
    res = '; '.join('%s: %s' % (c, ('detected (no-failing-input-found)' if v.get('no_failing_input_found') else 'detected') if v.get('detected') else 'MISSED') for c, v in checks.items())
    rows.append((os.path.basename(d), (m.get('title') or '')[:110].replace('|', '/'), (m.get('needs_to_manifest') or '')[:160].replace('|', '/').replace('\n', ' '), res))
with open(os.path.join(root, 'seeded', 'README.md'), 'w') as f:
    f.write('# Seeded changes and the checks that report them\n\nEach directory holds patch.diff, the demonstration and meta.json (what it breaks, what it needs to manifest, what was run, confirmation by lib/seedtest.py, result per check).\n\n')
    f.write('| change | what | needs | result |\n|---|---|---|---|\n')
    for r in rows: f.write('| %s | %s | %s | %s |\n' % r)
    n = len(rows); det = sum(1 for r in rows if 'MISSED' not in r[3] and r[3])
    f.write('\n%d changes confirmed; %d reported by their check in the recorded run.\n' % (n, det))
print(len(rows))
