"""Source-fact hook for the PacketCore checks (C03, C01core): builds harness/facts (go/ast only),
runs it on the repository under test and compares with the expected table.  The facts are the
hypotheses the framework theorems make about ALL decoders in layers/ (DESIGN.md 4.3):
  F1  decoder shape: every NextDecoder call is `return p.NextDecoder(...)` (tail position)
  F1b every delegation that hands the PacketBuilder on is in tail position too, except the
      listed helpers, which were read by hand: they only call SetTruncated
  F2  SetErrorLayer call sites outside packet.go (hypothesis no_seterr of C01_error_discipline
      holds for every decoder except these) and which of them are referenced at all: today the one
      site, decodeSCTPChunkTypeUnknown, is dead code, so the hypothesis holds for every reachable decoder
  F3  no recover() in layers/ (a panic in a decoder reaches packet.go's recover)
  F6  every function that calls NextDecoder calls AddLayer earlier in the same body
  F7  the only decode option decoders read is DecodeStreamsAsDatagrams (hypothesis opts_blind)
  F8  no decoder constructs a gopacket.DecodeFailure (hypothesis no_fail_layers)
A changed fact is reported as a broken tie (BROKEN line, VIOLATION ... no-failing-input-found
unless the oracle finds a failing input)."""
import os, json, subprocess

EXPECTED = {
    'F1_nextdecoder_not_in_return': [],
    'F1b_builder_passed_not_in_return': ['cdp.go:decodeCiscoDiscovery', 'cdp.go:decodeCiscoDiscoveryInfo',
                                         'ip6.go:decodeIPv6Routing'],
    'F2_seterrorlayer_sites': ['sctp.go:decodeSCTPChunkTypeUnknown'],
    'F2_seterrorlayer_sites_referenced': [],   # the one site is dead code today (never referenced)
    'F3_recover_sites': [],
    'F6_nextdecoder_without_earlier_addlayer': [],
    'F7_decodeoptions_fields_read': ['DecodeStreamsAsDatagrams'],
    'F8_decodefailure_constructed': [],
}

def _goenv():
    e = dict(os.environ)
    e['GOFLAGS'] = '-mod=mod'; e['GOPROXY'] = 'off'
    e.pop('GOSUMDB', None); e.pop('GOTOOLCHAIN', None)
    return e

def _strip_line(s):
    # "file:func:line" -> "file:func" (line numbers move with harmless edits)
    parts = s.split(':')
    return ':'.join(parts[:2]) if len(parts) >= 3 and parts[-1].isdigit() else s

def facts_hook(root, repo, work, harness_exe):
    hdir = os.path.join(root, 'harness')
    exe = os.path.join(hdir, 'bin', 'gpfacts')
    try:
        p = subprocess.run(['go', 'build', '-modfile', os.path.join(hdir, 'bin', 'go.mod'), '-o', exe, './facts'],
                           cwd=hdir, env=_goenv(), stdout=subprocess.PIPE, stderr=subprocess.STDOUT, text=True, timeout=900)
        if p.returncode != 0:
            return False, 'source facts: building harness/facts failed: ' + p.stdout[-800:], {}
        p = subprocess.run([exe, repo], stdout=subprocess.PIPE, stderr=subprocess.PIPE, text=True, timeout=300)
        if p.returncode != 0:
            return False, 'source facts: extractor failed on %s: %s' % (repo, p.stderr[-800:]), {}
        facts = json.loads(p.stdout)
    except Exception as e:  # noqa
        return False, 'source facts: %r' % (e,), {}
    bad = []
    for k, want in EXPECTED.items():
        got = sorted(set(_strip_line(x) for x in facts.get(k, ['<missing>'])))
        if got != sorted(want):
            bad.append('%s: expected %s, found %s' % (k, sorted(want), got))
    if facts.get('F1_nextdecoder_calls', 0) == 0 or facts.get('files', 0) == 0:
        bad.append('extractor saw no NextDecoder call / no file (wrong repository path?)')
    extra = {'source_facts': facts, 'source_facts_expected': EXPECTED}
    if bad:
        return False, 'source fact changed (a hypothesis of the framework theorems no longer matches layers/): ' + '; '.join(bad), extra
    return True, '', extra
