#!/bin/bash
# integrate.sh <agent>: merge the agent's /verif branch, cherry-pick its gopacket commits into /repo
set -e
A=$1
cd /verif
if git rev-parse -q --verify agent-$A >/dev/null; then
  git checkout -q -- evidence 2>/dev/null || true   # locally rewritten evidence must not block the merge
  if ! git merge --no-edit agent-$A; then
    # only known_findings.json may conflict: take the union by id
    if git diff --name-only --diff-filter=U | grep -qx known_findings.json; then
      python3 - <<'PY'
import json, subprocess
def show(n):
    try: return json.loads(subprocess.check_output(['git','show',':%d:known_findings.json'%n]))
    except Exception: return []
out, seen = [], set()
idx = {}
for e in show(2)+show(3):
    k = e.get('id') or json.dumps(e, sort_keys=True)
    if k not in seen:
        seen.add(k); idx[k] = len(out); out.append(e)
    elif e.get('status') == 'fixed' and out[idx[k]].get('status') != 'fixed':
        out[idx[k]] = e      # a repair recorded on either side wins over the older "known" entry
json.dump(out, open('known_findings.json','w'), indent=1)
PY
      git add known_findings.json
    fi
    # lib/layerset.py discovers sub-checks by file name: ours is always right
    if git diff --name-only --diff-filter=U | grep -qx lib/layerset.py; then git checkout --ours lib/layerset.py; git add lib/layerset.py; fi
    for f in $(git diff --name-only --diff-filter=U | grep '^evidence/'); do git checkout --ours "$f"; git add "$f"; done
    if [ -n "$(git diff --name-only --diff-filter=U)" ]; then echo "UNRESOLVED CONFLICTS (resolve, commit, then re-run this script to cherry-pick the gopacket commits; DO NOT delete the branches yet):"; git diff --name-only --diff-filter=U; exit 1; fi
    git commit --no-edit -q
  fi
fi
cd /repo
if git rev-parse -q --verify agent-$A >/dev/null; then
  # only commits whose patch is not already in main (so an agent branch can be integrated repeatedly)
  for c in $(git cherry main agent-$A | grep '^+' | cut -d' ' -f2); do
    echo "cherry-pick $(git log --format=%s -1 $c)"
    git cherry-pick -x $c >/dev/null || { echo "CHERRY-PICK CONFLICT at $c"; exit 1; }
  done
fi
echo integrated $A
