#!/bin/sh
# numbers quoted in DESIGN.md Part II
cd "$(dirname "$0")/.."
echo "coq lines: $(cat coq/Lib/*.v coq/Model/*.v coq/Proofs/*.v coq/Props/*.v coq/Gen/*.v | wc -l)"
echo "props files: $(ls coq/Props/*.v | wc -l)"
echo "property theorems: $(grep -hE '^\s*(Theorem|Example|Lemma|Corollary) ' coq/Props/*.v | wc -l)"
echo "layer sub-checks: $(python3 -c "import sys; sys.path.insert(0,'lib'); import layerset; print(len(layerset.LAYERS))")"
echo "fix commits: $(git -C /repo log --oneline --grep '^fix:' | wc -l)"
echo "verif hook commits: $(git -C /repo log --oneline --grep '^verif:' | wc -l)"
echo "known findings: $(python3 -c "import json;d=json.load(open('known_findings.json'));print(sum(1 for x in d if x['status']=='known'),'known',sum(1 for x in d if x['status']=='fixed'),'fixed')")"
echo "seeded: $(ls seeded | grep -c '^C') changes, $(ls seeded/harmless 2>/dev/null | wc -l) harmless"
