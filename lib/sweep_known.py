#!/usr/bin/env python3
"""Triage aid for the Sweep check (not run by ./check).

  lib/sweep_known.py [work/Sweep]

Reads <dir>/sweep_sites.tsv (clause, site;kind[;src], count, minimised case) written by the harness and,
for every (clause, site) that has no entry yet, appends a `status: known` entry to known_findings.json
(oracle_match on the clause + site name) and the minimised witness to corpus/Sweep/known.cases.
Every entry it writes must have been triaged by hand first: NOTES below holds what was found when the
witness was replayed against the real code; a site without a note gets the generic text of its clause.
"""
import sys, os, re, json

ROOT = os.path.dirname(os.path.dirname(os.path.abspath(__file__)))
d = sys.argv[1] if len(sys.argv) > 1 else os.path.join(ROOT, 'work', 'Sweep')

GENERIC = {
    'C19:panic': 'panics (out-of-range index/slice or nil map) instead of returning an error when called without recovery (direct DecodeFromBytes / SkipDecodeRecovery / DecodingLayerParser{IgnorePanic}); missing length check',
    'C01:panic': 'a read-only call on a decoded packet panics although recovery is on',
    'C01:error-discipline': 'the error-layer discipline of C01 is broken',
    'C07:panic': 'SerializeTo panics instead of returning an error',
    'C07:junk-dependence': 'SerializeTo leaves bytes it requested from the buffer unwritten: the output differs between a fresh and a dirty (0xAA-prefilled, cleared) buffer',
    'C06:roundtrip': 'dec(ser(l1)) differs from l1 (or fails) for l1 = dec(ser(dec x)): the serializer and the decoder of this type do not mirror each other',
    'C06:fixpoint': 'ser(dec(ser(dec x))) differs from ser(dec x): re-serializing the re-decoded layer changes the bytes',
}

# hand-written triage notes, keyed by "clause site"
NOTES = {
    'C01:panic layers.TCPOption.String': 'TCPOption.String dereferences the nil MPTCP sub-option left by a failed MP_CAPABLE parse (DESIGN 9; core-layer defect, repaired by the TCP sub-check)',
    'C19:panic layers.(*TCP).DecodeFromBytes': 'MPTCP option parsing reads data[4:12] etc. without length checks (DESIGN 9; core-layer defect, repaired by the TCP sub-check)',
    'C19:panic layers.(*SIP).ParseHeader': 'the zero value layers.SIP has a nil Headers map: DecodeFromBytes on &layers.SIP{} (or in a DecodingLayerParser) panics with "assignment to entry in nil map" on any input with a header line; only layers.NewSIP() is usable',
    'C06:roundtrip layers.TCP': 'TCP with an MPTCP MP_CAPABLE option: the serialized option is rejected by the decoder ("MP_CAPABLE bad option length"); core-layer defect, TCP sub-check',
    'C07:panic layers.(*STP).SerializeTo': 'STP.SerializeTo calls panic("Invalid Priority value ...") for bridge priorities that its own decoder accepts (not multiples of 4096) instead of returning an error',
    'C07:panic layers.(*BFD).SerializeTo': 'BFD.SerializeTo appends AuthHeader.Length() bytes (0 for a decoded header whose type it does not know) and then writes auth[0..2]: index out of range on a layer its own decoder produced',
    'C07:panic layers.(*SNAP).SerializeTo': 'SNAP.SerializeTo indexes OrganizationalCode[0..2] of a value whose OrganizationalCode is nil/short (zero value or failed decode)',
    'C07:panic layers.RadioTap.SerializeTo': 'RadioTap.SerializeTo indexes RadioTapValues[i] for every Present word; the value left by a failed decode has Present words without values (error-path residue only)',
    'C07:panic layers.Dot11.SerializeTo': 'Dot11.SerializeTo slices a 24-byte header buffer to [:30] for a decoded frame with 4 addresses',
    'C07:junk-dependence layers.IPv4': 'IPv4 option padding bytes are never written (DESIGN 9; core-layer defect, repaired by the IPv4 sub-check)',
    'C07:junk-dependence layers.GRE': 'GRE with routing/ack leaves 4 bytes unwritten (DESIGN 9)',
    'C06:roundtrip layers.ICMPv6Redirect': 'ICMPv6Options are written in reverse order (DESIGN 9)',
    'C06:fixpoint layers.ICMPv6Redirect': 'ICMPv6Options are written in reverse order (DESIGN 9)',
    'C19:panic layers.decodeCounterSample': 'sFlow counter sample: record lengths taken from the input are used to slice without a length check (slice bounds out of range [4:0])',
    'C19:panic layers.getLSAs': 'OSPFv3 LS update: getLSAs slices data[:4] of an exhausted buffer when the LSA count exceeds what is present',
    'C19:panic layers.(*SFlowASDestination).decodePath': 'sFlow record decoder: lengths / counts taken from the datagram are used to slice without being checked against what is left (thorough tier: needs the larger sFlow seeds)',
    'C19:panic layers.decodeExtendedGatewayFlowRecord': 'sFlow record decoder: lengths / counts taken from the datagram are used to slice without being checked against what is left (thorough tier: needs the larger sFlow seeds)',
    'C19:panic layers.decodeExtendedSwitchFlowRecord': 'sFlow record decoder: lengths / counts taken from the datagram are used to slice without being checked against what is left (thorough tier: needs the larger sFlow seeds)',
    'C19:panic layers.decodeExtendedURLRecord': 'sFlow record decoder: lengths / counts taken from the datagram are used to slice without being checked against what is left (thorough tier: needs the larger sFlow seeds)',
    'C19:panic layers.decodeExtendedUserFlow': 'sFlow record decoder: lengths / counts taken from the datagram are used to slice without being checked against what is left (thorough tier: needs the larger sFlow seeds)',
    'C19:panic layers.decodeFlowSample': 'sFlow record decoder: lengths / counts taken from the datagram are used to slice without being checked against what is left (thorough tier: needs the larger sFlow seeds)',
    'C19:panic layers.decodeGenericInterfaceCounters': 'sFlow record decoder: lengths / counts taken from the datagram are used to slice without being checked against what is left (thorough tier: needs the larger sFlow seeds)',
    'C19:panic layers.decodeRawPacketFlowRecord': 'sFlow record decoder: lengths / counts taken from the datagram are used to slice without being checked against what is left (thorough tier: needs the larger sFlow seeds)',
    'C19:panic layers.(*GTPv1U).DecodeFromBytes': 'GTPv1U extension headers: the extension length byte is used to slice beyond the packet',
    'C19:panic layers.decodeSCTPError': 'SCTP error/abort chunk: parameter slicing beyond a chunk shorter than its declared length',
    'C06:roundtrip layers.GRE': 'GRE with routing and ack serializes to bytes its own decoder rejects (DESIGN 9)',
    'C06:roundtrip layers.ICMPv6NeighborAdvertisement': 'ICMPv6Options are written in reverse order: two or more NDP options come back swapped (DESIGN 9; repaired by the IPv6/ICMPv6 sub-check)',
    'C06:roundtrip layers.ICMPv6NeighborSolicitation': 'ICMPv6Options are written in reverse order (DESIGN 9)',
    'C06:roundtrip layers.ICMPv6RouterAdvertisement': 'ICMPv6Options are written in reverse order (DESIGN 9)',
    'C06:fixpoint layers.ICMPv6NeighborAdvertisement': 'ICMPv6Options are written in reverse order (DESIGN 9)',
    'C06:fixpoint layers.ICMPv6NeighborSolicitation': 'ICMPv6Options are written in reverse order (DESIGN 9)',
    'C06:fixpoint layers.ICMPv6RouterAdvertisement': 'ICMPv6Options are written in reverse order (DESIGN 9)',
    'C06:roundtrip layers.IPv6HopByHop': 'serializeIPv6HeaderTLVOptions pads by length%8: option lists come back with extra padding options, and some re-decoded lists cannot be serialized at all (DESIGN 9)',
    'C06:roundtrip layers.IPv6Destination': 'serializeIPv6HeaderTLVOptions pads by length%8 (DESIGN 9)',
    'C06:fixpoint layers.IPv6HopByHop': 'serializeIPv6HeaderTLVOptions pads by length%8 (DESIGN 9)',
    'C06:fixpoint layers.IPv6Destination': 'serializeIPv6HeaderTLVOptions pads by length%8 (DESIGN 9)',
    'C06:roundtrip layers.IPv6': 'IPv6 with an embedded hop-by-hop header: TLV padding defect, and a zero Length with a non-hop-by-hop next header is written but rejected on decode (DESIGN 9)',
    'C06:fixpoint layers.IPv6': 'IPv6 with an embedded hop-by-hop header: TLV padding defect (DESIGN 9)',
    'C06:roundtrip layers.Dot11': 'Dot11.DecodeFromBytes takes the last 4 bytes as FCS, SerializeTo writes no FCS unless asked: every round trip eats 4 payload bytes; 4-address/QoS headers are written shorter than the decoder requires',
    'C06:fixpoint layers.Dot11': 'Dot11 FCS is consumed on decode and not written back',
    'C06:roundtrip layers.RadioTap': 'RadioTap.SerializeTo does not write back what DecodeFromBytes read (flags/FCS handling): the payload changes by 4 bytes per round trip',
    'C06:fixpoint layers.RadioTap': 'RadioTap.SerializeTo does not mirror DecodeFromBytes',
    'C06:roundtrip layers.LLC': 'LLC.SerializeTo writes a 3-byte header for control values its decoder reads as 4 bytes (and vice versa)',
    'C06:fixpoint layers.LLC': 'LLC control field width differs between SerializeTo and DecodeFromBytes',
    'C06:roundtrip layers.EAP': 'EAP.SerializeTo with FixLengths writes a Length that does not count what its decoder counts (Length 4 is written as 1, which the decoder rejects; 8 becomes 5, 6, 11 ... on successive round trips) and the TypeData/payload split changes every time',
    'C06:fixpoint layers.EAP': 'EAP.SerializeTo with FixLengths does not reproduce the Length its decoder read: the packet changes on every round trip',
    'C06:roundtrip layers.MDP': 'MDP.SerializeTo writes nothing and returns nil: the output of a decoded MDP layer is empty and cannot be decoded',
    'C06:roundtrip layers.RADIUS': 'RADIUS.SerializeTo writes every attribute Length 2 too small (7 -> 5, 6 -> 4): its own decoder rejects or mis-frames the result',
    'C06:roundtrip layers.TLS': 'TLS.SerializeTo writes record lengths that its decoder rejects ("TLS packet length mismatch")',
    'C06:fixpoint layers.Geneve': 'Geneve.DecodeFromBytes takes Version from bit 7 only (data[0]>>7) while SerializeTo writes Version<<6: 0x80 -> Version 1 -> 0x40 -> Version 0 -> 0x00',
    'C06:roundtrip layers.Dot11InformationElement': 'Dot11InformationElement: extension elements (ID 255) lose a byte per round trip / are rejected on re-decode',
    'C06:fixpoint layers.Dot11InformationElement': 'Dot11InformationElement extension elements are not mirrored',
}

def main():
    kf_path = os.path.join(ROOT, 'known_findings.json')
    known = json.load(open(kf_path)) if os.path.exists(kf_path) else []
    have = {k['id'] for k in known}
    cdir = os.path.join(ROOT, 'corpus', 'Sweep')
    os.makedirs(cdir, exist_ok=True)
    cpath = os.path.join(cdir, 'known.cases')
    existing = open(cpath).read().splitlines() if os.path.exists(cpath) else []
    have_ops = {l.split('\t')[2] for l in existing if l.count('\t') >= 2}
    new_cases = []
    n_new = 0
    new_ids = set()
    for line in open(os.path.join(d, 'sweep_sites.tsv')):
        f = line.rstrip('\n').split('\t')
        if len(f) < 6:
            continue
        clause, sk, count, cid, prop, ops = f[0], f[1], f[2], f[3], f[4], f[5]
        if clause.startswith('tie:') or clause.startswith('harness'):
            continue
        site = sk.split(';')[0][len('site='):]
        kid = 'Sweep-%s-%s' % (clause.replace(':', '-'), re.sub(r'[^A-Za-z0-9_.]+', '_', site).strip('_'))
        if kid not in have:
            new_ids.add(kid)
        if ops not in have_ops and kid in new_ids:
            have_ops.add(ops)
            wid = 'known-%s-%d' % (re.sub(r'[^A-Za-z0-9]+', '', site)[:40], len(existing) + len(new_cases))
            new_cases.append('%s\tSweep\t%s' % (wid, ops))
        if kid in have:
            continue
        have.add(kid)
        n_new += 1
        note = NOTES.get('%s %s' % (clause, site), '')
        desc = '%s %s: %s' % (clause, site, note or GENERIC.get(clause, ''))
        known.append({
            'id': kid, 'property': 'Sweep', 'status': 'known',
            'oracle_match': '^' + re.escape(clause) + '\\tsite=' + re.escape(site) + ';',
            'case_match': '',
            'description': desc,
            'witness': 'corpus/Sweep/known.cases',
        })
    json.dump(known, open(kf_path, 'w'), indent=1)
    with open(cpath, 'a') as fh:
        for c in new_cases:
            fh.write(c + '\n')
    print('%d new known findings, %d new witnesses' % (n_new, len(new_cases)))

if __name__ == '__main__':
    main()
