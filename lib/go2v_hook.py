"""pre-hook shared by the properties whose arithmetic kernels are regenerated from the source
(DESIGN.md 4.2): C08 (ComputeChecksum, FoldChecksum), C09/C10 (Sequence.Difference/Add), C17 (fnvHash)."""
import os, subprocess, filecmp, shutil, re

def go2v_hook(root, repo, work, hexe, equiv='KernelsEquiv', grid='KernelsGrid'):
    env = dict(os.environ); env['VERIF_REPO'] = repo
    os.makedirs(work, exist_ok=True)
    tmp = os.path.join(work, 'Kernels.v')
    p = subprocess.run([hexe, 'go2v', tmp], stdout=subprocess.PIPE, stderr=subprocess.STDOUT, text=True, env=env, timeout=300)
    if p.returncode != 0:
        # the regenerated-model tie cannot be established for the rewritten kernel; the hand-written model
        # is still tied to the code by the correspondence run (DESIGN.md 10: soft tie loss)
        return False, 'SOFT: go2v: a whitelisted kernel is no longer inside the translatable subset: ' + p.stdout[-600:], {'go2v_tie': 'lost (outside subset)'}
    dst = os.path.join(root, 'coq', 'Gen', 'Kernels.v')
    if not os.path.exists(dst) or not filecmp.cmp(tmp, dst, shallow=False):
        shutil.copyfile(tmp, dst + '.new'); os.replace(dst + '.new', dst)
    m = subprocess.run(['make', '-j4', 'Gen/%s.vo' % equiv], cwd=os.path.join(root, 'coq'), stdout=subprocess.PIPE, stderr=subprocess.STDOUT, text=True, timeout=1800)
    n = len(re.findall(r'^Definition go_', open(dst).read(), re.M))
    lem = len(re.findall(r'^(?:Lemma|Theorem) go_', open(os.path.join(root, 'coq', 'Gen', equiv + '.v')).read(), re.M))
    extra = {'go2v_kernels_regenerated': n, 'go2v_equivalence_lemmas': lem}
    if m.returncode != 0:
        err = re.findall(r'File "\./Gen/%s\.v", line (\d+)' % equiv, m.stdout)
        where = (' line ' + err[0]) if err else ''
        # does the regenerated kernel still agree with the model on the boundary grid (vm_compute)?
        g = subprocess.run(['make', '-j4', 'Gen/%s.vo' % grid], cwd=os.path.join(root, 'coq'), stdout=subprocess.PIPE, stderr=subprocess.STDOUT, text=True, timeout=1800)
        if g.returncode != 0:
            gerr = re.findall(r'File "\./Gen/%s\.v", line (\d+)' % grid, g.stdout)
            extra['go2v_tie'] = 'broken: semantic difference on the boundary grid'
            return False, ('kernel equivalence (coq/Gen/%s.v%s) no longer checks AND the kernel regenerated from the repository differs from the '
                           'model on the boundary grid (coq/Gen/%s.v%s): the arithmetic changed: %s') % (equiv, where, grid, (' line ' + gerr[0]) if gerr else '', g.stdout[-400:]), extra
        extra['go2v_tie'] = 'lost (lemma script no longer applies; boundary grid agrees)'
        return False, 'SOFT: kernel equivalence lemma (coq/Gen/%s.v%s) no longer checks against the regenerated kernels, but they agree with the model on the whole boundary grid' % (equiv, where), extra
    return True, '', extra


def go2v_hook2(root, repo, work, hexe):
    """second kernel group: pcapng padding and timestamp resolution, SCTP chunk padding, RadioTap align, min
    (coq/Gen/KernelsEquiv2.v, KernelsGrid2.v); pre-hook of C14ng, C15ng, Lsctp"""
    return go2v_hook(root, repo, work, hexe, equiv='KernelsEquiv2', grid='KernelsGrid2')
