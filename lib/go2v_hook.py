"""pre-hook shared by the properties whose arithmetic kernels are regenerated from the source
(DESIGN.md 4.2): C08 (ComputeChecksum, FoldChecksum), C09/C10 (Sequence.Difference/Add), C17 (fnvHash)."""
import os, subprocess, filecmp, shutil, re

def go2v_hook(root, repo, work, hexe):
    env = dict(os.environ); env['VERIF_REPO'] = repo
    os.makedirs(work, exist_ok=True)
    tmp = os.path.join(work, 'Kernels.v')
    p = subprocess.run([hexe, 'go2v', tmp], stdout=subprocess.PIPE, stderr=subprocess.STDOUT, text=True, env=env, timeout=300)
    if p.returncode != 0:
        return False, 'go2v: a whitelisted kernel is no longer inside the translatable subset: ' + p.stdout[-600:], {}
    dst = os.path.join(root, 'coq', 'Gen', 'Kernels.v')
    if not os.path.exists(dst) or not filecmp.cmp(tmp, dst, shallow=False):
        shutil.copyfile(tmp, dst + '.new'); os.replace(dst + '.new', dst)
    m = subprocess.run(['make', '-j4', 'Gen/KernelsEquiv.vo'], cwd=os.path.join(root, 'coq'), stdout=subprocess.PIPE, stderr=subprocess.STDOUT, text=True, timeout=1800)
    n = len(re.findall(r'^Definition go_', open(dst).read(), re.M))
    lem = len(re.findall(r'^(?:Lemma|Theorem) go_', open(os.path.join(root, 'coq', 'Gen', 'KernelsEquiv.v')).read(), re.M))
    extra = {'go2v_kernels_regenerated': n, 'go2v_equivalence_lemmas': lem}
    if m.returncode != 0:
        err = re.findall(r'File "\./Gen/KernelsEquiv\.v", line (\d+)', m.stdout)
        return False, 'kernel equivalence (coq/Gen/KernelsEquiv.v%s) no longer checks against the kernels regenerated from the repository: %s' % (
            (' line ' + err[0]) if err else '', m.stdout[-500:]), extra
    return True, '', extra
