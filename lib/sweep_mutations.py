import subprocess, os, json, re, sys
REPO='/work/agents/sweep/repo'; V='/work/agents/sweep/verif'
muts=[
 ('M1-vrrp-addrcheck','layers/vrrp.go','	if len(data) < addressEnd {','	if false && len(data) < addressEnd {'),
 ('M2-lldp-tlvlen','layers/lldp.go','			if len(vData) < int(val.Length+2) {','			if false && len(vData) < int(val.Length+2) {'),
 ('M3-ospf-lsalen','layers/ospf.go','	if len(data) < int(lsalength) {','	if false && len(data) < int(lsalength) {'),
 ('M4-packet-noerrlayer','packet.go','	p.AddLayer(fail)\n	p.SetErrorLayer(fail)\n','	p.AddLayer(fail)\n'),
 ('M6-mpls-spin','layers/mpls.go','	p.AddLayer(mpls)\n	if mpls.StackBottom {','	p.AddLayer(mpls)\n	for mpls.Label == 0xfffff {\n	}\n	if mpls.StackBottom {'),
 ('M5-vxlan-skipbyte','layers/vxlan.go','	bytes[0] = 0\n	bytes[1] = 0\n','	bytes[0] = 0\n'),
]
sel=sys.argv[1:] 
env=dict(os.environ); env['VERIF_REPO']=REPO
for name,fn,old,new in muts:
    if sel and name.split('-')[0] not in sel: continue
    p=os.path.join(REPO,fn); s=open(p).read(); assert old in s,(name)
    open(p,'w').write(s.replace(old,new,1))
    try:
        r=subprocess.run(['timeout','1500','./check','Sweep'],cwd=V,env=env,stdout=subprocess.PIPE,stderr=subprocess.STDOUT,text=True)
        out=[l for l in r.stdout.splitlines() if not l.startswith('KNOWN-FINDING')]
        print('=====',name,'rc',r.returncode)
        for l in out: print('  ',l[:300])
        for l in out:
            m=re.search(r'replay=(\S+)',l)
            if m:
                rp=json.load(open(m.group(1)))
                print('     oracle:',rp.get('oracle','')[:260]); print('     case:',rp.get('case','')[:200])
    finally:
        open(p,'w').write(s)
    sys.stdout.flush()
subprocess.run(['git','status','--short'],cwd=REPO)
