"""Which sub-checks exist (components of the composite properties).  A component is used only if
its configuration file lib/props/<id>.py is present, so the composites grow as sub-checks land."""
import os
_d = os.path.join(os.path.dirname(os.path.abspath(__file__)), 'props')
def have(ids):
    return [i for i in ids if os.path.exists(os.path.join(_d, i + '.py'))]
LAYERS = have(['Lip4', 'Ludp', 'Leth', 'Ldot1q', 'Licmp4', 'Ltcp', 'Lsctp', 'Lip6', 'Licmp6', 'Lgre',
               'Larp', 'Lllc', 'Lvxlan', 'Lmpls', 'Lpppoe', 'Lppp', 'Lloopback', 'Leapol', 'Lipsec', 'Lvrrp', 'Lgeneve', 'Ldns', 'Ldiameter', 'Lntp', 'Ligmp', 'Lbfd', 'Lradius', 'Ldhcp4', 'Letherip', 'Lfddi', 'Ludplite', 'Lerspan2', 'Lgtp', 'Lmodbus', 'Lrudp', 'Lusb', 'Lradiotap', 'Ldot11', 'Ldot11mgmt', 'Ldot11data', 'Ldot11ctrl'])
SWEEP = have(['Sweep'])
