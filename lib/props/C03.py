"""C03 configuration for ./check"""
import os, sys
sys.path.insert(0, os.path.join(os.path.dirname(os.path.abspath(__file__)), '..'))
from pcore_facts import facts_hook

CONF = {
    'coq_sample': 12,   # cases re-evaluated inside Coq by vm_compute against the extracted runner's output
    'interesting': ['accessor-stops-early', 'accessor-after-error', 'multi-layer-decoder', 'class-lookup',
                    'error-after-add', 'panic-after-add', 'nested'],
    'rule': ('Scripted decoder families (1-7 decoders, 1-3 data-dependent variants each: layers added, kind setters, '
             'SetTruncated, terminators return/error/panic/NextDecoder(next|nil|unregistered|no-decoder), a second terminator under '
             'DecodeStreamsAsDatagrams; ids on the array path, the map path and negative) are registered through '
             'gopacket.RegisterLayerType and run by the REAL packet.go builder and by the extracted Coq model on the same '
             'bytes, option set (Lazy/NoCopy/Pool/DecodeStreamsAsDatagrams, some with SkipDecodeRecovery) and accessor '
             'program (random, length <= 12 over the ten accessors; thorough: all programs of length <= 4 on three families); '
             'every call result (layer records, Layers, the inputs of String/Dump parsed back from the real text), data origin '
             '(alias/copy/pool) and the final state (layers, truncated, five kind pointers) are compared. '
             'Oracle C03:lazy-vs-eager (implementation only) runs each program on a lazy and an eager packet: scripted families '
             '(records, pointer position of the returned layer, rendered text modulo recovered-panic stack) and real stacks '
             '(the []byte literals of layers/*_test.go read with go/ast at run time: whole, truncated, mutated; '
             'reflect.DeepEqual / LayerDump per layer). Cases violating a side condition of the theorem (empty input, F6, '
             'eager NewPacket panics under SkipDecodeRecovery) are compared with the model but skipped by the oracle (tag oracle-skipped-*). '
             'Real-stack cases have no model side (tag impl-only).'),
    'shrink_keep_first': 3,
    'pre': [facts_hook],
    'assumptions': [
        'decoders have the shape data -> options -> (PacketBuilder calls, terminator) with NextDecoder in tail position (source fact F1/F1b, re-extracted every run)',
        'F6: a decoder that calls NextDecoder has called AddLayer (re-extracted, syntactic approximation: an AddLayer call earlier in the same function body)',
        'decoders read no decode option other than DecodeStreamsAsDatagrams (F7, re-extracted)',
        'non-empty input; eager NewPacket returned (no panic under SkipDecodeRecovery, recursion finite)',
        'a layer is what the framework sees of it: type, contents, payload, is-DecodeFailure; String/Dump are functions of (len data, truncated, layers) / (data, layers)',
    ],
    'trusted_base': [
        'model: coq/Model/PacketCore.v is a hand transcription of packet.go:131-260,466-492,494-671,725-769 and layertype.go:87-98; coq/Model/PacketScript.v interprets the scripts',
        'harness/facts (go/ast) source-fact extractor and its expected table lib/pcore_facts.py',
    ],
    'explanation': ('C03_equiv proves for every decoder family of the tail-call shape, every non-empty input, every option record and '
                    'every finite accessor program that each call on the lazy packet returns what it returns on the eager one, that no lazy '
                    'loop outruns the eager recursion depth, and that after Layers/String/Dump the whole packet state (layers, kind pointers, '
                    'truncated) is equal; C03_equiv_options lifts it to different Lazy/NoCopy/Pool bits on the two sides. The '
                    'correspondence run ties the model to packet.go; source facts tie the hypotheses to layers/.'),
}
