"""C03 configuration for ./check"""
CONF = {
    'interesting': ['accessor-stops-early', 'accessor-after-error', 'multi-layer-decoder', 'class-lookup',
                    'error-after-add', 'panic-after-add', 'nested'],
    'rule': 'placeholder',
    'shrink_keep_first': 3,
    'assumptions': [],
    'trusted_base': [],
    'explanation': '',
}
