"""C10 configuration for ./check"""
import os, sys
sys.path.insert(0, os.path.join(os.path.dirname(os.path.abspath(__file__)), '..'))
from go2v_hook import go2v_hook
CONF = {
    'coq_sample': 30,   # cases re-evaluated inside Coq by vm_compute against the extracted runner's output
    'pre': [go2v_hook],
    'interesting': ['out-of-order-queue', 'overlap-trim', 'duplicate-drop', 'wrap-crossed',
                    'limit-flush', 'age-flush', 'late-syn', 'multi-page'],
    'rule': 'Histories on one half-connection of tcpassembly: (a) all arrival orders of SYN + 3-4 small segments at 6 ISNs '
            '(4 of them at a quarter boundary / the wrap); (b) seeded random histories consistent with one sender stream S '
            '(0..6000 random bytes), ISN uniform or at {0,2^30,2^31,3*2^30,2^32}+-k, segment sizes tiny/MSS/multi-page(>1900), '
            'bounded-displacement arrival order, losses, duplicates, overlapping retransmissions, SYN first/late/absent/with data, '
            'FIN/RST on last segments and/or bare, FlushOlderThan/FlushAll interleaved, page limits {0,1,2,5}^2; '
            '(c) arbitrary segment scripts (oracle off) for model fidelity outside the window hypothesis. After every call the '
            'Reassembled calls (skip, bytes, start, end), StreamFactory.New and ReassemblyComplete are compared with the model; '
            'the oracle rebuilds each stream by offsets against S. Tags are reported by the model (branches taken).',
    'shrink_keep_first': 2,
    'assumptions': ['window hypothesis W (W_run): before every step the live offsets (delivery point, buffered pages, arriving segment) lie within 2^30; generated streams are <= 6000 bytes so W holds by C10_stream_short',
                    'Go int64 arithmetic of Sequence never overflows (values < 2^34, proved: C10_no_int64_overflow)',
                    'one Assembler, one StreamPool, one connection key; no concurrency (C12 covers that)'],
    'trusted_base': ['model: coq/Model/C10Model.v is a hand transcription of tcpassembly/assembly.go:57-69, 238-290, 536-783 '
                     'for one connection key (doubly linked page list as a list)',
                     'ghost offsets (Segment goff, p_off, c_pos) in the model are only copied, never tested (by inspection); they state W'],
    'explanation': 'Props/C10.v proves on the model: Sequence arithmetic (diff_window, Add), byteSpan, the in-order path, ordered insertion, '
                   'and C10_stream (DESIGN 5) for every stream/ISN/history under the per-step window hypothesis: no panic, every element at its '
                   'absolute offset equals the slice of S, Skip=-1 only as first element of a stream without SYN, Skip=0 when no limit fires; '
                   'C10_window_necessary shows misbehaviour outside W. The model is the REPAIRED assembly.go (late-SYN fix of agent-c10, lastSeen '
                   'reset and limit loop of agent-c11); the correspondence run ties it to the code. Also proved (received ranges threaded as a ghost of the '
                   'invariant: every received byte at or beyond the delivery point is held in the queue; block-aware queue order): '
                   'C10_skip_covers_nothing_received (a Skip meets no received range) and C10_flushall_delivers_all (a completed stream '
                   'lost nothing it received, given FIN/RST only on data ending at the end of S; FlushAll leaves no stream, loops terminate).',
}
