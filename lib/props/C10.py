"""C10 configuration for ./check"""
CONF = {
    'interesting': ['out-of-order-queue', 'overlap-trim', 'duplicate-drop', 'wrap-crossed',
                    'limit-flush', 'age-flush', 'late-syn', 'multi-page'],
    'rule': 'Histories on one half-connection of tcpassembly: (a) all arrival orders of SYN + 3-4 small segments at 6 ISNs '
            '(4 of them at a quarter boundary / the wrap); (b) seeded random histories consistent with one sender stream S '
            '(0..6000 random bytes), ISN uniform or at {0,2^30,2^31,3*2^30,2^32}+-k, segment sizes tiny/MSS/multi-page(>1900), '
            'bounded-displacement arrival order, losses, duplicates, overlapping retransmissions, SYN first/late/absent/with data, '
            'FIN/RST on last segments and/or bare, FlushOlderThan/FlushAll interleaved, page limits {0,1,2,5}^2; '
            '(c) arbitrary segment scripts (oracle off) for model fidelity outside the window hypothesis. After every call the '
            'Reassembled calls (skip, bytes, start, end), StreamFactory.New and ReassemblyComplete are compared with the model; '
            'the oracle rebuilds each stream by offsets against S. Tags are reported by the model (branches taken).',
    'shrink_keep_first': 2,
    'assumptions': ['window hypothesis W: all live offsets of one stream within 2^30 (streams here are <= 6000 bytes)',
                    'Go int64 arithmetic of Sequence never overflows (values < 2^34, proved: C10_no_int64_overflow)',
                    'one Assembler, one StreamPool, one connection key; no concurrency (C12 covers that)'],
    'trusted_base': ['model: coq/Model/C10Model.v is a hand transcription of tcpassembly/assembly.go:57-69, 238-290, 536-783 '
                     'for one connection key (doubly linked page list as a list)'],
    'explanation': 'Props/C10.v proves the sequence arithmetic (diff_window, Add), byteSpan, the in-order path, sortedness of the '
                   'queue under insertion and the stream invariant on the model; the correspondence run ties the model to assembly.go.',
}
