"""Lmdp (Cisco Meraki discovery protocol codec sub-check: C19, C05, C07, C01; C06 known finding) configuration for ./check"""
CONF = {
    'interesting': ['truncated-prefix-of-valid', 'registered-decoder', 'type-every-value', 'tlv-length-extreme', 'tlv-header-cut', 'length-extreme', 'text-corner-case',
                    'string-tlvs', 'float-tlvs', 'ip-tlv', 'bool-tlv', 'residue-all-fields', 'residue-after-error-fields', 'after-end-marker',
                    'error-after-fields-set', 'error-residue', 'residue-after-error', 'dirty-buffer', 'no-fixlengths', 'odd-payload', 'decode-error',
                    'malformed', 'seed'],
    'rule': 'MDP frames built item by item after a random 28-octet preamble: 0..8 items of known (2,3,4,5,6,7,11,13) and unknown types with texts at the '
            'corner cases of the float / IP / boolean parsers; every type octet 0..255; length octet 0,1,right,off by one or two,254,255 for every known '
            'type as last item and before another; a type octet as the very last octet; inputs of 26..31 octets; items after the end marker; every '
            'truncation; decoded into fresh and reused objects (first packet carrying every item, or failing after all fields were set); serialized '
            'under all option/buffer combinations (SerializeTo writes nothing); the MDP frame of layers/mdp_test.go; a malformed stream.',
    'shrink_keep_first': 0,
    'assumptions': ['Go slice/append/string conversion semantics as modelled (slices checked against len, stricter than cap)',
                    'strconv.ParseFloat, net.ParseIP, strconv.ParseBool are functions of their argument (model parameters; the theorems hold for every choice; '
                    'the run takes their values from the real library functions as G facts)',
                    'gopacket.LayerString/LayerDump/LayerGoString total on non-nil layers (reflective); net.IP.String total',
                    'EthernetType.LayerType() is a table lookup (abstract: the next-layer id is the EthernetType number)',
                    'C06 does not hold for MDP (SerializeTo writes nothing): C06_mdp_roundtrip_refuted, known finding Lmdp-C06-serialize-writes-nothing'],
    'trusted_base': ['model: coq/Model/LmdpModel.v is a hand transcription of layers/mdp.go:48-161 as repaired'],
    'explanation': 'Theorems over all byte strings / layer values and all text parsers about the Gallina model of the MDP codec; correspondence ties it to layers/mdp.go.',
}
