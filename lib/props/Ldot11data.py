"""Ldot11data (802.11 sub-layers: C19, C05, C01; no SerializeTo, so C06/C07 do not apply) configuration for ./check"""
CONF = {
    'interesting': ['layer-chain', 'type-flags-grid', 'truncated-prefix-of-valid', 'residue-after-ok', 'wep', 'malformed', 'seed'],
    'rule': 'For the fifteen data sub-layers (Payload := data; the QoS ones reset Contents) and the chain of layers of data frames: every kind decoded on byte strings of every length 0..40 into a fresh object and into one that has decoded another '
            'string before; whole frames of every type value of the family with the flag shapes 0,3,0x40,0x43,0x80,0xC3 and payloads of 0,1,8,20 octets '
            'decoded as packets from LayerTypeDot11 (every truncation for two flag shapes), the layers compared up to the first layer of another '
            'family; the 802.11 frames of the test-file literals; a malformed stream.',
    'shrink_keep_first': 1,
    'not_applicable': ['C06 and C07: these layers have no SerializeTo', 'no length fields: consistent-length cuts do not exist for them'],
    'assumptions': ['the packet decoding loop (decodeDot11, decodingLayerDecoder, eagerPacket.NextDecoder: stop on empty payload, failure layer when a type has no decoder) as modelled by sb_chain',
                    'Dot11TypeMetadata / dataDecodeMap / NextLayerType tables as listed in runner/ldot11.ml and runner/ldot11subutil.ml',
                    'gopacket.LayerString/LayerDump/LayerGoString total on non-nil layers (reflective); no String methods'],
    'trusted_base': ['model: coq/Model/Ldot11subModel.v is a hand transcription of the sub-layer decoders of layers/dot11.go and of decodeDot11 :1008-1019'],
    'explanation': 'These layers decode no field (they store the bytes as Contents or Payload): the theorems (no panic on any byte string, a reused object equals a fresh one after any history of decodes, renderers total) are immediate; the chain ties NextLayerType dispatch of Dot11 and of the sub-layers to the real packet decoder.',
    'mutations_tried': ['Dot11DataQOSNull.NextLayerType returns Dot11Data (caught)', 'Dot11.NextLayerType: WEP only when Retry is also set (caught)', 'Dot11DataQOS.DecodeFromBytes stores the bytes as Contents (caught)'],
}
