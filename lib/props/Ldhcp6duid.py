"""Ldhcp6duid (DHCPv6 DUID codec sub-check: C19, C05, C06, C07, C01) configuration for ./check"""
CONF = {
    'coq_sample': 10,   # cases re-evaluated inside Coq by vm_compute against the extracted runner's output
    'interesting': ['truncated-prefix-of-valid', 'octet-every-value', 'type-change', 'decode-error', 'malformed', 'residue-after-error', 'error-residue', 'dirty-buffer', 'roundtrip', 'out-of-domain',
                    'field-extreme', 'seed', 'duid-type-1', 'duid-type-2', 'duid-type-3', 'duid-type-4'],
    'rule': 'DUIDs of type LLT, EN, LL and unknown types (0, 4, 256, 65535; every low type octet) with 0..20 trailing octets; every truncation of each type decoded into a fresh object and after an LLT, an EN and an LL DUID; all ordered pairs of types on a reused object; Encode of decoded values (also of error residues) and of field-built DUIDs with short/exact/long fixed-size fields under all buffer kinds; round trips of decoded and of in-domain field-built DUIDs (empty payload); DUIDs of the client/server-id options of the DHCPv6 packet literals of layers/*_test.go; a malformed stream.',
    'shrink_keep_first': 0,
    'assumptions': ['Go slice semantics as modelled (slices checked against len, stricter than cap); the harness decodes a copy whose capacity equals its length',
                    'a DUID is not a layer: the harness wraps it (SerializeTo = Encode() prepended to the payload, checked against Len(); String = DHCPv6DUID.String); reflective renderers run on the wrapper',
                    'Encode is modelled by its result (zeroed make + copies = fields padded/cut to their size), each data[a:b] of it as a length guard',
                    'C06 domain: the values DecodeFromBytes produces (du_wf) and an empty payload (the trailing field takes every remaining octet)',
                    'decodeDHCPv6DUID (a new object per call) and the use of DUIDs inside DHCPv6 options are covered by Ldhcp6 as option octets'],
    'trusted_base': ['model: coq/Model/Ldhcp6duidModel.v is a hand transcription of layers/dhcpv6.go:280-362 as repaired'],
    'explanation': 'Theorems over all byte strings / DUID values about the Gallina model of the DHCPv6 DUID codec; correspondence ties it to layers/dhcpv6.go. The decoder before the repair (a reused DUID kept the fields of another type) is du_decode_orig with a refuted witness.',
}
