"""Llldp (LLDP codec sub-check: C19, C06, C07, C01; C05 does not apply) configuration for ./check"""
CONF = {
    'coq_sample': 12,   # cases re-evaluated inside Coq by vm_compute against the extracted runner's output
    'interesting': ['truncated-prefix-of-valid', 'mandatory-tlv', 'consistent-length-cut', 'tlv-length-extreme', 'nine-bit-length', 'mgmt-length-extreme', 'org-info-length',
                    'field-extreme', 'error-after-add', 'org-tlv', 'mgmt-address', 'dirty-buffer', 'no-fixlengths', 'odd-payload', 'roundtrip', 'out-of-domain',
                    'decode-error', 'malformed', 'seed'],
    'rule': 'LLDPDUs built TLV by TLV by the harness: mandatory ChassisID/PortID/TTL plus 0..5 of port description, system name/description, capabilities, '
            'management address, organisation-specific (802.1, 802.3, MED, Cisco, Profinet, unknown OUIs) and unknown types, End; every truncation; mandatory TLVs '
            'missing, reordered, duplicated, with values of 0..3 octets, subtype 0, End missing / with a value / followed by more TLVs; the length field of every '
            'TLV kind forced to 0,1,n-1,n+1,n+2,255,256,257,511 as last TLV and before End; values of 255..511 octets (ninth length bit); management address: '
            'address string length 0..255 x OID length 0..255 x bytes present (uint8 wrap values 249..255), with and without bytes after the value; consistent-length '
            'cuts: management-address, capabilities and organisation-specific TLVs ending exactly at every internal boundary of their value (TLV length = bytes '
            'present), alone and followed by another TLV; field-built layers (Length different from len(Value), ids of 0/510/511/520 octets, types 0..255); '
            'the LLDP frames of layers/*_test.go; a malformed stream; serialized under all option/buffer combinations (the layer is appended) and round-tripped.',
    'assumptions': ['Go slice/copy/append/make semantics as modelled (slices checked against len, stricter than cap)',
                    'gopacket.LayerString/LayerDump/LayerGoString total on non-nil layers (reflective), run on both layers the decoder adds',
                    'the typed Info decoders (Decode8021, Decode8023, Decode8021Qbg, DecodeMedia, DecodeCisco2, DecodeProfinet) are not modelled: they are called on every decoded packet (panic = C01:render-panic) with organisation-specific TLVs of every OUI/subtype they know and Info of every length'],
    'trusted_base': ['model: coq/Model/LlldpModel.v is a hand transcription of layers/lldp.go:64-110, :769-905'],
    'not_applicable': ['C05: LinkLayerDiscovery has no DecodeFromBytes; decodeLinkLayerDiscovery allocates new layers (C05_lldp_fresh is by construction)',
                       ],
    'explanation': 'Theorems over all byte strings / layer values about the Gallina model of the LLDP codec; correspondence ties it to layers/lldp.go.',
}
