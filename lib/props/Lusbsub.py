"""Lusbsub (USBControl / USBInterrupt / USBBulk content-only sub-layers of layers/usb.go: C19, C05, C01; C06/C07 n/a) configuration for ./check"""
CONF = {
    'coq_sample': 10,   # cases re-evaluated inside Coq by vm_compute against the extracted runner's output
    'interesting': ['truncated-prefix-of-valid', 'length-extreme', 'registered-decoder', 'kind-control', 'kind-interrupt', 'kind-bulk', 'malformed', 'seed'],
    'rule': 'For each of USBControl, USBInterrupt, USBBulk: byte strings of 0,1,2,7,8,9,64,300,1500,65535 octets and every truncation of them up to 40, decoded into fresh and reused objects and through the registered decoder function on a recording PacketBuilder; what follows the usbmon header in the packet literals of layers/*_test.go; a malformed stream.',
    'shrink_keep_first': 1,
    'assumptions': ['gopacket.LayerString/LayerDump/LayerGoString total on non-nil layers (reflective)',
                    'the three types have no SerializeTo: C06 and C07 do not apply',
                    'DecodeFromBytes assigns only Contents: C05_usbsub_fresh is over receivers that were only ever decoded into (Payload nil); a receiver whose public BaseLayer.Payload was set by hand keeps it (C05_usbsub_fresh_all_refuted; recorded, not repaired: not reachable by decoding)',
                    'USBRequestBlockSetup is covered by Lusb (LusbModel.us_decode_into)'],
    'trusted_base': ['model: coq/Model/LusbsubModel.v is a hand transcription of layers/usb.go:239-298 and layers/base.go:38-49'],
    'explanation': 'Theorems over all byte strings about the Gallina model of the three content-only USB sub-layers and their registered decoder functions; correspondence ties it to layers/usb.go.',
}
