"""C17 configuration for ./check"""
import os, sys
sys.path.insert(0, os.path.join(os.path.dirname(os.path.abspath(__file__)), '..'))
from go2v_hook import go2v_hook
CONF = {
    'coq_sample': 25,   # cases re-evaluated inside Coq by vm_compute against the extracted runner's output
    'pre': [go2v_hook],
    'interesting': ['unequal-length-shared-prefix', 'equal-bytes-different-type', 'len-17-reject',
                    'reversed-pair', 'layer-flow', 'reused-layer-reused-buffer'],
    'rule': 'Op sequences over an append-only register file of endpoints and flows: NewEndpoint/NewFlow for 14 endpoint types (incl. negative, min/max int64) x raw lengths 0..18, pairs with shared prefixes / zero extensions / one-bit changes / equal bytes with different type, dense triples with all pairwise comparisons, random chains of FlowFromEndpoints/Endpoints/Src/Dst/Reverse, rejection above 16 bytes; and for each of the 12 layer flow constructors well-formed headers (both directions), truncations at and around the header length, header-field mutations and random bytes, decoded lazily through gopacket.NewPacket; plus whole Ethernet/IPv4|IPv6/TCP|UDP|SCTP packets (IP options, fragments, length-field variations, truncations, byte mutations) decoded eagerly in both directions; plus, for every flow-bearing layer with DecodeFromBytes (Ethernet, IPv4, IPv6, TCP, UDP, SCTP, LinuxSLL, LinuxSLL2), sequences of 2-4 packets (new conversations, replies, repeats, undecodable ones) decoded into ONE layer object from fresh slices and from one capture buffer overwritten in place, the flow accessor called once or twice after every decode and compared per step with the flow the model computes from the current header bytes. After every op the pushed values (type, Raw, FastHash) or the comparison results (==, LessThan both ways, map insert+lookup, hash equality) are compared with the model; the implementation-side oracle checks the value laws and the layer/address/reverse/hash clauses directly.',
    'shrink_keep_first': 0,
    'assumptions': ['bytes.Compare is lexicographic comparison with a proper prefix smaller (stdlib specification)',
                    'Go struct == and map key equality are componentwise equality of the representation',
                    'the flow accessors are functions of the layer\'s current address fields only (no memo): after a decode that assigns the fields the flow is that of the CURRENT header bytes (theorem C17_seq_current), whatever was decoded into the object before and whether the buffer is fresh or reused',
                    'the packet data slice has cap == len (NewPacket copies into make([]byte, len))',
                    'TCP option kind 30 (MPTCP) parsing and IPv6 hop-by-hop decoding are outside the layer model (inputs excluded by the generator; the model answers cls=unmodelled)'],
    'trusted_base': ['model: coq/Model/C17Model.v is a hand transcription of flows.go:27-236 and of the flow constructors / decode guards of layers/{ethernet,fddi,ip4,ip6,linux_sll,linux_sll2,ppp,rudp,sctp,tcp,udp,udplite}.go'],
    'explanation': 'Props/C17.v proves the value laws (well-formedness of everything reachable through the API, == iff equal type and Raw, round trips, Reverse involution, strict total order, hash symmetry mod 2^64, rejection above 16 bytes) and, for the layer table, that swapping the address fields of a header yields the reversed flow with equal FastHash; the correspondence run ties the model to flows.go and the layers.',
}
