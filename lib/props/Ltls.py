"""Ltls (TLS codec sub-check: C19, C05, C06, C07, C01) configuration for ./check"""
CONF = {
    'coq_sample': 12,   # cases re-evaluated inside Coq by vm_compute against the extracted runner's output
    'interesting': ['truncated-prefix-of-valid', 'record-length-extreme', 'handshake-type-length', 'clienthello-length-extreme',
                    'sni-length-extreme', 'extension-length-extreme', 'consistent-length-cut', 'field-extreme', 'large-record',
                    'multi-record', 'clienthello', 'sni', 'extensions', 'clienthello-beyond-record', 'encrypted-handshake', 'encrypted-alert',
                    'capacity-dependent', 'error-after-add', 'residue-after-error', 'dirty-buffer', 'no-fixlengths', 'odd-payload', 'roundtrip', 'out-of-domain',
                    'decode-error', 'malformed', 'seed'],
    'rule': 'Records built field by field by the harness (ChangeCipherSpec, plain and encrypted Alert, ApplicationData, Handshake: ClientHello with '
            'session id / cipher suites / compression methods / extensions incl. server_name, other plaintext types, encrypted), sequences of 1..5 records; '
            'every truncation of a 4-record message; record length 0,1,2,3,15,16,17,len-1,len+1,0xffff and content types 0,19,24,255 for every record kind, '
            'alone and followed by another record; handshake type x record length x 24-bit length (the plaintext test); each ClientHello inner length '
            '(session id, cipher suites, compression, extensions, handshake length) forced to 0,1,..,0xffff with trailing bytes placing the end of the data '
            'exactly at, one before and one after the bound the code checks; server_name list length / entry type / host length incl. 0xfff6..0xffff '
            '(uint16 wrap of 8+len and 9+len), server_name data of every length 0..12, declared extension length incl. 0xfffc..0xffff; consistent-length '
            'cuts: the ClientHello ends exactly at every internal field boundary and at every offset of the extensions block with extensions length, '
            '24-bit length and record length rewritten to agree, alone and followed by another record (the ClientHello parser reads on into it); '
            'field-built layers (new:/rtn:), 1400-octet records, TLS streams of layers/*_test.go, a malformed stream; decoded into fresh and reused '
            'objects, serialized under all option/buffer combinations, round-tripped.  Every dec: input is also decoded as a slice of a larger zero-filled array '
            '(cap > len) and compared with the cap = len result (oracle C05:beyond-slice; known finding for the ClientHello parser).',
    'assumptions': ['Go slice/copy/append/make semantics as modelled (slices checked against len, stricter than cap)',
                    'the input slice has cap = len: ClientHello.decodeFromBytes re-slices its argument to its capacity (tls_handshake.go:110) and so reads from the record body '
                    'to the end of the backing array; the harness allocates every input with make(len) (a repository test pins the reading beyond the record)',
                    'gopacket.LayerString/LayerDump/LayerGoString total on non-nil layers (reflective); the String methods of the TLS enums are switches with a default'],
    'trusted_base': ['model: coq/Model/LtlsModel.v is a hand transcription of layers/tls.go:114-282, tls_alert.go:71-91, tls_appdata.go:22-34, tls_cipherspec.go:34-52, tls_handshake.go:104-251'],
    'not_applicable': [],
    'explanation': 'Theorems over all byte strings / layer values about the Gallina model of the TLS codec; correspondence ties it to the five source files.',
}
