"""Lbfd (BFD codec sub-check: C19, C05, C06, C07, C01) configuration for ./check"""
CONF = {
    'interesting': ['truncated-prefix-of-valid', 'octet-every-value', 'auth-section-extreme', 'length-extreme', 'auth-type-1', 'auth-type-2', 'auth-type-4',
                    'auth-type-6', 'auth-bit-without-section', 'error-after-fields-set', 'residue-after-error', 'error-residue', 'dirty-buffer',
                    'no-fixlengths', 'roundtrip', 'field-extreme', 'serialize-error', 'out-of-domain', 'decode-error', 'malformed'],
    'rule': 'BFD control packets built field by field: every first octet (version/diagnostic) and every flags octet; authentication sections of every type '
            '0..7, 255 with 0..9 octets (the keyed types need 8 for the sequence number) with the A bit set and clear; password/MD5/SHA1 sections with 0..20 '
            'data octets; length octet short/long, 255- and 256-octet packets; every truncation; decoded into fresh objects and into an object holding the '
            'authentication header of an earlier packet; serialized under all option/buffer combinations (24 prepended + section appended) and '
            'round-tripped; field-built layers (version 8/255, diagnostic 32/255, state 4/255, unknown auth types, sections that push the length '
            'over 255); BFD packets of layers/*_test.go; a malformed stream.',
    'shrink_keep_first': 0,
    'assumptions': ['Go slice/copy semantics as modelled (slices checked against len, stricter than cap)',
                    'gopacket.LayerString/LayerDump/LayerGoString total on non-nil layers (reflective); BFDDiagnostic/BFDState/BFDAuthType String are switches with a default',
                    'C06 is about a BFD layer with nothing under it (the length octet covers the whole packet; the authentication section is appended behind the buffer content)'],
    'trusted_base': ['model: coq/Model/LbfdModel.v is a hand transcription of layers/bfd.go:231-482 as repaired (fixer: 2 commits, agent-lmisc2: AuthHeader cleared)'],
    'explanation': 'Theorems (incl. the round trip) over all byte strings / layer values about the Gallina model of the BFD codec; correspondence ties it to layers/bfd.go.',
}
