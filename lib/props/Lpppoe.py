"""Lpppoe (PPPoE codec sub-check: C19, C06, C07, C01; C05 n/a) configuration for ./check"""
CONF = {
    'interesting': ['truncated-prefix-of-valid', 'length-extreme', 'trailing-bytes-dropped', 'zero-length', 'decode-error', 'error-residue',
                    'dirty-buffer', 'no-fixlengths', 'odd-payload', 'roundtrip', 'field-extreme', 'out-of-domain', 'malformed'],
    'rule': 'PPPoE headers built field by field (version/type nibbles incl. 0xff, discovery/session codes, session id 0/1/65535), declared length '
            '0, 1, exact, one less, one more, 255, 256, 65535 against 0/1/2/40 bytes present; every truncation; decoded through the registered '
            'decoder on a recording PacketBuilder; serialized under all option/buffer combinations (FixLengths sets Length from the buffer) and '
            'round-tripped; field-built layers with version/type 16 and 255; PPPoE frames of layers/*_test.go; a malformed stream.',
    'shrink_keep_first': 0,
    'assumptions': ['Go slice/copy semantics as modelled (slices checked against len, stricter than cap)',
                    'gopacket.LayerString/LayerDump/LayerGoString total on non-nil layers (reflective); PPPoE has no String method or flow accessor',
                    'PPPoE has no DecodeFromBytes: decodePPPoE allocates the layer, C05 (reused object) does not apply'],
    'trusted_base': ['model: coq/Model/LpppoeModel.v is a hand transcription of layers/pppoe.go:32-71'],
    'explanation': 'Theorems over all byte strings / layer values about the Gallina model of the PPPoE codec; correspondence ties it to layers/pppoe.go.',
}
