"""C07: composite of sub-checks (DESIGN.md section 2 'Sub-checks')"""
import os, sys
sys.path.insert(0, os.path.join(os.path.dirname(os.path.abspath(__file__)), '..'))
from layerset import LAYERS, SWEEP, have

CONF = {
    'components': LAYERS + SWEEP,
    'theorem_prefix': 'C07_',
    'clause_prefix': 'C07:',
    'parallel': 5,
    'rule': 'Per modelled layer: every decoded value (including error-path residues) and field-built values serialized with the four option combinations into fresh, dirty (0xAA-filled then cleared) and pre-sized buffers, twice. Sweep: all serializable types (testing).',
    'explanation': 'C07_<layer>_no_panic and C07_<layer>_junk_free: for every layer value, payload and option set the modelled SerializeTo has no Panic outcome and its output does not depend on the prior content of the bytes PrependBytes/AppendBytes returned; with C18 this gives independence from the buffer history.',
    'assumptions': [],
}
