"""Ludplite (UDP-Lite header decoder sub-check: C19, C01; C05/C06/C07 n/a) configuration for ./check"""
CONF = {
    'interesting': ['truncated-prefix-of-valid', 'octet-every-value', 'decode-error', 'malformed'],
    'rule': 'UDP-Lite headers: every value of the first port and coverage octets, all-zero/all-ones, every truncation 0..9; decoded through the registered decoder on a recording PacketBuilder; TransportFlow endpoints compared with the port octets; a malformed stream.',
    'shrink_keep_first': 0,
    'assumptions': ['Go slice semantics as modelled (slices checked against len, stricter than cap)',
                    'gopacket.LayerString/LayerDump/LayerGoString total on non-nil layers (reflective)', 'UDPLite has neither DecodeFromBytes nor SerializeTo: C05, C06 and C07 do not apply'],
    'trusted_base': ['model: coq/Model/LudpliteModel.v is a hand transcription of layers/udplite.go:29-50 (with the length check of the earlier repair)'],
    'explanation': 'Theorems over all byte strings about the Gallina model of the UDP-Lite header decoder; correspondence ties it to layers/udplite.go.',
}
