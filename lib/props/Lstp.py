"""Lstp (spanning tree BPDU codec sub-check: C19, C05, C06, C07, C01) configuration for ./check"""
CONF = {
    'interesting': ['truncated-prefix-of-valid', 'octet-every-value', 'residue-after-error', 'error-residue', 'dirty-buffer', 'no-fixlengths', 'odd-payload', 'roundtrip',
                    'field-extreme', 'serialize-error', 'out-of-domain', 'decode-error', 'malformed'],
    'rule': 'BPDUs: every value of the flags octet and of the octets holding the priority nibbles; all-zero/all-ones headers; every truncation 0..36; decoded into fresh and '
            'reused objects; serialized under all option/buffer combinations and round-tripped; field-built layers (priorities 0, 4096, 61440, 1, 4095, 65535, system ids '
            '4095/4096/65535, addresses of 0, 2, 6, 7 octets and nil); a malformed stream.',
    'shrink_keep_first': 0,
    'assumptions': ['Go slice/copy semantics as modelled (slices checked against len, stricter than cap)',
                    'gopacket.LayerString/LayerDump/LayerGoString total on non-nil layers (reflective); STP has no String method or flow accessor'],
    'trusted_base': ['model: coq/Model/LstpModel.v is a hand transcription of layers/stp.go:49-141 as repaired'],
    'explanation': 'Theorems over all byte strings / layer values about the Gallina model of the STP codec; correspondence ties it to layers/stp.go.',
}
