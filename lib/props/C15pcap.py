"""C15pcap (sub-check of C15: classic pcap reader and snoop reader on hostile input)"""
CONF = {
    'coq_sample': 20,   # cases re-evaluated inside Coq by vm_compute against the extracted runner's output
    'interesting': ['setsnaplen-between-reads', 'mut-magic', 'mut-version', 'mut-snaplen', 'mut-linktype', 'mut-caplen', 'mut-len', 'mut-reclen', 'mut-pad',
                    'mut-ts', 'short-read-chunking', 'injected-error', 'gzip', 'garbage', 'garbage-records', 'bitflip', 'splice', 'truncated'],
    'rule': 'Valid pcap (both byte orders, micro/nano) and snoop files from the C14 generator; every header and record field forced to boundary values (0,1,max, sign boundaries, +-1 around snaplen / capture length / 4096 / record length / bytes remaining), pairs of fields, random garbage, bit flips, splices; delivered whole, in random / one-byte / every-single-split chunkings (with empty reads, with the final error delivered together with data), with an injected read error at every position of small files, and gzip-wrapped (oracle side only). Header and every read result (class, timestamp, lengths, data) are compared with the model; the oracle on the implementation checks no panic, no hang (20 s), allocation per call <= bytes present + declared snap length (snoop: 4096) + 64 KiB (TotalAlloc deltas), shape, termination within bytes/16+2 (snoop /24) calls, chunking invariance and that a read error surfaces as that error.',
    'shrink_keep_first': 5,
    'assumptions': ['64-bit Go int',
                    'bufio.Reader.Peek, io.ReadFull, io.CopyN behave as specified: results depend only on the bytes before the first failing read; fewer than 100 consecutive empty reads',
                    'compress/gzip is trusted and not modelled (exercised on the oracle side only)',
                    'allocation is modelled as the make([]byte, n) requests of pcapgo; real memory use is measured (runtime.MemStats.TotalAlloc), not proved'],
    'trusted_base': ['model: coq/Model/PcapModel.v is a hand transcription of pcapgo/read.go:73-177 and pcapgo/snoop.go:92-170 (with the fix: commits of branch agent-pcap)'],
    'explanation': 'C15_pcap_* / C15_snoop_* are proved for every chunked stream; the correspondence run ties the model to read.go / snoop.go.',
}
