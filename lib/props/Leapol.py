"""Leapol (EAPOL header codec sub-check: C19, C05, C06, C07, C01) configuration for ./check"""
CONF = {
    'interesting': ['truncated-prefix-of-valid', 'residue-after-error', 'error-residue', 'dirty-buffer', 'no-fixlengths', 'odd-payload', 'roundtrip', 'field-extreme', 'decode-error', 'malformed', 'type-every-value', 'length-field-mismatch', 'seed'],
    'rule': 'EAPOL headers built field by field (versions 0/1/2/3/255, every type value, length equal to / different from the bytes present, 0, 65535), every truncation 0..5, decoded into fresh and reused objects, serialized under all option/buffer combinations and round-tripped; field-built layers; EAPOL frames of layers/*_test.go; a malformed stream.',
    'shrink_keep_first': 0,
    'assumptions': ['Go slice/copy semantics as modelled (slices checked against len, stricter than cap)',
                    'gopacket.LayerString/LayerDump/LayerGoString total on non-nil layers (reflective); EAPOL has no String method or flow accessor',
                    'EAPOLType.LayerType table abstract (next = the field value)'],
    'trusted_base': ['model: coq/Model/LeapolModel.v is a hand transcription of layers/eapol.go:28-58'],
    'explanation': 'Theorems over all byte strings / layer values about the Gallina model of the EAPOL header codec; correspondence ties it to layers/eapol.go.',
}
