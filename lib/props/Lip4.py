"""Lip4 (IPv4 codec sub-check: C19, C05, C06, C07, C01) configuration for ./check"""
CONF = {
    'coq_sample': 15,   # cases re-evaluated inside Coq by vm_compute against the extracted runner's output
    'interesting': ['truncated-prefix-of-valid', 'option-length-extreme', 'residue-options', 'residue-padding',
                    'pad-residue', 'odd-payload', 'dirty-buffer', 'no-fixlengths', 'error-after-add',
                    'two-or-more-options', 'padding-lost', 'length-boundary', 'big-payload', 'option-bytes-boundary'],
    'rule': 'IPv4 datagrams built field by field by the harness (0..5 options, EOL/NOP/typed, zero and non-zero padding) '
            'decoded, serialized under all FixLengths/ComputeChecksums/buffer-kind combinations and round-tripped; every '
            'truncation length 0..header+2; IHL 0..15; Length forced to 0,1,19,20,21,hl-1,hl,hl+1,len-1,len+1,len+1000,65535; '
            'every option length byte forced to 0,1,2,3,rem-1,rem,rem+1,255; ordered pairs decoded into one object (first with '
            'options/padding residue); layers built from public fields in and out of range (addresses of length 0..20, '
            'v4-mapped, option lengths 0..255, short/long option data, > 40 and > 255 option bytes); IPv4 payloads of the '
            'Ethernet packet literals of layers/*_test.go (go/ast, at run time), their prefixes; a malformed stream.',
    'shrink_keep_first': 0,
    'assumptions': ['Go slice/copy semantics as modelled; slices checked against len (stricter than cap)',
                    'gopacket.LayerString/LayerDump/LayerGoString are total on non-nil layers (reflective); only NetworkFlow can panic',
                    'IPProtocol.LayerType dispatch table abstract (NextLayerType id = Fragment or protocol number)'],
    'trusted_base': ['model: coq/Model/Lip4Model.v is a hand transcription of layers/ip4.go:63-65,79-175,178-282,295-321 and checksum.go:34-58'],
    'explanation': 'Theorems over all byte strings / all layer values about the Gallina model of the IPv4 codec; the correspondence run ties the model to layers/ip4.go.',
}
