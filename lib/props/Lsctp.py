"""Lsctp (layers/sctp.go: common header + chunk walk; serves C19 C05 C06 C07 C01) configuration for ./check"""
import os, sys
sys.path.insert(0, os.path.dirname(os.path.dirname(os.path.abspath(__file__))))
from go2v_hook import go2v_hook2
CONF = {
    'pre': [go2v_hook2],
    'coq_sample': 15,   # cases re-evaluated inside Coq by vm_compute against the extracted runner's output
    'interesting': ['truncated-prefix-of-valid', 'option-length-extreme', 'residue-options', 'odd-payload',
                    'dirty-buffer', 'no-fixlengths', 'error-after-add'],
    'rule': 'Common header: every truncation 0..13, reuse pairs, SerializeTo x ComputeChecksums x fresh/dirty/pre-sized buffer, round '
            'trips. Chunk walk through gopacket.NewPacket(LayerTypeSCTP, NoCopy, SkipDecodeRecovery): one well-formed chunk of every '
            'registered type (several shapes) alone and in random sequences of 1..4, every truncation of each packet, with and without '
            'spare capacity behind the data; the chunk length field of every chunk kind forced to 0,1,3,4,5,7,8,9,12,15,16,17,19,20,21,24,'
            '65535,len-1,len+1,len+4 as last chunk and followed by another; parameter length 0..13,65535 x value sizes x cuts; Sack '
            'gap/dup counts x bytes present; SCTP packets of the repository tests (go/ast) whole, truncated, bytes forced; malformed stream.',
    'shrink_keep_first': 1,
    'assumptions': ['Go slice semantics as modelled: index checked against len, s[a:b] against cap, s[a:] against len',
                    'SCTPPort.LayerType dispatch table is a parameter (dumped from the implementation into the case)',
                    'hash/crc32 Castagnoli = reflected CRC-32C, modelled bit by bit',
                    'gopacket.LayerString/LayerDump/LayerGoString are total on the SCTP layers (no Stringer with a panic condition)'],
    'trusted_base': ['model: coq/Model/LsctpModel.v is a hand transcription of layers/sctp.go:30-201,342-365,423-444,484-523,568-584,'
                     '623-640,670-681,704-714,737-748,780-790 and enums.go:355-367; chunk SerializeTo methods are not modelled'],
    'explanation': 'C19_sctp_no_panic is proved of sctp_packet true (the repaired tree) for all data and spare capacity; the '
                   'correspondence run ties it to packet decoding with SkipDecodeRecovery.',
}
