"""C14: composite of sub-checks (DESIGN.md section 2 'Sub-checks')"""
import os, sys
sys.path.insert(0, os.path.join(os.path.dirname(os.path.abspath(__file__)), '..'))
from layerset import LAYERS, SWEEP, have

CONF = {
    'components': have(['C14pcap', 'C14ng']),
    'theorem_prefix': 'C14_',
    'clause_prefix': 'C14:',
    'parallel': 5,
    'rule': 'pcap: writer-produced and hand-built files in both byte orders and resolutions read at every truncation offset; pcapng: interface sets, option residues, every truncation offset; support oracle libpcap.',
    'explanation': 'C14_pcap_roundtrip / C14_pcap_prefix (and the pcapng counterparts): reading any prefix of a written file returns exactly the packets wholly contained, then EOF at a record boundary else UnexpectedEOF.',
    'assumptions': [],
}
