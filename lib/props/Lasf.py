"""Lasf (ASF data header codec sub-check: C19, C05, C06, C07, C01) configuration for ./check"""
CONF = {
    'interesting': ['truncated-prefix-of-valid', 'octet-every-value', 'decode-error', 'malformed', 'residue-after-error', 'error-residue', 'dirty-buffer', 'no-fixlengths', 'odd-payload', 'roundtrip', 'field-extreme', 'payload-length-over-octet'],
    'rule': 'ASF data headers: every value of octets 4 (type), 6 (reserved) and 7 (length), the presence ping/pong identifiers, all-zero/all-ones, every truncation 0..9, decoded into fresh and reused objects, serialized under all option/buffer combinations and round-tripped; field-built layers with extreme fields; FixLengths over payloads of 0,1,255,256,257,511,600 octets; a malformed stream.',
    'shrink_keep_first': 0,
    'assumptions': ['Go slice semantics as modelled (slices checked against len, stricter than cap)',
                    'gopacket.LayerString/LayerDump/LayerGoString total on non-nil layers (reflective)',
                    'the reserved octet 6 is not kept by the decoder (written as 0): the round trip is on fields, not on octets'],
    'trusted_base': ['model: coq/Model/LasfModel.v is a hand transcription of layers/asf.go:31-36,110-156'],
    'explanation': 'Theorems over all byte strings / layer values about the Gallina model of the ASF data header codec; correspondence ties it to layers/asf.go.',
}
