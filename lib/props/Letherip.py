"""Letherip (EtherIP header decoder sub-check: C19, C05, C01; C06/C07 n/a) configuration for ./check"""
CONF = {
    'interesting': ['truncated-prefix-of-valid', 'octet-every-value', 'decode-error', 'malformed', 'residue-after-error'],
    'rule': 'EtherIP headers: every value of both header octets, all-zero/all-ones, every truncation 0..3, decoded into fresh and reused objects; EtherIP packets of layers/*_test.go; a malformed stream.',
    'shrink_keep_first': 0,
    'assumptions': ['Go slice semantics as modelled (slices checked against len, stricter than cap)',
                    'gopacket.LayerString/LayerDump/LayerGoString total on non-nil layers (reflective)', 'EtherIP has no SerializeTo: C06 and C07 do not apply'],
    'trusted_base': ['model: coq/Model/LetheripModel.v is a hand transcription of layers/etherip.go:27-46'],
    'explanation': 'Theorems over all byte strings about the Gallina model of the EtherIP header decoder; correspondence ties it to layers/etherip.go.',
}
