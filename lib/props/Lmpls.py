"""Lmpls (MPLS codec sub-check: C19, C06, C07, C01; C05 n/a) configuration for ./check"""
CONF = {
    'interesting': ['truncated-prefix-of-valid', 'bits-every-value', 'bottom-of-stack', 'guess-ip', 'guess-unknown', 'guess-empty', 'error-residue',
                    'dirty-buffer', 'no-fixlengths', 'odd-payload', 'roundtrip', 'field-extreme', 'out-of-domain', 'seed', 'malformed'],
    'rule': 'MPLS entries built field by field (label 0/1/16/2^20-1, all classes, both bottom-of-stack values, TTL 0/1/64/255; all 256 values of '
            'the third byte), every truncation 0..5, decoded through the registered decoder on a recording PacketBuilder (class, truncation flag, '
            'fields, next decoder), serialized under all option/buffer combinations and round-tripped; field-built layers with label 2^20, 2^32-1 '
            'and class 8, 255 (overlapping bits); ProtocolGuessingDecoder on every first byte and on empty data; MPLS frames of layers/*_test.go.',
    'shrink_keep_first': 0,
    'assumptions': ['Go slice/copy semantics as modelled (slices checked against len, stricter than cap)',
                    'gopacket.LayerString/LayerDump/LayerGoString total on non-nil layers (reflective); MPLS has no String method or flow accessor',
                    'MPLS has no DecodeFromBytes: decodeMPLS allocates the layer, C05 (reused object) does not apply; what decodeIPv4/decodeIPv6 do after ProtocolGuessingDecoder chose them is outside this model'],
    'trusted_base': ['model: coq/Model/LmplsModel.v is a hand transcription of layers/mpls.go:38-97 (as repaired)'],
    'explanation': 'Theorems over all byte strings / layer values about the Gallina model of the MPLS codec; correspondence ties it to layers/mpls.go.',
}
