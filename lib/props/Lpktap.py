"""Lpktap (Apple PKTAP v1 header decoder sub-check: C19, C05, C01; C06/C07 n/a) configuration for ./check"""
CONF = {
    'interesting': ['truncated-prefix-of-valid', 'header-length-extreme', 'header-longer-than-fields', 'record-type', 'dlt', 'dlt-over-16-bits', 'error-after-fields-set',
                    'residue-after-error', 'decode-error', 'malformed'],
    'rule': 'PKTAP v1 headers (156 octets) with header length 0,1,155..157, one less .. two more than the data over 0,1,10,100 octets behind, 255,256,65535,65536,2^31-1,2^31,2^32-1; record types 0,1,2,256,257,2^24,2^32-1; DLT values inside and outside the link type table and over 16 bits; names of 0..n octets with and without NUL and with octets behind the NUL; every truncation 0..157; decoded into fresh and reused objects; a malformed stream.',
    'shrink_keep_first': 0,
    'assumptions': ['Go slice semantics as modelled (slices checked against len, stricter than cap)',
                    'gopacket.LayerString/LayerDump/LayerGoString total on non-nil layers (reflective); String, Direction and ServiceClass.String exercised on every decoded layer',
                    'PktapV1 has no SerializeTo: C06 and C07 do not apply',
                    'NextLayerType converts the 32-bit DLT to the 16-bit LinkType: modelled as DLT mod 65536 (a DLT of 65537 selects Ethernet); reported as an observation, not repaired'],
    'trusted_base': ['model: coq/Model/LpktapModel.v is a hand transcription of layers/pktap.go:97-156'],
    'explanation': 'Theorems over all byte strings about the Gallina model of the PKTAP v1 header decoder; correspondence ties it to layers/pktap.go.  C19_pktap_orig_refuted: the code before the repair panics.',
}
