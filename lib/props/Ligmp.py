"""Ligmp (IGMP decoder sub-check: C19, C05, C01; C06/C07 n/a) configuration for ./check"""
CONF = {
    'interesting': ['truncated-prefix-of-valid', 'time-code-every-value', 'type-every-value', 'length-extreme', 'other-message-residue', 'group-records',
                    'query-sources', 'float-time-code', 'error-after-fields-set', 'residue-after-error', 'decode-error', 'malformed', 'v1or2',
                    'dispatch-v3', 'dispatch-v12', 'dispatch-none', 'seed'],
    'rule': 'IGMPv3 queries and reports built field by field: every max-response/querier-interval code (exponent form wraps in uint8), every type byte, '
            'number of sources/records 0,1,2,255,256,65535 against the octets present (4 less, 1 less, exact, 1 more, 4 more), every truncation; '
            'ordered pairs into one object (query after query, report after report, query after report and back: list accumulation and fields of the '
            'other message type); IGMPv1/v2 messages; the packet decoder on every dispatching type byte x lengths 0,1,7,8,9,11,12,13,16,24 x max-response '
            '0/1; IGMP packets of layers/*_test.go; a malformed stream.',
    'shrink_keep_first': 1,
    'assumptions': ['Go slice/append semantics as modelled (slices checked against len, stricter than cap)',
                    'gopacket.LayerString/LayerDump/LayerGoString total on non-nil layers (reflective); IGMPType/IGMPv3GroupRecordType String are switches with a default',
                    'IGMP and IGMPv1or2 have no SerializeTo: C06 and C07 do not apply',
                    'the C05 oracle compares a reused object with a fresh object of the same Version (DecodeFromBytes never assigns Version)'],
    'trusted_base': ['model: coq/Model/LigmpModel.v is a hand transcription of layers/igmp.go:172-368 as repaired by the two fix: commits of agent-lmisc2'],
    'explanation': 'Theorems over all byte strings about the Gallina models of the IGMP decoders; correspondence ties them to layers/igmp.go.',
}
