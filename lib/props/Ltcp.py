"""Ltcp (layers/tcp.go sub-check serving C19 C05 C06 C07 C01) configuration for ./check"""
CONF = {
    'coq_sample': 15,   # cases re-evaluated inside Coq by vm_compute against the extracted runner's output
    'interesting': ['truncated-prefix-of-valid', 'option-length-extreme', 'residue-options', 'residue-padding',
                    'pad-residue', 'odd-payload', 'dirty-buffer', 'no-fixlengths', 'error-after-add', 'ge2-options'],
    'rule': 'TCP headers built field by field by the harness with 0..5 options, every truncation length; data offset 0..15 against '
            'lengths around the implied header size; generic option length bytes 0,1,2,3,rem-1,rem,rem+1,41,255; every prefix length of '
            'every well-formed MPTCP option (9 subtypes + unknown, all valid lengths, all 32 DSS flag sets) as the last option bytes, '
            'without payload / with payload / with spare capacity behind; every subtype 0..15 x length byte 0..31,255; DSS flags x length '
            'byte; ordered pairs into a reused object; SerializeTo of decoded layers, error residues and layers built from public fields '
            'into fresh/dirty/pre-sized buffers x FixLengths x ComputeChecksums x IPv4/IPv6/no network layer; round trips; TCP segments '
            'of the repository test packets (go/ast) whole, every truncation, every option byte forced to 0,1,30,255; a malformed stream.',
    'shrink_keep_first': 1,
    'assumptions': ['Go slice semantics as modelled: index checked against len, s[a:b] against cap, s[a:] against len',
                    'TCPPort.LayerType dispatch table is a parameter (dumped from the implementation into the case)',
                    'gopacket.LayerString/LayerDump/LayerGoString are total on non-nil values except through fmt.Stringer methods (read: packet.go:275-464)',
                    'C18: PrependBytes(n) returns n bytes of unspecified content in front of the current contents'],
    'trusted_base': ['model: coq/Model/LtcpModel.v is a hand transcription of layers/tcp.go (DecodeFromBytes incl. all MPTCP subtypes, '
                     'TCPOption.String nil conditions, SerializeTo, flagsAndOffset, NextLayerType, VerifyChecksum), layers/tcpip.go:26-69, checksum.go:34-58'],
    'explanation': 'C19_tcp_no_panic / C05_tcp_fresh / C01_tcp_render_total / C07_tcp_* / C06_tcp_* are proved of decode_into/serialize '
                   '(the repaired tree); the *_orig definitions model the unchanged tree and carry the *_refuted witnesses. '
                   'The correspondence run ties decode_into/serialize/render_panics to the repository under test.',
}
