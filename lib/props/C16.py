"""C16 configuration for ./check"""
CONF = {
    'interesting': ['timeout-retry', 'temp-error-retry', 'terminal-error', 'cancel-mid-send', 'buffer-full', 'zero-copy', 'concat'],
    'rule': 'TODO',
    'shrink_keep_first': 1,
    'assumptions': [],
    'trusted_base': [],
    'explanation': '',
}
