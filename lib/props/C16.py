"""C16 configuration for ./check"""
CONF = {
    'coq_sample': 25,   # cases re-evaluated inside Coq by vm_compute against the extracted runner's output
    'interesting': ['context-ends-not-by-cancel', 'timeout-retry', 'temp-error-retry', 'terminal-error', 'cancel-mid-send', 'buffer-full', 'zero-copy', 'concat', 'option-flip'],
    'rule': ('A case = a data-source history (packets with capture info, 16 kinds of error values: timeout-class, '
             'transient, end-of-input, wrapped ones; plain / zero-copy buffer-reusing / concatenated sources; NoCopy on/off) '
             'plus a harness script (next, start, restart, grant:n, grantall, recv:n, cancel, fin, fcan:n). The scripted '
             'source hands out reads through a gate, the harness waits for the background goroutine to be quiescent '
             '(waiting for a token / blocked on the full 1000-slot channel / gone) before each action. Families: pull '
             'only; channel with immediate consumer; gated reads + slow consumer + second PacketsCtx call; cancel before '
             'start / mid-history / with the producer blocked in the send on a full channel (>1000 tiny packets); '
             'free-running cancel races (projected observation, oracle only for order/close/leak); exhaustive small scope: every history over 6 letters (2 packets, timeout, transient, UnexpectedEOF, wrapped EOF) up to depth 2 (quick) / 4 (thorough) x 3 source kinds x 4 scripts. Compared per op: '
             'NextPacket result (bytes, capture info, truncated / error identity), start outcome (ok|panic), number of '
             'source reads completed, channel length, received packets, closed flag, goroutine count back to baseline, '
             'and the bytes of every delivered packet re-read at the end. A packet whose read returned after the cancel '
             'may or may not be delivered (Go select is random): it is projected away from the comparison and bounded '
             'by the oracle (<=1) and by theorem C16_cancel.'),
    'shrink_keep_first': 1,
    'assumptions': ['PARTIAL: real time is not modelled (the 5 ms sleeps after timeout/temporary errors are a plain loop-back to the ctx check)',
                    'PARTIAL: the Go scheduler and memory model are not modelled: goroutines are interleaved at the granularity ctx check / NextPacket / select / receive; data races are out of scope',
                    'buffered channel (FIFO, close delivers buffered items first), select (any ready case) and context cancellation as modelled',
                    'decoding is abstract: a decoder is any function saying whether it marks the bytes truncated; the Lazy and Pool decode options are exercised by the harness (decode forced at delivery) but not modelled: the model claims the observables do not depend on them',
                    'the scripted data sources of the harness are the environment: a plain source returns a fresh array per read, the zero-copy source reuses one buffer (array 0)'],
    'trusted_base': ['model: coq/Model/C16Model.v is a hand transcription of packet.go:786-809,918-958,963-994,1024-1035 (repaired tree)',
                     'the error-feature table `feat` (errors.As net.Error/Timeout, errors.Is sentinels, "use of closed file") for the 16 scripted error values, validated by the correspondence'],
    'false_alarms': ['first run: oracle clause C16:cancel counted reads entered between the harness deciding to cancel and cancel() returning (free-running fcan cases); machinery corrected (flag set after cancel() returns), not a defect'],
    'explanation': ('C16_pull, C16_chan (+progress), C16_cancel, C16_immutable(_chan, _flips), C16_guard(_every_call, _second_call) are proved for all histories, all event '
                    'lists (interleavings, consumer speeds, select choices, cancellation points) by invariants over the transition '
                    'system; C16_guard_refuted keeps the witness for the constructor as it was (zeroCopy never set, fixed in the '
                    'repository worktree). The correspondence ties the model to packet.go through scripted sources/consumers.'),
}
