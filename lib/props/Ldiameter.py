"""Ldiameter (Diameter codec sub-check: C19, C05, C06, C07, C01) configuration for ./check"""
CONF = {
    'interesting': ['last-avp-residue', 'grouped-last-residue', 'avp-length-extreme', 'message-length-extreme', 'version-not-1',
                    'truncated-prefix-of-valid', 'deep-nesting', 'large-avp', 'field-extreme', 'grouped-avp', 'nested-grouped-avp', 'padded-avp', 'vendor-avp',
                    'avp-error-truncated', 'error-after-fields-set', 'residue-after-error', 'dirty-buffer', 'no-fixlengths', 'odd-payload',
                    'roundtrip', 'serialize-error', 'out-of-domain', 'decode-error', 'malformed', 'seed'],
    'rule': 'Messages built field by field with the header message length consistent with the bytes: the last AVP of the message and the last '
            'member of a grouped AVP with data of 0..8 octets (every length residue mod 4), with and without its padding, plain and vendor headers, '
            'alone and after another AVP, the group itself padded/unpadded/followed by another AVP; AVP length field 0,1,7,8,9,11,12,13,...,2^24-1 at top '
            'level and inside a group; message length field below 20, short, long, beyond the data; versions 0,2,255; every truncation with the header '
            'length kept and adjusted; random nested groups (depth 0..3), trailing bytes; 40-deep nesting (decoded and round-tripped); AVPs of 247, 248, 300 data octets (second length octet; 66000 octets, third length octet, in the thorough tier); decoded into fresh and reused objects; '
            'serialized under all option/buffer combinations and round-tripped; field-built layers (inconsistent AVP Length, VendorID without V flag, '
            'command code 2^24, 2^32-1); Diameter messages of layers/*_test.go; a malformed stream.  Each case carries the keys of its AVPs that the '
            'repository\'s type table maps to Grouped (op G:), collected by an independent scan of the bytes.',
    'shrink_keep_first': 1,
    'assumptions': ['Go slice/copy/append/make semantics as modelled (slices checked against len, stricter than cap)',
                    'the AVP type table (GetDiameterAVPType) is abstract: the model is parametric in "is (code, vendor) Grouped"; the runner is told the Grouped keys of each case',
                    'gopacket.LayerString/LayerDump/LayerGoString total on non-nil layers (reflective); DiameterAVP.String and getters exercised on every decoded AVP',
                    'Go stack depth for nested grouped AVPs is not modelled (one frame per nesting level, 8 octets of input per level)'],
    'trusted_base': ['model: coq/Model/LdiameterModel.v is a hand transcription of layers/diameter.go:102-243 and layers/diameter_avp_decoders.go:10-160'],
    'explanation': 'Theorems over all byte strings / layer values and all type tables about the Gallina model of the Diameter codec; correspondence ties it to the two source files.',
}
