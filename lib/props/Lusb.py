"""Lusb (usbmon header / USB setup block decoder sub-check: C19, C05, C01; C06/C07 n/a) configuration for ./check"""
CONF = {
    'interesting': ['truncated-prefix-of-valid', 'flag-octets', 'octet-every-value', 'setup-flag', 'data-flag', 'error-after-fields-set', 'residue-after-error',
                    'decode-error', 'malformed', 'setup-block'],
    'rule': 'usbmon headers: setup/data flag octets 0, 1, 0x2d/0x3c, 0xff in all combinations with URB data length 0,1,8,9,2^31,2^32-1 against 8 octets '
            'present, each decoded into a fresh object and after a packet that set both flags / the data flag; every transfer type and endpoint octet; '
            'all-zero/all-ones timestamps and status (signed fields); every truncation 0..41; USB setup request blocks (random, every truncation); a malformed stream.',
    'shrink_keep_first': 1,
    'assumptions': ['Go slice semantics as modelled (slices checked against len, stricter than cap)',
                    'gopacket.LayerString/LayerDump/LayerGoString total on non-nil layers (reflective); enum String methods are table/switch lookups',
                    'USB and USBRequestBlockSetup have no SerializeTo: C06 and C07 do not apply; USBControl/USBInterrupt/USBBulk (Contents = data) are the sub-check Lusbsub',
                    'USBTransportType.LayerType table abstract (next = the type octet unless Setup)'],
    'trusted_base': ['model: coq/Model/LusbModel.v is a hand transcription of layers/usb.go:131-233 as repaired'],
    'explanation': 'Theorems over all byte strings about the Gallina models of the usbmon header and USB setup block decoders; correspondence ties them to layers/usb.go.',
}
