"""Llcm (LCM header decoder sub-check: C19, C05, C01; C06/C07 n/a) configuration for ./check"""
CONF = {
    'interesting': ['truncated-prefix-of-valid', 'magic', 'fingerprint-boundary', 'no-fingerprint', 'later-fragment', 'name-at-end', 'name-not-terminated',
                    'error-after-fields-set', 'residue-after-error', 'decode-error', 'malformed'],
    'rule': 'LCM short and fragmented headers (first and later fragments) with channel names of 0,1,5,20,63,300 octets, terminated or ending with the data; 0..9 octets behind the name (fingerprint present from 8); a registered and unregistered fingerprints; magic numbers one off; every truncation; each decoded into a fresh object and into objects that held a packet of each kind; a malformed stream.',
    'shrink_keep_first': 0,
    'assumptions': ['Go slice semantics as modelled (slices checked against len, stricter than cap)',
                    'gopacket.LayerString/LayerDump/LayerGoString total on non-nil layers (reflective); Payload and CanDecode exercised on every decoded layer',
                    'LCM has no SerializeTo: C06 and C07 do not apply',
                    'the harness registers one LCM layer type (fingerprint 0102030405060708) so that NextLayerType depends on the fingerprint; other fingerprints map to payload'],
    'trusted_base': ['model: coq/Model/LlcmModel.v is a hand transcription of layers/lcm.go:128-204'],
    'explanation': 'Theorems over all byte strings about the Gallina model of the LCM header decoder; correspondence ties it to layers/lcm.go.  C05_lcm_orig_refuted: the code before the repair kept the channel name, fragment numbers and fingerprint of the previous packet.',
}
