"""Lradiotap (RadioTap codec sub-check: C19, C05, C06, C07, C01) configuration for ./check"""
import os, sys
sys.path.insert(0, os.path.dirname(os.path.dirname(os.path.abspath(__file__))))
from go2v_hook import go2v_hook2
CONF = {
    'pre': [go2v_hook2],   # `align` regenerated from radiotap.go and proved equal to the model's rt_align
    'interesting': ['truncated-prefix-of-valid', 'consistent-length-cut', 'length-forced', 'single-present-bit', 'present-combination', 'all-fields',
                    'namespace-chain', 'vendor-skip-extreme', 'present-chain-runs-out', 'present-extended', 'vendor-namespace',
                    'second-radiotap-namespace', 'beyond-64k', 'fcs-appended', 'datapad', 'length-below-header', 'error-after-add',
                    'error-after-fields-set', 'residue-after-error', 'error-residue', 'dirty-buffer', 'no-fixlengths', 'odd-payload', 'roundtrip',
                    'field-extreme', 'serialize-error', 'out-of-domain', 'malformed', 'seed'],
    'rule': 'RadioTap headers laid out by the harness from a chain of Present words (radiotap / vendor namespaces chosen by bits 29-31, every '
            'field aligned as the decoder aligns it): every single Present bit alone (also in a second radiotap namespace and behind a vendor '
            'namespace of odd length), all 32 combinations of random 5-subsets of the field bits, all fields at once, a four-namespace chain; for each '
            'the header length set to every value from 8 to the needed size +1 with (a) the data cut there, (b) the data cut there and followed by a '
            'frame, (c) the whole header under the short length (consistent-length cuts); vendor SkipLength 0,1,2,255,256,65535 against one octet '
            'less/exact/one more present; chains of 2..100 extending Present words with and without room for the next word; data beyond 64K with '
            'vendor namespaces skipping to offsets 65524..65534 (witness of the repaired 16-bit wrap panic); random valid headers with Length forced '
            'to 0,7,8,len-1,len+1,65535 and an extension bit on the last word; every truncation; frames that look like (QoS/4-address) data frames '
            'with the Datapad and FCS flags both ways; decoded into fresh and reused objects (first packet: three namespaces, Datapad, no FCS); '
            'serialized under all option/buffer combinations (also from error residues) and round-tripped; field-built layers with missing/extra '
            'namespace values, OUI of 0,2,4 octets, SkipLength different from len(Contents), no Present word; test-file literals; a malformed stream.',
    'shrink_keep_first': 0,
    'assumptions': ['Go slice/copy/append semantics as modelled (slices checked against len, stricter than cap)',
                    'gopacket.LayerString/LayerDump/LayerGoString total on non-nil layers (reflective); RadioTap has no String method, the String methods of its field types index nothing',
                    'hash/crc32 IEEE as the bitwise algorithm of the model', 'a RadioTapNamespace value is represented by the little-endian octets of its fields (bijection done by the harness)'],
    'trusted_base': ['model: coq/Model/LradiotapModel.v is a hand transcription of layers/radiotap.go (align, DecodeFromBytes, decodeRadioTapNamespace, decodeVendorNamespace, SerializeTo, serializeTo x2) as repaired by the fix: commits of agent-fixer and agent-ldot11'],
    'explanation': 'Theorems over all byte strings / layer values about the Gallina model of the RadioTap codec: decoder (no panic, fuel bound of the Present chain, fresh = reused) and serializer (no panic, junk freedom); the round trip is stated in full (C06_radiotap_roundtrip_statement) and tested; proved parts for headers of radiotap namespaces only: the serializer writes exactly the layout rt_hdr (C06_radiotap_serialize_layout_partial) and the field walk of the decoder reads the values of a namespace back from that layout (C06_radiotap_fields_readback_partial); Present-chain and namespace-chain read-back lemmas and the decoder-given-its-reads lemma are proved in Proofs/LradiotapRt.v / LradiotapRt2a.v, their assembly into the end-to-end theorem is an unfinished draft (Proofs/LradiotapRt2.draft.txt, outside the build); correspondence ties the model to layers/radiotap.go. C08-style checksums: none (ComputeChecksums is ignored by RadioTap).',
    'mutations_tried': ['drop the RadioTapValues reset (caught)', 'Channel fits(4)->fits(2) (caught)', 'serializer drops RxFlags alignment (caught)', 'vendor skip check > -> >= (caught)', 'AMPDU alignment 4->8 in the decoder (caught)', 'serializer scratch size omits SkipLength (caught)'],
}
