"""Lvxlan (VXLAN codec sub-check: C19, C05, C06, C07, C01) configuration for ./check"""
CONF = {
    'interesting': ['truncated-prefix-of-valid', 'flags-every-value', 'reserved-bits-set', 'gbp', 'residue-after-error', 'error-residue',
                    'dirty-buffer', 'no-fixlengths', 'odd-payload', 'roundtrip', 'field-extreme', 'serialize-error', 'out-of-domain', 'malformed'],
    'rule': 'VXLAN headers built field by field (flag bytes over all 256 values, reserved bits set, VNI 0/1/2^24-1, policy id 0/1/65535), every '
            'truncation 0..9, decoded into fresh and reused objects (first packet all-ones), serialized under all option/buffer combinations and '
            'round-tripped; field-built layers with VNI 2^24-1, 2^24, 2^24+1, 2^32-1 (serialize error after partial writes); VXLAN UDP payloads of '
            'layers/*_test.go; a malformed stream.',
    'shrink_keep_first': 0,
    'assumptions': ['Go slice/copy semantics as modelled (slices checked against len, stricter than cap)',
                    'gopacket.LayerString/LayerDump/LayerGoString total on non-nil layers (reflective); VXLAN has no String method or flow accessor'],
    'trusted_base': ['model: coq/Model/LvxlanModel.v is a hand transcription of layers/vxlan.go:48-123'],
    'explanation': 'Theorems over all byte strings / layer values about the Gallina model of the VXLAN codec; correspondence ties it to layers/vxlan.go.',
}
