"""Lague (Generic UDP Encapsulation variant 0 header codec sub-check: C19, C05, C06, C07, C01) configuration for ./check"""
CONF = {
    'coq_sample': 10,   # cases re-evaluated inside Coq by vm_compute against the extracted runner's output
    'interesting': ['truncated-prefix-of-valid', 'first-octet-every-value', 'extensions', 'control-flag', 'error-after-fields-set', 'error-residue',
                    'field-extreme', 'out-of-domain', 'roundtrip', 'dirty-buffer', 'no-fixlengths', 'odd-payload', 'residue-after-error', 'decode-error',
                    'malformed', 'seed'],
    'rule': 'AGUE variant 0 headers built field by field: every first octet (version, C flag, 5-bit extension length) with exactly, one fewer and one '
            'more extension octets than it announces; extension lengths 0,1,4,8,31; every truncation 0..header+1; decoded into fresh and reused objects '
            '(first packet with C flag and 8 extension octets; failing second decodes); serialized under all option/buffer combinations and '
            'round-tripped; field-built layers (version 4/255, 32, 33, 64, 255, 256, 300 extension octets: outside the C06 domain); AGUE packets '
            'of layers/*_test.go (UDP port 666); a malformed stream.',
    'shrink_keep_first': 0,
    'assumptions': ['Go slice/copy/append semantics as modelled (slices checked against len, stricter than cap)',
                    'gopacket.LayerString/LayerDump/LayerGoString total on non-nil layers (reflective); AGUEVar0 has no String method or flow accessor',
                    'IPProtocol.LayerType() is a table lookup (abstract: the next-layer id is the protocol number)'],
    'trusted_base': ['model: coq/Model/LagueModel.v is a hand transcription of layers/ague_var0.go:38-98 as repaired'],
    'explanation': 'Theorems over all byte strings / layer values about the Gallina model of the AGUEVar0 codec; correspondence ties it to layers/ague_var0.go.',
}
