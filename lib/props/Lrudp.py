"""Lrudp (Reliable UDP header decoder sub-check: C19, C01; C05/C06/C07 n/a) configuration for ./check"""
CONF = {
    'interesting': ['truncated-prefix-of-valid', 'flags-every-value', 'length-extreme', 'syn-header', 'eack-header', 'trailing-bytes-dropped', 'decode-error', 'malformed'],
    'rule': 'RUDP headers: every flags octet with a 6- and a 4-octet variable header area; SYN headers, EACK lists of 0,1,2,5 numbers, plain headers; header length 0,8..13,127,128,255 words against one octet less/exact/more; data length beyond the octets present; every truncation 0..27; decoded through the registered decoder on a recording PacketBuilder (class, truncation flag, fields, SYN/EACK sub-headers, next decoder, TransportFlow); a malformed stream.',
    'shrink_keep_first': 0,
    'assumptions': ['Go slice semantics as modelled (slices checked against len, stricter than cap)',
                    'gopacket.LayerString/LayerDump/LayerGoString total on non-nil layers and nil embedded pointers (reflective)', 'RUDP has neither DecodeFromBytes nor SerializeTo: C05, C06 and C07 do not apply'],
    'trusted_base': ['model: coq/Model/LrudpModel.v is a hand transcription of layers/rudp.go:44-107'],
    'explanation': 'Theorems over all byte strings about the Gallina model of the Reliable UDP header decoder; correspondence ties it to layers/rudp.go.',
}
