"""Lague1 (AGUE variant 1 pseudo-header + decodeAGUE dispatcher sub-check: C19, C05, C06, C07, C01) configuration for ./check"""
CONF = {
    'coq_sample': 10,   # cases re-evaluated inside Coq by vm_compute against the extracted runner's output
    'interesting': ['truncated-prefix-of-valid', 'first-octet-every-value', 'registered-decoder', 'variant-0', 'variant-1', 'variant-2', 'empty',
                    'field-extreme', 'out-of-domain', 'roundtrip', 'dirty-buffer', 'no-fixlengths', 'odd-payload', 'error-residue', 'residue-after-error',
                    'decode-error', 'malformed', 'seed'],
    'rule': 'Every first octet 0..255 (IP version nibble 4, 6 and the others; the variant bits 01 that select AGUEVar1 in the dispatcher) with 0..40 '
            'following octets: DecodeFromBytes into fresh and reused objects, the registered decoder decodeAGUE under both AGUE layer types on a '
            'recording PacketBuilder, round trips over payloads with the same first octet; empty input; field-built layers (protocol 4, 41, 0, 6, 17, '
            '255) over matching and mismatching payloads; every truncation of a variant-0 header through the dispatcher; AGUE packets of '
            'layers/*_test.go (UDP port 666); a malformed stream.',
    'shrink_keep_first': 0,
    'assumptions': ['Go slice semantics as modelled (slices checked against len, stricter than cap)',
                    'gopacket.LayerString/LayerDump/LayerGoString total on non-nil layers (reflective)',
                    'IPProtocol.LayerType() is a table lookup (abstract: the next-layer id is the protocol number)'],
    'trusted_base': ['model: coq/Model/Lague1Model.v is a hand transcription of layers/ague_var1.go:32-87 and layers/ague_var0.go:103-116 (with LagueModel.v for AGUEVar0)'],
    'explanation': 'Theorems over all byte strings / layer values about the Gallina model of AGUEVar1 and the AGUE dispatcher; correspondence ties it to layers/ague_var1.go and ague_var0.go.',
}
