"""Lgtp2 (GTPv2-C header decoder sub-check: C19, C05, C01; C06/C07 n/a) configuration for ./check"""
CONF = {
    'coq_sample': 10,   # cases re-evaluated inside Coq by vm_compute against the extracted runner's output
    'interesting': ['truncated-prefix-of-valid', 'registered-decoder', 'seed', 'flags-every-value', 'ie-length-extreme', 'ie-header-cut', 'length-extreme', 'consistent-length-cut',
                    'information-elements', 'teid-present', 'piggyback-flag', 'bytes-beyond-message-length', 'residue-teid', 'residue-ies',
                    'residue-after-error-ies', 'error-after-fields-set', 'error-after-add', 'residue-after-error', 'decode-error', 'large', 'malformed'],
    'rule': 'GTPv2-C messages built field by field: every first octet (version, P, T, priority bits) with one IE; 0..5 IEs of 0,1,4,8,9,40 content octets; '
            'IE length field 0,1,right,off by one,+4,255,256,65535 behind 0..2 IEs; 1..5 octets after the last IE (cut IE header); message length 0,1,short/long by '
            '1,2,4,8,1000 and 65535; packets cut at every octet with the message length rewritten to fit; every truncation 0..31; decoded into fresh and reused '
            'objects (first packet with the T flag and IEs, or failing after two IEs were appended); GTPv2 packets of layers/*_test.go (UDP port 2123); '
            'a 2.4 kB packet (thorough: packets of 65535 and 65540 octets made of a few large IEs); a malformed stream.',
    'shrink_keep_first': 0,
    'assumptions': ['Go slice/append semantics as modelled (slices checked against len, stricter than cap)',
                    'gopacket.LayerString/LayerDump/LayerGoString total on non-nil layers (reflective); GTPv2 has no String method or flow accessor',
                    'GTPv2 has no SerializeTo: C06 and C07 do not apply'],
    'trusted_base': ['model: coq/Model/Lgtp2Model.v is a hand transcription of layers/gtp2.go:37-104 as repaired'],
    'explanation': 'Theorems over all byte strings about the Gallina model of the GTPv2-C header decoder; correspondence ties it to layers/gtp2.go.',
}
