"""C18 configuration for ./check"""
CONF = {
    'interesting': ['pre-growth', 'app-growth', 'clear-then-reuse', 'write-through-old-window', 'stack', 'other-buffer'],
    'rule': 'Op sequences over new/prepend/append/clear/push/write-through-window/SerializeLayers (real gopacket.SerializeLayers over harness-defined layers that prepend a header; stacks of 0..3 layers incl. the empty stack): exhaustive over 10 small ops to depth 4 (5 thorough) for 3 hint pairs, plus seeded random sequences (depth<=40 quick, <=200 thorough) over sizes {0,1,2,3,7,8,64,1500,70000} and hints {0,1,8,4096}; after every op Bytes(), returned window length, Layers() and panic flag are compared with the model, and the tape oracle checks written cells on the implementation.',
    'shrink_keep_first': 1,
    'coq_sample': 40,   # cases re-evaluated inside Coq by vm_compute against the extracted runner's output
    'assumptions': ['Go slice/append/copy/make semantics as modelled (make zeroes new arrays)',
                    'Go int modelled as unbounded nat (sizes < 2^62)'],
    'trusted_base': ['model: coq/Model/C18Model.v is a hand transcription of writer.go:110-218 (serializeBuffer, SerializeLayers)'],
    'explanation': 'C18_refines proves, for every op sequence and size hints, that the modelled buffer refines the two-ended tape; the correspondence run ties the model to writer.go.',
}
