"""C20 configuration for ./check"""
CONF = {
    'coq_sample': 30,   # cases re-evaluated inside Coq by vm_compute against the extracted runner's output
    'interesting': ['partial-read', 'empty-slice', 'skip-batch', 'close-mid-batch', 'close-before-first', 'loss-errors'],
    'rule': 'Delivery histories (0-5 batches of 0-4 Reassembly{Bytes,Skip}, empty slices, empty batches, skips -1/1/7/100000, '
            'slice lengths 0..17 and 64/255/1500) x consumer programs (Read sizes 0..4096, read-until-EOF loops, Close before the '
            'first read / mid-batch / between batches / after EOF / twice / never, reads after Close) x LossErrors: an exhaustive '
            'small scope (6-letter batch alphabet x 20 programs x LossErrors) plus seeded random cases. Real goroutines play the '
            'assembler (Reassembled/ReassemblyComplete called directly) and the consumer; every Read result (bytes, error class), '
            'every Close, and whether both sides returned (watchdog) are compared with the extracted model; the Go oracle states '
            'the property on the implementation. A seventh of the cases is also run by the model under 4 other schedules. Every case is executed twice on the real code: free-running, and a second time on ONE P (GOMAXPROCS(1)) with the consumer held back until the assembler is parked in its first send, so that Read receives from a parked sender and the following calls (reads from the same batch, Close) run before the assembler reaches <-r.done — the interleaving (model pc ASent) in which a non-blocking acknowledgement is lost; the oracle is applied to both executions and two completed executions must agree (clause C20:schedule).',
    'shrink_keep_first': 0,
    'assumptions': [
        'Go unbuffered/nil/closed channel semantics as modelled (rendezvous; receive from a closed channel returns at once; '
        'send on / close of a closed or nil channel panics; operations on a nil channel block)',
        'the Go scheduler runs runnable goroutines: the model proves "no step is enabled, for ever" / "always terminates"; on the implementation '
        '"stuck" is a two-stage verdict that does not depend on machine load: a fast no-progress watchdog (200 ms) in the worker pool only selects '
        'suspects; each suspect is then run again alone (pool drained, free-running or on one P as in its phase) until both goroutines return or one '
        'stop-the-world runtime.Stack dump shows every goroutine of the case parked in a channel operation or exited, at least one parked - only these '
        'two goroutines can reach the channels, so that is a deadlock; a starved goroutine shows as runnable and the run keeps waiting (cap 120 s); '
        'if no dump can be interpreted the fallback is 5 s without progress scaled up to 50 s by a ping-pong calibration (label: partial - the Go '
        'runtime\'s goroutine states are trusted)',
        'one consumer goroutine (Read/Close are not called concurrently with each other), one assembler goroutine, the history ends '
        'with ReassemblyComplete; stream made by NewReaderStream (the zero-value stream is modelled and compared but outside the theorems)',
        'Read advancing Reassembly.Bytes in place inside the assembler-owned slice is not modelled (values are immutable lists)',
    ],
    'trusted_base': ['model: coq/Model/C20Model.v is a hand transcription of tcpassembly/tcpreader/reader.go:107-212 (repaired tree; '
                     'the original Close and stripEmpty are kept as configurations close_orig / strip_orig)'],
    'explanation': 'C20_progress / C20_terminates / C20_completes: for every history, every consumer program that closes or reads to EOF and '
                   'every interleaving no reachable state is stuck, no panic, every run is finite and ends with both sides done; '
                   'C20_bytes: the events returned by Read (bytes, and a loss per Skip != 0 with LossErrors) followed by what is still '
                   'pending are exactly the delivered ones, EOF only at the end and then for ever; C20_schedule_independent: the final '
                   'state does not depend on the schedule (diamond property). PARTIAL for the deadlock part of the tie: the model proves '
                   'stuck-for-ever / always-terminates, the harness reports stuck only on a runtime-certified deadlock (both goroutines parked in channel operations in one goroutine dump), found by a second-stage run alone; a one-off -race build of the harness over the quick cases reported no data race. C20_assembler_waits_only_for_reader: the assembler is blocked only while the consumer holds the batch. '
                   'C20_progress_refuted / C20_loss_refuted document the two defects of the unrepaired code; C20_nonblocking_ack_refuted shows (schedule witness) that the acknowledgement in Close has to be a blocking send: the model separates "send completed" (ASent) from "parked in <-r.done" (AWait).',
}
