"""C05parser (sub-check of C05) configuration for ./check"""
CONF = {
    'coq_sample': 15,   # cases re-evaluated inside Coq by vm_compute against the extracted runner's output
    'interesting': ['stop-at-unsupported', 'stop-at-error', 'container-map', 'container-sparse', 'container-array',
                    'container-custom', 'truncated', 'ignore-unsupported', 'reused-objects'],
    'rule': 'Two case families. (1) scripted: a family of synthetic decoding layers (table per object: CanDecode types, '
            'fixed or header-driven contents length / next type / ok-err-panic / SetTruncated / sticky field) is registered in the '
            'real containers (map, sparse, array, custom, default constructor) and driven by the real DecodeLayers for 1-3 packets '
            'into the same objects; decoded types, error class, Truncated and every object state are compared with the extracted '
            'model after each packet; a Go reference loop states C05_prefix on the implementation and all containers are compared. '
            '(2) real layers Ethernet/Dot1Q/IPv4/IPv6/TCP/UDP/Payload/DNS, subsets of the 8 (all 256 for a sample of inputs), all four '
            'containers, inputs = packet literals of layers/*_test.go (go/ast), hand-built stacks, every truncation length, mutations, '
            '2-3 packet sequences into reused objects; oracle = leading run of NewPacket(DecodeStreamsAsDatagrams) layers. '
            'Real-layer cases have no model output (the model is parametric in the layers).',
    'shrink_keep_first': 1,
    'model_optional': True,
    'assumptions': ['decoding layers are parameters: DecodeFromBytes/NextLayerType/LayerPayload of a layer are arbitrary functions of (old state, data)',
                    'Go map modelled as a total function; Go int unbounded; LayerType int64',
                    'progress: a successful decode leaves a strictly shorter payload (needed for termination of the Go loop itself)'],
    'trusted_base': ['model: coq/Model/C05ParserModel.v is a hand transcription of layers_decoder.go:11-101, parser.go:69-169,187-236,302-330, layers/base.go:39-50',
                     'synthetic layer c05Syn (harness) and syn_dec (model) implement the same table'],
    'explanation': 'C05_prefix proves for every family of decoding layers, subset, container lookup and input that DecodeLayers returns spec_parse '
                   '(the leading run of the packet-decoding chain); the correspondence run ties loop/containers/DecodeLayers to the Go code and the '
                   'real-layer oracle checks the like-with-like hypothesis (decode funcs wrap the same DecodeFromBytes, dispatch = NextLayerType).',
}
