"""Lsll2 (Linux cooked capture v2 header decoder sub-check: C19, C05, C01; C06/C07 n/a) configuration for ./check"""
CONF = {
    'interesting': ['truncated-prefix-of-valid', 'address-length-extreme', 'address-beyond-field', 'address-over-endpoint-size', 'error-after-fields-set',
                    'residue-after-error', 'decode-error', 'malformed', 'next-layer-table'],
    'rule': 'SLL2 headers with address length 0,1,6,8,9,16,17,128,255 and one less / exact / one more than the octets behind offset 12, over 0,1,10,40 octets behind the header; every listed ARP hardware type x protocol value of NextLayerType; every truncation 0..21; decoded into fresh and reused objects; LinkFlow compared with the address; a malformed stream.',
    'shrink_keep_first': 0,
    'assumptions': ['Go slice semantics as modelled (slices checked against len, stricter than cap)',
                    'gopacket.LayerString/LayerDump/LayerGoString total on non-nil layers (reflective); LinkFlow exercised on every decoded layer and compared with the address (truncated to 16 octets)',
                    'LinuxSLL2 has no SerializeTo: C06 and C07 do not apply', 'consistent with the LinuxSLL/LinuxSLL2 flow model of check C17 (repaired address-length check)'],
    'trusted_base': ['model: coq/Model/Lsll2Model.v is a hand transcription of layers/linux_sll2.go:107-176'],
    'explanation': 'Theorems over all byte strings about the Gallina model of the Linux cooked capture v2 header decoder; correspondence ties it to layers/linux_sll2.go.',
}
