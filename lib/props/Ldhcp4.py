"""Ldhcp4 (DHCPv4 codec sub-check: C19, C05, C06, C07, C01) configuration for ./check"""
CONF = {
    'interesting': ['truncated-prefix-of-valid', 'hwlen-extreme', 'option-length-extreme', 'options-area-boundary', 'bad-magic', 'render-option', 'options',
                    'no-options-area', 'pad-option', 'error-after-add', 'error-after-fields-set', 'residue-after-error', 'error-residue', 'dirty-buffer',
                    'no-fixlengths', 'roundtrip', 'field-extreme', 'serialize-error', 'out-of-domain', 'decode-error', 'malformed'],
    'rule': 'BOOTP/DHCPv4 messages built field by field: hardware length 0,1,6,15,16,17,128,255; options lists of 0..5 options incl. Pad, with/without '
            'End, bytes behind End; last option with length octet 0,1,exact,one more,255 over 0,1,4,255 data octets; options area of 0 octets (240-octet '
            'message), a lone type octet, only End, only Pads; bad magic cookie; message-type/address/uint32/parameter-list options with wrong data '
            'lengths (renderers); every truncation (sparse above 40); decoded into fresh and reused objects; serialized with/without FixLengths under all '
            'buffer kinds and round-tripped; field-built layers (nil/4/16-octet/IPv4-mapped addresses, hardware address 0..20 octets, short/long '
            'sname/file, options whose Length disagrees with Data, 256 data octets, End/Pad with data); DHCP packets of layers/*_test.go; a malformed stream.',
    'shrink_keep_first': 0,
    'assumptions': ['Go slice/copy/append semantics as modelled (slices checked against len, stricter than cap)', 'net.IP.To4 as modelled (ip_to4)',
                    'gopacket.LayerString/LayerDump/LayerGoString total on non-nil layers (reflective); DHCPOptions/DHCPOption/DHCPOp/DHCPMsgType/DHCPOpt String exercised on every decoded layer',
                    'C06 is about a DHCPv4 layer with nothing under it (octets behind the End option are ignored by the decoder)'],
    'trusted_base': ['model: coq/Model/Ldhcp4Model.v is a hand transcription of layers/dhcpv4.go:126-277, :569-602 as repaired'],
    'explanation': 'Theorems over all byte strings / layer values about the Gallina model of the DHCPv4 codec; correspondence ties it to layers/dhcpv4.go.',
}
