"""C13 configuration for ./check"""
CONF = {
    'coq_sample': 20,   # cases re-evaluated inside Coq by vm_compute against the extracted runner's output
    'interesting': ['options-header', 'duplicate', 'out-of-order-final-first', 'overlap', 'hole',
                    'other-key-interleaved', 'too-many'],
    'rule': 'Histories of DefragIPv4WithTimestamp / DiscardOlderThan calls (and DefragIPv6) on real layers.IPv4 values: '
            'all arrival orders of 3-5 fragments with one duplicate at every position (6 thorough); seeded valid datagrams '
            '(payload 1..65515 random bytes, IHL 5..15 with random options, random 8-aligned partitions, permuted, '
            'duplicated, 1-4 keys interleaved, pass-through packets, discards); hostile sets (every Allen relation of two '
            'fragments with equal and conflicting data, sets whose byte counters agree across a hole, undersized non-final '
            'fragments, offsets near 8183, Length values that wrap uint16 or are smaller than the header, payloads shorter '
            'or longer than Length, mixed header lengths, more than 8192 fragments). After every call the result class '
            'none|err|panic|pass|datagram(Length, Flags, FragOffset, IHL, Id, TTL, Protocol, TOS, addresses, options, payload) '
            'is compared with the model; the oracle checks completeness on exact partitions and no-invented-byte on every datagram.',
    'shrink_keep_first': 0,
    'assumptions': ['layers.IPv4 values are not mutated by the caller while the defragmenter holds them (it stores the pointers)',
                    'single goroutine (the mutex is not modelled)',
                    'net.IP addresses of one family and length (the key is the byte string of the addresses)',
                    'IPv6: DiscardOlderThan is exercised only with cut-offs at the epoch and in the far future (entries are stamped with time.Now)'],
    'trusted_base': ['model: coq/Model/C13Model.v is a hand transcription of ip4defrag/defrag.go:84-348 and ip6defrag/defrag.go:82-194 (repaired tree); '
                     'origv keeps the arithmetic of the unchanged tree for the refutation witnesses'],
    'explanation': 'Props/C13.v proves completeness (every partition, arrival order, duplication, interleaving) and safety (no byte that no '
                   'fragment placed) of the modelled IPv4 defragmenter, discard and frame lemmas, IPv6 completeness, and refutes each '
                   'property for the original arithmetic; the correspondence run ties the model to the code.',
}
