"""C12 configuration for ./check"""
CONF = {
    'interesting': ['lookup-race-lost', 'both-directions-race', 'close-between-lookup-and-lock', 'recycle', 'flush-stale', 'retry', 'trailing-remove'],
    'rule': 'Cases = thread programs (2-3 assemblers, at most 7 calls each: packets of 1-3 flows x 2 directions built from '
            'SYN / 2-byte data segments / FIN at fixed offsets, dealt to the assemblers one-direction-per-assembler, at random, or with '
            'the last packet elsewhere; re-opened and extra flows so that closed objects are recycled; sometimes a FlushAll) x a '
            'schedule (list of thread ids, bursts of random length), for tcpassembly and reassembly alternately. The harness runs '
            'the REAL code under a controller that lets exactly one goroutine run between the verif yield points (call start, '
            'pool.miss, conn.lock, pool.remove, conn.retry) and tracks lock ownership, so the execution is deterministic given the '
            'schedule; after the schedule the lowest enabled thread runs, then an extra assembler calls FlushAll. Compared with the '
            'extracted model under the same schedule: every factory.New / Reassembled(SG) / ReassemblyComplete / panic with thread, '
            'stream number and the connection object whose lock is held, and the final pool (map entries, recycled free list). '
            'Calls are packets, FlushAll, or the age-based flush (tcpassembly FlushOlderThan / reassembly FlushCloseOlderThan, packets carry capture timestamps). Directed schedules for two narrow windows: close-between-snapshot-and-lock (a flusher takes its pool snapshot at every point of the closing assembler progress, the connection is closed by an in-order FIN or an End page while out-of-order pages are queued, then the flusher locks it) and lose-the-lookup-race-twice (every placement of the first three steps of a one-packet assembler among the steps of an assembler that opens and closes the same flow twice; also with a third assembler making the successor). Quick: corpus witnesses + ~1700 directed + 300 random cases. Thorough: 3000 random cases + ALL schedules (depth-first, stateless, at most '
            '6000 schedules per workload and package) of 4 two-assembler workloads + a free-running -race build (support run).',
    'shrink_keep_first': 1,
    'coq_sample': 11,   # the corpus witnesses, re-evaluated inside Coq by vm_compute: thread programs, schedule and a total
                        # digest (coq/Model/C12Digest.v) of the final state and log printed by the extracted runner
    'model_optional': True,
    'assumptions': [
        'PARTIAL: the Go memory model, the goroutine scheduler and the race detector are outside the model; "no data race" is '
        'stated and decided as a lockset property of the modelled steps (co-enabled conflicting accesses share a lock) and only '
        'exhibited on the real code by the -race support run (testing, thorough tier)',
        'sync.Mutex / sync.RWMutex modelled by their specification; pool sections contain no yield point, so the pool lock is free '
        'between steps; a step is the code between two yield points of one goroutine',
        'per-connection packet processing is atomic under the connection lock and abstract in the theorems (parameters process / '
        'flush with the hypothesis machine_ok, proved for the two concrete machines); the concrete machines are exact only for '
        'the harness alphabet: sequence numbers far from the 2^32 wrap, payloads of at most one page, page limits off, streams '
        'that accept everything, keep nothing and let the connection be removed (the sequential machines are C09/C10)',
        'fewer than 1024 connection objects taken per pool (one grow of the free list); FlushAll visits its snapshot in object-id '
        'order (verifOrderConns under the tag; map order otherwise) - the theorems do not depend on the order',
        'a panicking assembler goroutine is treated as terminated (remaining calls dropped)',
    ],
    'trusted_base': [
        'model: coq/Model/C12Model.v is a hand transcription of the locking of tcpassembly/assembly.go (getConnection, '
        'newConnection, reset, AssembleWithTimestamp retry loop, closeConnection/remove, FlushAll) and reassembly/memory.go + '
        'tcpassembly.go (getHalf, getConnection, remove, AssembleWithContext, closeHalfConnection, FlushAll), repaired tree',
        'hooks: verif-tagged yield points and accessors in tcpassembly/ and reassembly/ (verif_hooks.go, new lines calling '
        'verifYield / verifOrderConns); the controller in harness/cmd/gpverif/c12.go',
    ],
    'explanation': 'Proved for any number of threads, any programs and every reachable state, for every per-connection machine '
                   'satisfying machine_ok: C12_no_panic (tcpassembly; reassembly after the fix), C12_one_entry (one entry per key and '
                   'its reverse, map/free-list consistency), C12_mutex + C12_stream_owner_unique + C12_lock_owner (callbacks only in a '
                   'step that takes the free lock of the one object owning the stream), C12_progress (no deadlock; enabled threads '
                   'step), C12_inorder_order (an assembler processes its packets in program order), C12_complete_once_partial (never twice), C12_flush_skips_closed (tcpassembly: a flusher - FlushAll or the age-based FlushWithOptions - that locks a connection closed since its snapshot changes nothing); C12_lockset_without_recycling and C12_inorder_without_recycling prove the two refuted statements for the hypothetical configuration in which remove() does not recycle the object (so recycling is their only cause). C12_terminates / C12_runs_finite / C12_complete_run (a lexicographic measure decreases on every step of every configuration: all runs are finite without a fairness assumption and every maximal run ends all-done), C12_complete_once_without_recycling (exactly once for every kept stream once the pool is empty; with recycling only the at-most-once half holds and the refutations stay), C12_one_entry_checker / C12_one_entry_chk (the boolean chk_one_entry the runner evaluates is the theorem predicate), C12_one_entry_age_free / C12_complete_once_partial_age_free / C12_no_second_remove_without_age_flush (for programs of packets and FlushAll only, the pool theorems hold for the reassembly code as it is; trail_cfg g = false is needed exactly for schedules in which a thread reaches the second remove, i.e. the known finding C12-reassembly-second-remove). C12_flushall_empties_pool (+ _tcpassembly, _reassembly: the code as it stands, recycling included - after a FlushAll called while every other assembler is quiescent the call returns and the pool map is empty; reassembly for programs without age-based flush), C12_complete_once_after_flushall (without recycling: that FlushAll leaves every stream ever entered in the pool completed exactly once; the hypotheses g_recycle = false and trail_cfg = false cannot be dropped, witnesses C12_complete_once_refuted_*). Extraction cross-check: 11 corpus cases re-evaluated by vm_compute against a total digest of the final state and log (coq/Model/C12Digest.v). Refuted on the faithful model with explicit schedules, each '
                   'replayed on the real code (corpus/C12): C12_no_panic_refuted (unchanged reassembly: FIXME panic, fixed), '
                   'C12_lockset_refuted_*, C12_inorder_refuted_* (stale pointer to a closed, recycled connection object: data reaches '
                   'the wrong stream, reset races with the reader), C12_complete_once_refuted_* (a recycled object that lost the insert '
                   'race evicts the winner, whose stream is never completed), C12_flush_skips_closed_refuted_reassembly / C12_complete_once_refuted_reassembly_age_flush (reassembly FlushCloseOlderThan removes the connection a second time after unlocking and deletes the entry of a re-created connection) - known findings. For reassembly the theorems that rest on the pool invariant (one_entry, stream_owner_unique, complete_once_partial, *_without_recycling) carry the hypothesis trail_cfg g = false, i.e. flushers that do not perform that second remove (FlushAll). PARTIAL: Go memory model, scheduler and '
                   'race detector are outside the model.',
}
