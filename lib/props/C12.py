"""C12 configuration for ./check"""
CONF = {
    'interesting': ['lookup-race-lost', 'both-directions-race', 'close-between-lookup-and-lock', 'recycle'],
    'rule': 'placeholder',
    'shrink_keep_first': 1,
    'model_optional': True,
    'assumptions': [],
    'trusted_base': [],
    'explanation': '',
}
