"""Lnortel (Nortel Discovery Protocol decoder sub-check: C19, C01; C05/C06/C07 n/a) configuration for ./check"""
CONF = {
    'interesting': ['truncated-prefix-of-valid', 'octet-every-value', 'decode-error', 'malformed'],
    'rule': 'Nortel Discovery messages: every value of the chassis, backplane, state and link-count octets (every String table entry and the default), all-zero/all-ones, every truncation 0..12; a malformed stream.',
    'shrink_keep_first': 0,
    'assumptions': ['Go slice semantics as modelled (slices checked against len, stricter than cap)',
                    'gopacket.LayerString/LayerDump/LayerGoString total on non-nil layers (reflective); the three enumeration String methods exercised on every decoded layer',
                    'NortelDiscovery has only a decoder function (a new layer per call: C05 n/a) and no SerializeTo (C06/C07 n/a)',
                    'observation, not repaired: the decoder sets neither Contents nor Payload, does not call SetTruncated on short data and names no next decoder'],
    'trusted_base': ['model: coq/Model/LnortelModel.v is a hand transcription of layers/ndp.go:255-269'],
    'explanation': 'Theorems over all byte strings about the Gallina model of the Nortel Discovery decoder; correspondence ties it to layers/ndp.go.',
}
