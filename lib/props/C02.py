"""C02 configuration for ./check"""
import os, subprocess

def fact_f4(root, repo, work, hexe):
    """F4: package-level variables written outside initialisation (root package and layers/),
    re-extracted from the repository under test; a line that is not in lib/facts/F4.expected
    means decoding may now write global state."""
    env = dict(os.environ); env['VERIF_REPO'] = repo
    out = subprocess.run([hexe, 'facts4'], stdout=subprocess.PIPE, text=True, env=env, timeout=300).stdout
    got = [l for l in out.splitlines() if l.strip()]
    exp = set(l.strip() for l in open(os.path.join(root, 'lib', 'facts', 'F4.expected')) if l.strip())
    new = [l for l in got if l not in exp]
    extra = {'F4_lines': len(got), 'F4_new': new}
    if new:
        return False, 'source fact F4 changed: package-level state is now written outside initialisation by: ' + '; '.join(new[:8]), extra
    if not got:
        return False, 'source fact F4 could not be extracted', extra
    return True, '', extra

CONF = {
    'coq_sample': 15,   # cases re-evaluated inside Coq by vm_compute against the extracted runner's output
    'pre': [fact_f4],
    'interesting': ['repeat-after-traffic', 'nocopy', 'shared-reader', 'concurrent', 'race-detector'],
    'rule': 'Histories over 1-3 input packets (checksummed Ethernet/IPv4|IPv6/TCP|UDP|ICMP|GRE stacks built by the harness, packet literals of layers/*_test.go parsed at run time, truncations, bit flips, non-Ethernet first layers): decode with any of the 16 option sets, unrelated traffic, decode again (signatures must coincide), every read-only accessor (Layers, String, Dump, VerifyChecksums, flows, GoString, LayerString/LayerDump) on an eager NoCopy packet, and bursts of concurrent readers/decoders. Input buffers live in mmap pages that are write-protected while the library runs, so any store into the caller\'s or the packet\'s buffer - even of an equal value - is observed as a fault.',
    'assumptions': ['source fact F4 (no package-level state written during decoding) is re-extracted from the repository by the fact pass of this check',
                    'the Go memory model, scheduler and race detector are outside the model: "no data race" is proved as emptiness of the readers\' write-sets and exhibited by write-protected pages (buffer) and the -race support run (heap objects)',
                    'SetNetworkLayerForChecksum is a set-up step done once before a packet is shared'],
    'trusted_base': ['model: coq/Model/C02Model.v (write-sets of VerifyChecksum before/after the repair; decode threaded through read-only tables)'],
    'explanation': 'partial: real data races live in the runtime; the theorems are about write-sets and interleavings of the model, the tie is the write-fault observation, the determinism oracle, F4 and the -race support run.',
}
