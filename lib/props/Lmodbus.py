"""Lmodbus (Modbus/TCP MBAP header decoder sub-check: C19, C05, C01; C06/C07 n/a) configuration for ./check"""
CONF = {
    'interesting': ['truncated-prefix-of-valid', 'length-extreme', 'error-after-fields-set', 'residue-after-error', 'decode-error', 'malformed'],
    'rule': 'Modbus/TCP frames with PDUs of 0,1,2,3,100,252..255,300 octets (bounds 2 and 253) and the length field exact, off by 1 and by 256; every truncation 0..13; decoded into fresh and reused objects; a malformed stream.',
    'shrink_keep_first': 0,
    'assumptions': ['Go slice semantics as modelled (slices checked against len, stricter than cap)',
                    'gopacket.LayerString/LayerDump/LayerGoString total on non-nil layers and nil embedded pointers (reflective)', 'ModbusTCP has no SerializeTo: C06 and C07 do not apply'],
    'trusted_base': ['model: coq/Model/LmodbusModel.v is a hand transcription of layers/modbustcp.go:104-150'],
    'explanation': 'Theorems over all byte strings about the Gallina model of the Modbus/TCP MBAP header decoder; correspondence ties it to layers/modbustcp.go.',
}
