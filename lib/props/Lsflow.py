"""Lsflow (sFlow v5 datagram decoder sub-check: C19, C05, C01; no SerializeTo, so C06/C07 do not apply) configuration for ./check"""
CONF = {
    'interesting': ['record-kind', 'record-then-record', 'record-then-sample', 'truncated-prefix-of-valid', 'field-extreme', 'consistent-length-cut',
                    'count-forced', 'count-exceeds-data', 'seed', 'random-valid', 'malformed', 'decode-error', 'residue-after-error', 'error-after-add',
                    'error-after-fields-set', 'multi-sample', 'skipped-record', 'raw-header', 'gateway-record', 'multi-as-path', 'string-record'],
    'rule': 'Datagrams built word by word by the harness: header with IPv4 / IPv6 / unknown agent address types, one sample (compact and expanded, '
            'flow and counter) whose LAST record is each of the 26 flow record kinds (raw packet, ethernet frame, IPv4, IPv6, extended switch / router / '
            'gateway / user / URL, the seven skip-and-fail kinds, four tunnel kinds, decapsulate, VNI, unknown, foreign enterprise) and 13 counter '
            'record kinds, alone and behind another record; every truncation length from the sample header on; every 32-bit word of the last '
            'record and the record count forced to 0,1,2,3,4,5,7,8, 2^31-1, 2^31, 2^32-4..2^32-1, and to rem-8..rem+4 and rem/4-2..rem/4+1 where rem '
            'is what follows the word (so header lengths, string lengths, AS path counts, member counts and community counts end exactly at, just before '
            'and just behind every boundary, with and without a valid record following); a second record / a second sample behind each kind (exact '
            'consumption); sample counts 0,1,2,3,2^31-1,2^31,2^32-1 with one or two samples present; sample tags 0..5, 0xfff and with enterprise bits; '
            'record counts 0..3 and huge; the sFlow datagrams of layers/sflow_test.go (parsed with go/ast) whole, truncated and with forced words; '
            'random multi-sample datagrams; a malformed stream; everything also decoded into an object that already holds three samples (dec2).',
    'shrink_keep_first': 0,
    'coq_sample': 12,   # cases re-evaluated inside Coq by vm_compute against the extracted runner's output
    'assumptions': ['Go slice/append/make semantics as modelled (reads checked against len, stricter than cap; string(bytes[:n]) within capacity)',
                    'gopacket.NewPacket(header, LayerTypeEthernet, gopacket.Default) inside decodeRawPacketFlowRecord is an opaque total function of the header bytes (it recovers panics); only the bytes handed to it are compared',
                    'gopacket.LayerString/LayerDump/LayerGoString total on non-nil layers (reflective); the String methods of sflow.go are switches with defaults (exercised on every decoded value)',
                    'BaseLayer (Contents/Payload) is never written by SFlowDatagram.DecodeFromBytes (pinned by the DeepEqual tests of layers/sflow_test.go) and is not part of the modelled state',
                    'C06/C07 do not apply: SFlowDatagram has no SerializeTo'],
    'trusted_base': ['model: coq/Model/LsflowModel.v is a hand transcription of layers/sflow.go (DecodeFromBytes, decodeFlowSample, decodeCounterSample, skipRecord and every record decoder) as repaired by the fix: commits "SFlow sample and record decoders check the remaining length before reading" and "SFlowDatagram.DecodeFromBytes starts from empty sample lists"'],
    'explanation': 'Theorems over all byte strings and all receiver states about the Gallina model of the sFlow decoder: no index/slice out of range, loops bounded by the input length (fuel never exhausted), reused = fresh, renderers total; correspondence ties the model to layers/sflow.go on generated and test-file datagrams, comparing every decoded field of every sample and record.',
}
