"""C14ng (sub-check of C14): pcapng writer/reader round trip and truncation prefix"""
import os, sys
sys.path.insert(0, os.path.dirname(os.path.dirname(os.path.abspath(__file__))))
from go2v_hook import go2v_hook2
CONF = {
    'pre': [go2v_hook2],
    'coq_sample': 6,   # cases re-evaluated inside Coq by vm_compute (digest of the session result, NgDigest.v)
    'interesting': ['option-pad-1', 'option-pad-2', 'option-pad-3', 'empty-string-option', 'multi-interface',
                    'cut-in-header', 'cut-in-data', 'cut-in-options', 'cut-at-boundary', 'big-endian', 'kept-across-reads', 'option-length-16bit-boundary'],
    'rule': 'Writer scripts (section info, 1-4 interfaces over 7 link types and 6 snap lengths, packets with data of every '
            'length residue and NgPacketOptions: comments incl. empty, flags, hashes, drop count, packet id, queue, verdicts; '
            'statistics, decryption-secret blocks, refused calls) are run through the real NgWriter; the file is read whole '
            '(ReadPacketDataWithOptions / ZeroCopyReadPacketDataWithOptions, 5 reader option sets) and cut at every offset '
            '(files up to ~4 KiB) or at random offsets (larger); the golden files of pcapgo/tests/{le,be} are read whole and cut. '
            'Written bytes, every packet, the terminal result and the reader state are compared with the model; the oracle checks '
            'round trip against the writer inputs and the true-prefix rule against an independent block walker. Everything a copying call returned (data, CaptureInfo incl. AncillaryData, options) is kept without deep copy and compared with what was written, and with its rendering at read time, only after the last read (clause C14:later-read-alters-earlier; a family of scripts with 2-3 interfaces of distinct link types, all link types wanted).',
    'shrink_keep_first': 2,
    'assumptions': ['timestamps handed to the writer are UnixNano values in [0, 2^63)',
                    'option values shorter than 65536 bytes, block lengths below 2^32',
                    'bufio.Reader/Writer, io.Reader semantics by their specification; gzip not modelled'],
    'trusted_base': ['model: coq/Model/NgModel.v is a hand transcription of pcapgo/ngwrite.go, ngwrite_dsb.go, ngread.go, ngread_nrb.go, ngread_dsb.go, pcapng.go (line ranges in its header)'],
    'explanation': 'C14_ng_roundtrip is proved at full strength for all link types wanted (every writer call incl. WriteInterfaceStats / WriteDecryptionSecretsBlock, call-by-call hypotheses incl. caplen <= snap length, accepted flags); the statement as first written, without the snap length hypothesis, is refuted. WantMixedLinkType=false: C14_ng_roundtrip_file_unmixed_partial (exactly exp_unmixed) and C14_ng_prefix_file_unmixed_partial (every cut behind the first interface block). Proved at file level for scripts of NewNgWriterInterface/AddInterface/WritePacketWithOptions with all link types wanted: C14_ng_roundtrip_file_partial (whole file read back as exactly its packets, then io.EOF) and C14_ng_prefix_file_partial + C14_ng_prefix_header_partial (every cut position: exactly the wholly contained packets, then io.EOF at a block boundary, io.ErrUnexpectedEOF elsewhere; also for the run with the own fuel of the cut input, C14_ng_prefix_file_own_fuel_partial, via C14_ng_fuel_independence). Scripts may contain WriteDecryptionSecretsBlock. Not covered by the theorems: WriteInterfaceStats blocks in the script, WantMixedLinkType=false, if_tsoffset != 0 (refuted). In the functional model the result of a copying read is a value (list Z, cinfo, popts) that no later reader step can alter, by construction; the harness checks the same of the implementation by keeping what the copying calls returned. C14_ng_roundtrip / C14_ng_prefix are proved about the model writer and reader; the correspondence run ties both to the code.',
}
