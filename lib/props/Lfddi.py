"""Lfddi (FDDI header decoder sub-check: C19, C01; C05/C06/C07 n/a) configuration for ./check"""
CONF = {
    'interesting': ['truncated-prefix-of-valid', 'octet-every-value', 'decode-error', 'malformed'],
    'rule': 'FDDI headers: every frame-control octet, all-zero/all-ones addresses, every truncation 0..14; decoded through the registered decoder on a recording PacketBuilder (class, truncation flag, fields, link layer set, next decoder, LinkFlow); a malformed stream.',
    'shrink_keep_first': 0,
    'assumptions': ['Go slice semantics as modelled (slices checked against len, stricter than cap)',
                    'gopacket.LayerString/LayerDump/LayerGoString total on non-nil layers (reflective)', 'FDDI has neither DecodeFromBytes nor SerializeTo: C05, C06 and C07 do not apply'],
    'trusted_base': ['model: coq/Model/LfddiModel.v is a hand transcription of layers/fddi.go:28-47 (with the length check of the earlier repair)'],
    'explanation': 'Theorems over all byte strings about the Gallina model of the FDDI header decoder; correspondence ties it to layers/fddi.go.',
}
