"""Lgeneve (Geneve codec sub-check: C19, C05, C06, C07, C01) configuration for ./check"""
CONF = {
    'interesting': ['truncated-prefix-of-valid', 'option-length-extreme', 'max-options', 'first-byte-every-value', 'options', 'error-after-add',
                    'error-after-fields-set', 'residue-after-error', 'error-residue', 'dirty-buffer', 'no-fixlengths', 'odd-payload', 'roundtrip',
                    'field-extreme', 'serialize-error', 'out-of-domain', 'malformed'],
    'rule': 'Geneve headers built field by field with 0..5 options of 0,1,2,3,7 data words; options area longer/shorter than the options; last '
            'option claiming more than is there; options length 0,1,2,32,62,63 words against one octet less/exact/one more present; option length '
            'field 0,1,30,31 at the end of an area of 1, w+1, w+2, 63 words; 63 empty options; every first byte; every truncation; decoded into fresh '
            'and reused objects (first packet with three options); serialized under all option/buffer combinations (also from error residues with '
            'options already added) and round-tripped; field-built layers with version 4/255, VNI 2^24, option data of 3,5,6,128,252 octets, flags 8/255, '
            'length fields 0,3,255; a malformed stream.',
    'shrink_keep_first': 0,
    'assumptions': ['Go slice/copy/append semantics as modelled (slices checked against len, stricter than cap)',
                    'gopacket.LayerString/LayerDump/LayerGoString total on non-nil layers (reflective); Geneve/GeneveOption have no String method',
                    'layer values without nil *GeneveOption entries in Options', 'EthernetType.LayerType table abstract'],
    'trusted_base': ['model: coq/Model/LgeneveModel.v is a hand transcription of layers/geneve.go:59-203 as repaired by the three fix: commits of agent-fixer'],
    'explanation': 'Theorems over all byte strings / layer values about the Gallina model of the Geneve codec: decoder (no panic, fuel bound, fresh = reused) and serializer (no panic, junk freedom, round trip under gn_wf); correspondence ties it to layers/geneve.go.',
}
