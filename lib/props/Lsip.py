"""Lsip (SIP decoder sub-check: C19, C05, C01; C06 and C07 do not apply) configuration for ./check"""
CONF = {
    'coq_sample': 12,   # cases re-evaluated inside Coq by vm_compute against the extracted runner's output
    'interesting': ['truncated-prefix-of-valid', 'first-line', 'header-shape', 'cseq-value', 'content-length-value', 'consistent-length-cut', 'line-ending',
                    'request', 'response', 'content-length', 'cseq', 'repeated-header', 'error-after-fields-set', 'residue-after-error', 'decode-error', 'malformed', 'seed'],
    'rule': 'ASCII messages built by the harness: requests of all 15 methods and responses, with Via/From/To (long, compact and odd-case names), CSeq, a second Via '
            'with a continuation line, Content-Length and a body, CRLF and LF line ends; every truncation; first lines with 0..4 parts, unknown / lower-case method '
            'and version, response codes non-numeric, signed, with leading zeros, at and beyond the int64 bounds, with underscore / 0x; header lines without a colon, '
            'with the colon first / last / repeated, spaces and tabs around, continuation lines with and without a preceding header, repeated and case-variant '
            'names, stray CR; CSeq values (number forms, 2^32-1, 2^32, signs, missing / unknown / lower-case method, double space) in requests and responses; '
            'Content-Length values 0..5,100,-1,-0,+3,2^31-1,2^31,-2^31,-2^31-1,non-numeric,empty x bodies of 0,3,4 octets, repeated, compact form; '
            'consistent-length cuts: Content-Length equal to, one below and one above the body octets present for every cut of a 10-octet body; line endings '
            'LF, CRLF, CRCRLF, LFCR, CR; SIP messages of layers/*_test.go; a malformed stream over a SIP-like alphabet; all decoded into fresh (&layers.SIP{}) and '
            'reused objects (after a response that leaves IsResponse, code, status, method, CSeq, Content-Length and five headers behind, and in the reverse order).',
    'assumptions': ['Go slice/copy/append/make semantics as modelled (slices checked against len, stricter than cap)',
                    'ASCII input only: strings.ToUpper / strings.ToLower / bytes.TrimSpace decode UTF-8 (invalid sequences are rewritten), which the byte-wise model does not cover; the model answers Err 77 for any octet >= 128 and the generator emits none',
                    'bytes.Buffer.ReadBytes, bytes.Trim, bytes.Index, strings.SplitN/Split/HasPrefix, strconv.Atoi/ParseInt/ParseUint as specified in their documentation (modelled, not verified)',
                    'Headers (a Go map) modelled as an association list; observations are sorted by key',
                    'gopacket.LayerString/LayerDump/LayerGoString total on non-nil layers (reflective)'],
    'trusted_base': ['model: coq/Model/LsipModel.v is a hand transcription of layers/sip.go:41-51, :115-152, :232-446'],
    'not_applicable': ['C06, C07: SIP has no SerializeTo'],
    'explanation': 'Theorems over all byte strings about the Gallina model of SIP.DecodeFromBytes; correspondence ties it to layers/sip.go on ASCII input.',
}
