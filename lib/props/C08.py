"""C08 configuration for ./check"""
import os, sys
sys.path.insert(0, os.path.join(os.path.dirname(os.path.abspath(__file__)), '..'))
from go2v_hook import go2v_hook
CONF = {
    'coq_sample': 10,   # cases re-evaluated inside Coq by vm_compute against the extracted runner's output
    'pre': [go2v_hook],
    'interesting': ['reused-buffer', 'odd-length', 'carry-out-of-16', 'csum-0000', 'csum-ffff', 'udp-zero-rule', 'flip-in-checksum-field'],
    'rule': 'Helper ops (FoldChecksum on boundary and random accumulators, ComputeChecksum on byte strings with boundary initial sums, lengths around 131070) and packet scenarios for each of UDP/TCP/ICMPv4/ICMPv6/IPv4-header/GRE x pseudo-header IPv4/IPv6 x checksum class {0x0000,0xffff,0x0001,0xfffe,random} (tails solved) x odd/even x four size classes plus payloads up to 70000 bytes: serialize with FixLengths+ComputeChecksums and compare the field with the model; decode and VerifyChecksum (directly and through NewPacket + SetNetworkLayerForChecksum + Packet.VerifyChecksums); every single-bit flip of packets <= 56 bytes and selected flips of larger ones; stored-value variants (0, 0xffff, +1, complement); truncated and random byte strings. Sequences of three packets are serialized into ONE reused SerializeBuffer, also one pre-filled with 0xaa/0xff/0x01 (tags reused-buffer, dirty-buffer), for all six emitters, plus targeted GRE flag combinations (checksum+ack, checksum+routing(+ack), key+seq, all) with non-zero field values.',
    'shrink_keep_first': 0,
    'assumptions': ['bytes are integers in [0,256); Go uint32 arithmetic is arithmetic mod 2^32',
                    'lengths < 2^32 (len() converted to uint32 in computeChecksum)',
                    'TCP option kind 30 (MPTCP) is outside the modelled decoder (generators keep it out, also under single-bit flips)'],
    'trusted_base': ['model: coq/Model/C08Model.v is a hand transcription of checksum.go:34-58, layers/tcpip.go:26-69 and the checksum emission / region-determining decode / VerifyChecksum parts of ip4.go, tcp.go, udp.go, icmp4.go, icmp6.go, gre.go'],
    'explanation': 'Junk in the checksum field position: the emitters of the model zero the field themselves and C08_emit_junk_free_* prove the result independent of what was there; independence of the other serialized bytes from buffer leftovers is C07 (C07_<layer>_junk_free), on which the byte-level hypotheses of C08_emit_* rely. Props/C08.v proves FoldChecksum = 65535 - oc for all 2^32 accumulators, ComputeChecksum = (c + wordsum) mod 2^32, agreement with RFC 1071 below the accumulator-wrap bound (and refutes it beyond), emitted = reference per layer, VerifyChecksum characterised for every input (Correct = the value the emitter writes over the covered region, Valid = equality with the stored field, UDP/GRE exceptions), verification accepts emitted packets, and single-bit flips are reported; the correspondence run ties the model to the Go code.',
}
