"""C15ng (sub-check of C15): the pcapng reader on hostile input"""
import os, sys
sys.path.insert(0, os.path.dirname(os.path.dirname(os.path.abspath(__file__))))
from go2v_hook import go2v_hook2
CONF = {
    'pre': [go2v_hook2],
    'coq_sample': 12,   # cases re-evaluated inside Coq by vm_compute (digest of the session result, NgDigest.v)
    'interesting': ['mut-blocklen', 'mut-optlen', 'mut-tsresol', 'mut-caplen', 'mut-ifid', 'mut-optcode', 'mut-reclen',
                    'mut-rectype', 'mut-origlen', 'mut-snaplen', 'mut-secretslen', 'mut-blocktype', 'mut-bom', 'mut-version',
                    'mut-optval', 'mut-tsoff', 'mut-ts', 'mut-linktype',
                    'short-read-chunking', 'injected-error', 'gzip', 'big-packet', 'truncated-golden', 'golden-byte', 'garbage'],
    'rule': 'Three hand-built pcapng files (little/big endian; all block types incl. name resolution, statistics, decryption '
            'secrets, simple/obsolete packet blocks, two sections, an unknown-version section) with every 16/32-bit field of every '
            'block header, option and record forced to boundary values (0,1,3,4,.., max, +-1/4/8 around the original); if_tsresol all '
            '256 values; the golden files of pcapgo/tests cut at every offset (small) or a stride, and with single bytes forced to '
            'extremes; random and block-structured garbage; chunk sizes 1..40, two-chunk splits at every position, random chunk '
            'patterns, one-byte + data-with-error readers; an injected I/O error at every position; gzip-wrapped valid, mutated and '
            'cut streams; valid files with large packets (capture lengths 65535..65537, 262143..262145, up to 4 MiB+1; snap length 0 '
            'and large) read with both calls, which must agree (clause C15:zero-copy-equals-copy).  Every observation (packets, terminal class, reader state) is compared with the model run over the same '
            'chunked stream; the oracle checks panic, hang (10 s), allocation (runtime.MemStats.TotalAlloc delta of each call <= bytes '
            'present + largest declared snap length + 80 KiB (a 16-bit option value plus the bufio buffer), 512 KiB for gzip), shape, and chunking/error invariance against a plain read.',
    'shrink_keep_first': 1,
    'assumptions': ['bufio.Reader / io.Reader by their specification (no 100 consecutive empty reads)', 'gzip (stdlib) not modelled: exercised by the oracle only',
                    'allocation requests are modelled and measured, not resident memory'],
    'trusted_base': ['model: coq/Model/NgModel.v is a hand transcription of pcapgo/ngread.go, ngread_nrb.go, ngread_dsb.go, pcapng.go (line ranges in its header)'],
    'explanation': 'C15_ng_fail_surfaces (proved): when the stream ends with a read error, neither NewNgReader nor the terminal read reports io.EOF / io.ErrUnexpectedEOF - the weakest-precondition calculus tracks how the last stream operation ended and allows those classes only after a real end of stream. C15_ng_* are proved for every chunked stream about the model reader; the correspondence run ties it to the code.',
}
