"""Leth (Ethernet codec sub-check: C19, C05, C06, C07, C01) configuration for ./check"""
CONF = {
    'coq_sample': 15,   # cases re-evaluated inside Coq by vm_compute against the extracted runner's output
    'interesting': ['truncated-prefix-of-valid', 'length-extreme', 'length-field', 'trailer-stripped', 'residue-length',
                    'min-frame-padding', 'dirty-buffer', 'no-fixlengths', 'length-boundary', 'field-extreme', 'min-frame-boundary'],
    'rule': 'Ethernet II and 802.3 frames built field by field by the harness, decoded, serialized under all option/buffer '
            'combinations over payloads of 0,1,2,45,46,47,59,60,100 bytes (60 byte minimum padding) and round-tripped; every '
            'truncation length 0..15; the type/length field forced to 0,1,3,len-1,len,len+1,1500,1501,0x5ff,0x600,0x601; ordered '
            'pairs into one object; field-built layers (MAC lengths 0..20, LLC with and without Length, EtherType with Length, '
            'types below 0x600); 802.3 payloads of 1499..1537 bytes (length/EtherType boundary); all packet literals of '
            'layers/*_test.go (go/ast, at run time) and their prefixes; a malformed stream.',
    'shrink_keep_first': 0,
    'assumptions': ['Go slice/copy semantics as modelled; slices checked against len (stricter than cap)',
                    'EthernetType.LayerType table abstract (NextLayerType id = the EthernetType value)',
                    'gopacket.LayerString/LayerDump/LayerGoString total on non-nil layers (reflective)',
                    'C06 payload of an EtherType frame shorter than 60 bytes comes back followed by the zero padding the layer added (our reading)'],
    'trusted_base': ['model: coq/Model/LethModel.v is a hand transcription of layers/ethernet.go:39-113'],
    'explanation': 'Theorems over all byte strings / layer values about the Gallina model of the Ethernet codec; the correspondence run ties the model to layers/ethernet.go.',
}
