"""Lraw (decodeIPv4or6, the LinkTypeRaw decoder: C19; no layer of its own) configuration for ./check"""
CONF = {
    'interesting': ['empty', 'first-octet-every-value', 'truncated-prefix-of-valid', 'version-4', 'version-6', 'version-0', 'version-15', 'decode-error',
                    'malformed', 'seed'],
    'rule': 'The empty packet; every first octet 0..255 alone and followed by 19, 39, 60 octets; every truncation of an IPv4/UDP and an IPv6/UDP '
            'packet; the IPv4 and IPv6 packets of layers/*_test.go; a malformed stream — through layers.LinkTypeRaw.Decode on a recording '
            'PacketBuilder, compared with the model applied to the results of the IPv4 and IPv6 decoders alone on the same bytes.',
    'shrink_keep_first': 0,
    'assumptions': ['decodeIPv4 and decodeIPv6 are parameters of the model (they are the sub-checks Lip4 and Lip6); the run takes their class, truncated '
                    'flag and layer count on each input from the real decoders',
                    'decodeIPv4or6 adds no layer of its own: C05, C06, C07, C01 do not apply'],
    'trusted_base': ['model: coq/Model/LrawModel.v is a hand transcription of layers/enums.go:283-296 as repaired'],
    'explanation': 'Theorems over all byte strings and all IP decoders about the Gallina model of decodeIPv4or6; correspondence ties it to layers/enums.go.',
}
