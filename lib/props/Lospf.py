"""Lospf (OSPFv2/OSPFv3 decoder sub-check: C19, C05, C01; C06 and C07 do not apply) configuration for ./check"""
CONF = {
    'coq_sample': 12,   # cases re-evaluated inside Coq by vm_compute against the extracted runner's output
    'interesting': ['truncated-prefix-of-valid', 'consistent-length-cut', 'packet-length-extreme', 'unknown-type', 'lsa-count-extreme', 'lsa-length-extreme',
                    'prefix-count-length-extreme', 'hello', 'db-description', 'ls-request', 'ls-update', 'ls-ack',
                    'lsa-body-11', 'lsa-body-12', 'lsa-body-13', 'lsa-body-14', 'lsa-body-15', 'lsa-body-16', 'lsa-body-17', 'lsa-body-18', 'lsa-body-19', 'lsa-body-20',
                    'error-after-fields-set', 'residue-after-error', 'decode-error', 'malformed', 'seed'],
    'rule': 'For OSPFv2 and OSPFv3 alike, packets built field by field by the harness: Hello, Database Description, Link State Request, Update and Acknowledgment '
            'with 0..3 elements, Link State Updates with LSAs of every body type the code knows (v2 Router/Network/AS-external/NSSA, v3 Router/Network/'
            'Inter-Area-Prefix/Inter-Area-Router/AS-external/NSSA/Link/Intra-Area-Prefix) and unknown ones; every truncation with the packet length kept; '
            'consistent-length cuts: every prefix with the packet length rewritten to the bytes present, and every LSA type ending exactly at every internal '
            'boundary of its body with the LSA length and packet length rewritten, as last LSA and followed by another; packet length 0,1,15,16,23,24,...,48, '
            'around the header+fixed part, len-1, len, len+1, 65535, with and without data after it; unknown packet types 0,6,7,255 (stale Content); LSA count '
            '0,1,2,3,2^16,2^32-1 against two LSAs present; LSA length 0,1,19,20,21,23,24,25,body-1,body+1,reaching into / past the next LSA, 65535; Link-LSA and '
            'Intra-Area-Prefix prefix counts 0..65535 (and 2^32-ish) x prefix lengths 0..255; IP protocol 89 payloads of layers/*_test.go; a malformed stream; '
            'all decoded into fresh and reused objects (the first packet of a pair is a Link State Update with three LSAs).',
    'assumptions': ['Go slice/copy/append/make semantics as modelled (slices checked against len, stricter than cap)',
                    'uint32 offsets in getLSAs/getLSAsv2/extractLSAInformation do not wrap (inputs below 4 GiB)',
                    'gopacket.LayerString/LayerDump/LayerGoString total on non-nil layers (reflective; Content holds plain structs and slices)'],
    'trusted_base': ['model: coq/Model/LospfModel.v is a hand transcription of layers/ospf.go:247-786'],
    'not_applicable': ['C06, C07: OSPFv2/OSPFv3 have no SerializeTo'],
    'explanation': 'Theorems over all byte strings about the Gallina model of the two OSPF decoders incl. all LSA bodies; correspondence ties it to layers/ospf.go.',
}
