"""C05: composite of sub-checks (DESIGN.md section 2 'Sub-checks')"""
import os, sys
sys.path.insert(0, os.path.join(os.path.dirname(os.path.abspath(__file__)), '..'))
from layerset import LAYERS, SWEEP, have

CONF = {
    'components': ['C05parser'] + LAYERS,
    'theorem_prefix': 'C05_',
    'clause_prefix': 'C05:',
    'parallel': 5,
    'rule': 'C05parser: scripted decoding-layer families through the real DecodeLayers loop and containers + real layers vs NewPacket; per layer: ordered pairs of packets decoded into one object (first packet chosen to leave residue) vs fresh objects.',
    'explanation': 'C05_prefix / C05_containers / C05_sequence (any family of decoding layers, any container) + C05_<layer>_fresh (decode_into old = decode_into fresh) per modelled layer, which discharges the fresh_indep hypothesis of C05_sequence for those layers.',
    'assumptions': [],
}
