"""Lmbap (Modbus layer decoder + decodingLayerDecoder sub-check: C19, C05, C01; C06/C07 n/a) configuration for ./check"""
CONF = {
    'coq_sample': 10,   # cases re-evaluated inside Coq by vm_compute against the extracted runner's output
    'interesting': ['truncated-prefix-of-valid', 'length-extreme', 'function-code-every-value', 'exception-response', 'trailing-bytes-as-payload',
                    'empty-data', 'registered-decoder', 'error-after-fields-set', 'residue-after-error', 'decode-error', 'malformed', 'seed'],
    'rule': 'Modbus frames built field by field: length field 0,1,2,3,right,off by one,255,256,65529,65530,65535 against 0,1,3 data octets; every '
            'function code 0..255 with and without a data octet (exception code); 0..252 data octets; 0,3,12 trailing octets; every truncation; '
            'DecodeFromBytes into fresh and reused objects and the registered decoder (decodeModbus -> base.go decodingLayerDecoder) on a recording '
            'PacketBuilder; Validate / GetExceptionCode / String accessors on every state; Modbus TCP payloads of layers/*_test.go (port 502); '
            'a malformed stream.',
    'shrink_keep_first': 0,
    'assumptions': ['Go slice semantics as modelled (slices checked against len, stricter than cap)',
                    'gopacket.LayerString/LayerDump/LayerGoString total on non-nil layers (reflective)',
                    'Modbus has no SerializeTo: C06 and C07 do not apply'],
    'trusted_base': ['model: coq/Model/LmbapModel.v is a hand transcription of layers/modbus.go:173-246 and layers/base.go:38-49'],
    'explanation': 'Theorems over all byte strings / layer values about the Gallina model of the Modbus decoder; correspondence ties it to layers/modbus.go and layers/base.go.',
}
