"""Lip6 (layer sub-check: IPv6 header, jumbograms, hop-by-hop / destination options) configuration for ./check"""
CONF = {
    'coq_sample': 15,   # cases re-evaluated inside Coq by vm_compute against the extracted runner's output
    'interesting': ['truncated-prefix-of-valid', 'option-length-extreme', 'residue-options', 'multi-option', 'pad-residue',
                    'odd-payload', 'dirty-buffer', 'no-fixlengths', 'error-after-add', 'error-residue', 'jumbo', 'dispatch-table', 'ext-frag', 'ext-rtg', 'reused-buffer-layers'],
    'rule': 'Sequences of 3-4 stacks written with SerializeLayers/SerializePacket into ONE reused SerializeBuffer (decoded stacks with the hop-by-hop header as a layer of its own, built IPv6 with the header as a field, both, FixLengths jumbograms, every order), each output through the round-trip oracle. Kinds ip6/hbh/dst/frag/rtg (frag, rtg = IPv6Fragment, IPv6Routing through NewPacket lazy with recovery off; truncations, header length and routing type mutations, built values with reserved/address lengths 0..17). Packets and extension headers built field by field by the harness (0..5 TLV options incl. Pad1/PadN, '
            'padded to 8), every truncation length, header length / option length / IPv6 length forced to 0,1,max,+-1 and around each bound; '
            'the IPv6, hop-by-hop and destination layers of the packet literals of layers/*_test.go (go/ast), whole, truncated, mutated; '
            'jumbogram length/option combinations and payloads of 65535..70001 octets; ordered pairs into reused objects; serialization of '
            'decoded values, error-path residues and values built from public fields (option lengths not matching the data, alignment '
            'requests, padding types, address lengths) under option combinations into fresh/dirty/pre-sized buffers; every pad residue '
            '0..7; the IPProtocol->LayerType table for all 256 values; a malformed stream.',
    'assumptions': ['input slices have cap == len (spare capacity can only hide a missing length check)',
                    'Go int unbounded (sizes < 2^62); fmt/net.IP.String/reflect total on non-nil values',
                    'SerializeLayers: Clear() empties the buffer\'s layer list (writer.go; C18), the layers pushed within a stack are an explicit argument of ip6_serialize_in'],
    'trusted_base': ['model: coq/Model/Lip6Model.v is a hand transcription of layers/ip6.go:54-134 (jumbo helpers), 139-302 (IPv6), '
                     '307-418 (TLV options), 411-432, 476-536, 679-756 (extension headers) of the repaired tree; coq/Model/Lip6xModel.v: IPv6Routing, IPv6Fragment (ip6.go:588-700)'],
    'explanation': 'Per-layer theorems C19/C05/C06/C07/C01 about the Gallina model of the IPv6 codec; the correspondence run ties the '
                   'model to the Go code on every observable.',
}
