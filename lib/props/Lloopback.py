"""Lloopback (loopback codec sub-check: C19, C05, C06, C07, C01) configuration for ./check"""
CONF = {
    'interesting': ['truncated-prefix-of-valid', 'residue-after-error', 'error-residue', 'dirty-buffer', 'no-fixlengths', 'odd-payload', 'roundtrip', 'field-extreme', 'decode-error', 'malformed', 'family-every-value', 'big-endian-family', 'little-endian-family', 'family-over-255'],
    'rule': 'Loopback headers with every family byte in both byte orders, each of the other three bytes non-zero (family over 255: error with nothing assigned), every truncation 0..5, decoded into fresh and reused objects, serialized under all option/buffer combinations and round-tripped; field-built layers; loopback captures of layers/*_test.go; a malformed stream.',
    'shrink_keep_first': 0,
    'assumptions': ['Go slice/copy semantics as modelled (slices checked against len, stricter than cap)',
                    'gopacket.LayerString/LayerDump/LayerGoString total on non-nil layers (reflective); Loopback has no String method or flow accessor',
                    'ProtocolFamily.LayerType table abstract (next = the field value)'],
    'trusted_base': ['model: coq/Model/LloopbackModel.v is a hand transcription of layers/loopback.go:29-71'],
    'explanation': 'Theorems over all byte strings / layer values about the Gallina model of the loopback codec; correspondence ties it to layers/loopback.go.',
}
