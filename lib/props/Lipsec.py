"""Lipsec (IPSec AH and ESP decoder sub-check: C19, C05, C01; C06/C07 n/a) configuration for ./check"""
CONF = {
    'interesting': ['truncated-prefix-of-valid', 'length-extreme', 'error-after-fields-set', 'header-length-zero', 'empty-auth-data',
                    'residue-after-error', 'decode-error', 'malformed', 'esp', 'seed'],
    'rule': 'AH headers built field by field with header length 0,1,2,3,4,127,254,255 and the bytes present one less / exact / one more than '
            '(HeaderLength+2)*4, every truncation, decoded into fresh objects and into an object that holds authentication data from a previous '
            'packet (the late error returns leave it next to the new header fields); ESP headers with 0..33 encrypted bytes, every truncation; '
            'AH/ESP packets of layers/*_test.go; a malformed stream.',
    'shrink_keep_first': 1,
    'assumptions': ['Go slice semantics as modelled (slices checked against len, stricter than cap)',
                    'gopacket.LayerString/LayerDump/LayerGoString total on non-nil layers (reflective); IPSecAH/IPSecESP have no String method or flow accessor',
                    'IPSecAH and IPSecESP have no SerializeTo: C06 and C07 do not apply', 'IPProtocol.LayerType table abstract (AH next = the protocol number)'],
    'trusted_base': ['model: coq/Model/LipsecModel.v is a hand transcription of layers/ipsec.go:37-120'],
    'explanation': 'Theorems over all byte strings about the Gallina models of the IPSec AH and ESP decoders; correspondence ties them to layers/ipsec.go.',
}
