"""Licmp6 (layer sub-check: ICMPv6 header + NDP messages) configuration for ./check"""
CONF = {
    'coq_sample': 15,   # cases re-evaluated inside Coq by vm_compute against the extracted runner's output
    'interesting': ['truncated-prefix-of-valid', 'option-length-extreme', 'residue-options', 'multi-option',
                    'odd-payload', 'dirty-buffer', 'no-fixlengths', 'error-after-add', 'error-residue', 'option-string'],
    'rule': 'Kinds hdr/rs/ra/ns/na/rd/opts/echo. Messages built field by field by the harness with 0..5 options, every truncation length, '
            'every option length byte forced to 0,1,255,+-1; the ICMPv6 layers of the packet literals of layers/*_test.go (go/ast) whole, '
            'at every truncation length and with length bytes forced; ordered pairs into a reused object (first leaves options, second has '
            'fewer/none/fails); serialization of decoded values, error-path residues and values built from public fields (address lengths '
            '0..40, option data lengths 0..2046) under the 4 option combinations into fresh/dirty/pre-sized buffers; round trips with '
            'payloads 0..1451 bytes incl. all-ones packets; ICMPv6Option.String on 11 types x 16 data lengths; a malformed stream. '
            'Observations: error class, truncated flag, every field, contents, payload, NextLayerType, renderer ok/panic, output bytes.',
    'assumptions': ['input slices have cap == len (spare capacity can only hide a missing length check)',
                    'Go int unbounded (sizes < 2^62); fmt/hex/net.IP.String/net.HardwareAddr.String/reflect total on non-nil values',
                    'an IPv4 network layer attached to ICMPv6 for the checksum is not modelled'],
    'trusted_base': ['model: coq/Model/Licmp6Model.v is a hand transcription of layers/icmp6.go:122-261, layers/icmp6msg.go:112-118,191-565 '
                     '(repaired tree), layers/tcpip.go:37-70, checksum.go:36-59'],
    'explanation': 'Per-layer theorems C19/C05/C06/C07/C01 about the Gallina model of the ICMPv6 header and NDP codecs; the correspondence '
                   'run ties the model to the Go code on every observable.',
}
