"""Lradius (RADIUS codec sub-check: C19, C05, C06, C07, C01) configuration for ./check"""
CONF = {
    'interesting': ['truncated-prefix-of-valid', 'attr-length-extreme', 'length-extreme', 'header-only', 'attributes', 'eap-payload', 'octets-behind-length',
                    'error-after-add', 'error-after-fields-set', 'residue-after-error', 'error-residue', 'dirty-buffer', 'no-fixlengths', 'roundtrip',
                    'field-extreme', 'serialize-error', 'out-of-domain', 'decode-error', 'malformed'],
    'rule': 'RADIUS packets built field by field with 0..5 attributes (User-Name, EAP-Message, Message-Authenticator, vendor, unknown types; values of '
            '0,1,2,4,6,16,18,253 octets): last attribute length octet 0,1,2,3, exact, one more, 255; packet length field below 20, short, long, 4096/4097; '
            'data of 4096/4100 octets; octets behind Length; header-only packets (early return) after a packet with attributes; every truncation; decoded into '
            'fresh and reused objects; serialized with and without FixLengths under all buffer kinds and round-tripped; field-built layers (values of '
            '0, 253..256 octets, wrong length octets); RADIUS packets of layers/*_test.go; a malformed stream.',
    'shrink_keep_first': 0,
    'assumptions': ['Go slice/copy/append/make semantics as modelled (slices checked against len, stricter than cap)',
                    'gopacket.LayerString/LayerDump/LayerGoString total on non-nil layers (reflective); RADIUSCode/RADIUSAttributeType String are switches with a default',
                    'C06 is about a RADIUS layer with nothing under it; its Payload is derived from the EAP-Message attributes'],
    'trusted_base': ['model: coq/Model/LradiusModel.v is a hand transcription of layers/radius.go:369-563 as repaired by the two fix: commits of agent-lmisc2'],
    'explanation': 'Theorems over all byte strings / layer values about the Gallina model of the RADIUS codec; correspondence ties it to layers/radius.go.',
}
