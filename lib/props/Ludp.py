"""Ludp (UDP codec sub-check: C19, C05, C06, C07, C01, emitted checksum of C08) configuration for ./check"""
CONF = {
    'coq_sample': 15,   # cases re-evaluated inside Coq by vm_compute against the extracted runner's output
    'interesting': ['truncated-prefix-of-valid', 'length-extreme', 'length-boundary', 'residue-payload', 'odd-payload', 'dirty-buffer',
                    'no-fixlengths', 'error-after-add', 'jumbo-length-0', 'big-payload', 'csum-ffff', 'csum-solved'],
    'rule': 'UDP datagrams built field by field by the harness (ports from the implementation\'s port table, boundary ports, random) '
            'decoded, serialized under all FixLengths/ComputeChecksums/buffer-kind combinations with IPv4, IPv6, v4-mapped, '
            'wrong-length and absent network layers, and round-tripped; every truncation length 0..9; Length forced to '
            '0,1,7,8,9,len-1,len,len+1,65535; ordered pairs into one object; field-built layers; UDP segments of the IPv4 '
            'packet literals of layers/*_test.go (go/ast, at run time); a malformed stream; payloads of 1472 and 65526..65528 '
            '(thorough: ..131072) bytes over IPv4 and IPv6 (jumbogram rule).',
    'shrink_keep_first': 1,
    'assumptions': ['Go slice/copy semantics as modelled; slices checked against len (stricter than cap)',
                    'UDPPort.LayerType table abstract: the list of non-Payload ports is dumped from the implementation into each case (kp: op)',
                    'gopacket.LayerString/LayerDump/LayerGoString total on non-nil layers (reflective)'],
    'trusted_base': ['model: coq/Model/LudpModel.v is a hand transcription of layers/udp.go:31-133, layers/tcpip.go:26-70, checksum.go:34-58'],
    'explanation': 'Theorems over all byte strings / layer values about the Gallina model of the UDP codec; the correspondence run ties the model to layers/udp.go.',
}
