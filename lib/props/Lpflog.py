"""Lpflog (OpenBSD pf log header decoder sub-check: C19, C05, C01; C06/C07 n/a) configuration for ./check"""
CONF = {
    'interesting': ['truncated-prefix-of-valid', 'length-octet-extreme', 'length-below-header', 'length-padded', 'every-family', 'error-after-fields-set',
                    'residue-after-error', 'decode-error', 'malformed'],
    'rule': 'pf log headers (61 octets read) with the length octet 0..5, 57..65, 252..255 and four less .. one more than the data over 0..4,10,200 octets behind the header (every residue mod 4, the padded case length%4==1); every family octet; every truncation 0..65; decoded into fresh and reused objects; a malformed stream.',
    'shrink_keep_first': 0,
    'assumptions': ['Go slice semantics as modelled (slices checked against len, stricter than cap)',
                    'gopacket.LayerString/LayerDump/LayerGoString total on non-nil layers (reflective); Family.String exercised on every decoded layer',
                    'PFLog has no SerializeTo: C06 and C07 do not apply', 'PID and RulePID (int32) are compared as the uint32 they are converted from'],
    'trusted_base': ['model: coq/Model/LpflogModel.v is a hand transcription of layers/pflog.go:47-85'],
    'explanation': 'Theorems over all byte strings about the Gallina model of the pf log header decoder; correspondence ties it to layers/pflog.go.',
}
