"""C09 configuration for ./check"""
CONF = {
    'interesting': ['out-of-order-queue', 'overlap-case-2', 'overlap-case-3', 'overlap-case-4', 'overlap-case-6',
                    'duplicate-drop', 'wrap-crossed', 'limit-flush', 'age-flush', 'late-syn', 'keep-from', 'multi-page'],
    'rule': 'Segment scripts for one half-connection through Assembler.AssembleWithContext with real layers.TCP: sender stream S (0..6000 random bytes), ISN uniform or placed so that 0 / 2^30 / 2^31 / 3*2^30 / 2^32 falls inside or next to the stream, random segmentation, bounded-displacement permutation, held-back early segment, duplicates, overlapping retransmissions with consistent data aimed at the six checkOverlap cases, SYN first/late/absent/duplicated/forced start, FIN/bare FIN/RST, FlushCloseOlderThan/FlushWithOptions/FlushAll interleaved, page limits {0,1,2,5}, KeepFrom scripts; after every op the ReassembledSG calls (Fetch of everything, Info, Lengths), ReassemblyComplete, StreamFactory.New and pageCache.used are compared with the model; the Go oracle rebuilds the stream by absolute offsets.',
    'shrink_keep_first': 3,
    'assumptions': ['one half-connection, one assembler; Accept returns true; ReassemblyComplete returns true',
                    'window hypothesis for the theorems: live offsets within 2^30 (the generator keeps streams <= 6000 bytes)',
                    'Go int / int64 arithmetic of Sequence does not overflow (values < 2^33)'],
    'trusted_base': ['model: coq/Model/C09Model.v is a hand transcription of reassembly/tcpassembly.go:66-78, 320-347, 640-739, 752-887, 930-986, 1001-1236, 1265-1337 (slice capacities, statistics and stale page.end of recycled pages not modelled)'],
    'explanation': 'Props/C09.v proves the sequence-window lemma, the in-order path lemma and the checkOverlap case lemmas on the repaired model and keeps refutation witnesses for the original arithmetic; the correspondence run ties the model to tcpassembly.go and the Go oracle checks the stream statement on the implementation.',
}
