"""C09 configuration for ./check"""
import os, sys
sys.path.insert(0, os.path.join(os.path.dirname(os.path.abspath(__file__)), '..'))
from go2v_hook import go2v_hook
CONF = {
    'coq_sample': 15,   # cases re-evaluated inside Coq by vm_compute against the extracted runner's output
    'pre': [go2v_hook],
    'interesting': ['out-of-order-queue', 'overlap-case-2', 'overlap-case-3', 'overlap-case-4', 'overlap-case-6',
                    'duplicate-drop', 'wrap-crossed', 'limit-flush', 'age-flush', 'late-syn', 'keep-from', 'multi-page'],
    'rule': '120 exhaustive arrival orders of SYN + 4 segments at the wrap (thorough: 6 ISNs x 3 cut patterns x with/without a flush), then seeded random segment scripts for one half-connection through Assembler.AssembleWithContext with real layers.TCP: sender stream S (0..6000 random bytes), ISN uniform or placed so that 0 / 2^30 / 2^31 / 3*2^30 / 2^32 falls inside or next to the stream, random segmentation, bounded-displacement permutation, held-back early segment, duplicates, overlapping retransmissions with consistent data aimed at the six checkOverlap cases, SYN first/late/absent/duplicated/forced start, FIN/bare FIN/RST, FlushCloseOlderThan/FlushWithOptions/FlushAll interleaved, page limits {0,1,2,5}, KeepFrom scripts; after every op the ReassembledSG calls (Fetch of everything, Info, Lengths), ReassemblyComplete, StreamFactory.New and pageCache.used are compared with the model; the Go oracle rebuilds the stream by absolute offsets.',
    'shrink_keep_first': 3,
    'assumptions': ['model variant: the runner models the repository with the four C09 fix: commits and the two C11 page-accounting fixes (variant fullv = 111111); C09_VARIANT=000000 selects the model of the tree before the repairs',
                    'one half-connection, one assembler; Accept returns true; ReassemblyComplete returns true',
                    'window hypothesis for the theorems: live offsets within 2^30 (the generator keeps streams <= 6000 bytes)',
                    'Go int / int64 arithmetic of Sequence does not overflow (values < 2^33)'],
    'trusted_base': ['model: coq/Model/C09Model.v is a hand transcription of reassembly/tcpassembly.go:66-78, 320-347, 640-739, 752-887, 930-986, 1001-1236, 1265-1337 (slice capacities, statistics and stale page.end of recycled pages not modelled)'],
    'explanation': 'Props/C09.v proves on the repaired model: the sequence-window lemma (any ISN, wrap included) with a refutation of the original Difference; the in-order path lemma (overlapExisting); the checkOverlap lemmas, one per case plus the whole loop (queue stays sorted, disjoint, consistent with S, no panic); C09_stream_partial (SYN-first histories, any order/duplicates/overlaps/FIN/RST, no limit/KeepFrom/flush: delivered bytes are S[0,pos) exactly once in order) and C09_stream_partial_flush (the same with FlushWithOptions that cannot close and a final FlushAll: every ScatterGather is S at the absolute offset obtained by adding skips and lengths, segments never skip). The full statement C09_stream_statement is a Definition (executable predicate trace_okb); it is not proved as a whole but is evaluated by the extracted model on every generated case (observation spec=ok) and refuted by vm_compute witnesses for each of the four defects of the unchanged tree. The correspondence run ties the model to tcpassembly.go and the Go oracle checks the stream statement on the implementation.',
}
