"""Ldns (layer sub-check: DNS) configuration for ./check"""
CONF = {
    'interesting': ['compression-pointer', 'pointer-loop', 'truncated-prefix-of-valid', 'rdlength-extreme', 'opt-record',
                    'residue-records', 'dirty-buffer', 'no-fixlengths', 'error-residue', 'preserved-labels', 'label-length',
                    'name-length', 'public-fields', 'serialize-error', 'roundtrip-checked', 'rdata-cut-consistent'],
    'rule': 'DNS messages built field by field by the harness (header, 0..2 questions, 0..4 records of the 17 RDATA types with a decoder '
            '(A AAAA NS CNAME PTR MX TXT HINFO SOA SRV OPT URI DNSKEY NAPTR SVCB HTTPS RRSIG) and of types without one, '
            'split over the three sections; names as label sequences, with backward compression pointers, pointer-only names, '
            'labels holding a literal dot or backslash, 63-byte labels), every truncation length, every count forced to 0,1,+-1,'
            '65535, every RDLENGTH forced to 0,1,2,3,4,16,65535,+-1 and the exact rest of the message +-1; pointer targets '
            '(self, header, end, beyond, forward, mutual), pointer chains of depth 1..300 around the 255-level limit, label length '
            'bytes 62..0xbf, names of 250..300 octets, names exceeding 255 octets only after decompression; the DNS layers and the '
            'raw byte literals of layers/dns*_test.go (go/ast) whole, truncated and mutated; for every RDATA type a record followed by '
            'a valid record with its RDATA cut at EVERY length and RDLENGTH equal to that length (every internal field boundary '
            'of every RDATA decoder); pointer cycles of length 1-3 in owner and RDATA names; ordered pairs into a reused object '
            '(first leaves many records, second has fewer/none/fails/is shorter than a header); serialization of decoded values, '
            'error-path residues and values built from public fields (presentation names with escapes, malformed escapes, empty '
            'labels, over-long labels and names, wrong address sizes, 256+-byte character strings) under the option '
            'combinations into fresh/dirty/pre-sized buffers; round trips; a malformed stream; a 400-record message.',
    'assumptions': ['input slices have cap == len (spare capacity can only hide a missing length check)',
                    'every byte string is decoded first in a child process with a 48 MB stack cap: a fatal stack overflow or a hang of '
                    'the decoder is reported as C19:panic / C19:stuck and does not take the harness down',
                    'Go int unbounded (sizes < 2^62); fmt/reflect/strings/net.IP.String total on non-nil values',
                    'decoded names are observed as values: the aliasing of DNS.buffer is argued in the header of coq/Model/LdnsModel.v'],
    'trusted_base': ['model: coq/Model/LdnsModel.v is a hand transcription of layers/dns.go:333-421,485-511,522-810,814-963,1056-1235,'
                     '1267-1348,1350-1529,1572-1607,1662-1675,1691-1698,1726-1765,1796-1831 of the repaired tree (two fix: commits)',
                     'renderers: DNSResourceRecord.String 1237-1265 and the other String methods contain no partial operation (argued in '
                     'the model at render_panics); exercised on every decoded state by the harness'],
    'explanation': 'Per-layer theorems C19/C05/C06/C07/C01 about the Gallina model of the DNS codec (all RDATA types of dns.go); the '
                   'serializer is proved equal to a wire function of the value (C07_dns_wire), which the round-trip proof decodes; the '
                   'correspondence run ties the model to the Go code on every observable.',
}
