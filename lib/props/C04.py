"""C04 configuration for ./check"""
CONF = {
    'coq_sample': 40,   # cases re-evaluated inside Coq by vm_compute against the extracted runner's output
    'interesting': ['len-1500/1501', 'mutate-after-decode', 'dispose-then-reuse-block', 'concurrent'],
    'rule': 'Histories of caller-buffer allocations (lengths around the 1500-byte pool block: 0,1,2,7,64,1499,1500,1501,3000, random <1600, 65535), NewPacket with the four NoCopy/Pool combinations, Dispose of pooled packets, caller mutations of its buffers, and bursts of concurrent pooled NewPacket/Dispose from 2..8 goroutines. Which block sync.Pool.Get returned is observed (backing-array identity via unsafe.SliceData) and fed to the model as the nondeterministic choice. After every op the length, a position-weighted digest and the first 8 bytes of every packet\'s Data() are compared with the model; the implementation oracle checks that owning packets keep their bytes and that live copies are pairwise disjoint and away from caller memory.',
    'assumptions': ['sync.Pool Get/Put are linearizable and never hand out a block that was not Put back (goroutine interleavings reduce to histories)',
                    'Go slice/copy semantics as modelled; decoding is a function of the data bytes (PacketCore), so equal bytes give equal decoded packets',
                    'double Dispose and use after Dispose are outside the statement (the model flags such histories as bad)'],
    'trusted_base': ['model: coq/Model/C04Model.v is a hand transcription of packet.go:27-37, 253-260, 725-744'],
    'explanation': 'C04_copy_isolated / C04_pool_disjoint are invariants proved by induction over every history; partial: the Go memory model and real data races are outside the model (the concurrent bursts are run as support).',
}
