"""Leap (EAP packet codec sub-check: C19, C05, C06, C07, C01) configuration for ./check"""
CONF = {
    'interesting': ['truncated-prefix-of-valid', 'length-extreme', 'type-octet', 'octets-behind-length', 'bare-header', 'type-without-data', 'error-after-fields-set',
                    'residue-after-error', 'error-residue', 'dirty-buffer', 'no-fixlengths', 'odd-payload', 'roundtrip', 'field-extreme', 'out-of-domain', 'decode-error', 'malformed'],
    'rule': 'EAP packets built field by field: length field 0..10 against 4..9 octets present; bare 4-octet headers, a type octet without data, type data of 1..32 octets, '
            'padding behind the packet; every truncation; decoded into fresh and reused objects; serialized with and without FixLengths under all buffer kinds over '
            'empty and non-empty payloads and round-tripped; field-built layers (type 0 with/without data, nil/empty data, lengths 0,4,5,6,100,65535); EAPOL frames of '
            'layers/*_test.go; a malformed stream.',
    'shrink_keep_first': 0,
    'assumptions': ['Go slice/copy semantics as modelled (slices checked against len, stricter than cap)',
                    'gopacket.LayerString/LayerDump/LayerGoString total on non-nil layers (reflective); EAP has no String method or flow accessor'],
    'trusted_base': ['model: coq/Model/LeapModel.v is a hand transcription of layers/eap.go:50-114 as repaired by the two fix: commits of agent-lmisc3'],
    'explanation': 'Theorems over all byte strings / layer values about the Gallina model of the EAP codec; correspondence ties it to layers/eap.go.',
}
