"""C15: composite of sub-checks (DESIGN.md section 2 'Sub-checks')"""
import os, sys
sys.path.insert(0, os.path.join(os.path.dirname(os.path.abspath(__file__)), '..'))
from layerset import LAYERS, SWEEP, have

CONF = {
    'components': have(['C15pcap', 'C15ng']),
    'theorem_prefix': 'C15_',
    'clause_prefix': 'C15:',
    'parallel': 5,
    'rule': 'valid files with every header/record/option field mutated to boundary values, garbage, all chunkings of small files, injected I/O errors at every position, gzip-wrapped; allocation measured per call.',
    'explanation': 'C15_*_no_panic / _terminates / _alloc / _shape / _chunking for every chunked stream, for the pcap, snoop (and pcapng) reader models.',
    'assumptions': [],
}
