"""Licmp4 (ICMPv4 codec sub-check: C19, C05, C06, C07, C01) configuration for ./check"""
CONF = {
    'coq_sample': 15,   # cases re-evaluated inside Coq by vm_compute against the extracted runner's output
    'interesting': ['truncated-prefix-of-valid', 'typecode-sweep', 'residue-payload', 'dirty-buffer', 'no-checksum',
                    'odd-payload', 'roundtrip', 'csum-solved', 'big-payload'],
    'rule': 'All 256 ICMP types with several codes (TypeCode.String on known/unknown entries); random messages decoded, serialized '
            'under all option/buffer combinations and round-tripped; truncation lengths 0..9; ordered pairs into one object; '
            'field-built layers with extreme values; payloads solved so that the one\'s complement sum is 0xffff, 0xfffe, 0x0001; '
            'ICMPv4 messages of the packet literals of layers/*_test.go; a malformed stream; thorough: payloads up to 70001 bytes.',
    'shrink_keep_first': 0,
    'assumptions': ['Go slice/copy semantics as modelled', 'gopacket.LayerString/LayerDump/LayerGoString total on non-nil layers (reflective)'],
    'trusted_base': ['model: coq/Model/Licmp4Model.v is a hand transcription of layers/icmp4.go:199-257 and checksum.go:34-58'],
    'explanation': 'Theorems over all byte strings / layer values about the Gallina model of the ICMPv4 codec; correspondence ties it to layers/icmp4.go.',
}
