"""Ldot11 (802.11 MAC header codec sub-check: C19, C05, C06, C07, C01) configuration for ./check"""
CONF = {
    'interesting': ['truncated-prefix-of-valid', 'type-flags-grid', 'htc-grid', 'qos-grid', 'in-domain-spec', 'qos', 'htc-vht', 'htc-ht', 'htc-asel',
                    'htc-no-feedback', 'four-address', 'unsupported-data-type', 'wep', 'empty-payload', 'error-after-fields-set',
                    'residue-after-error', 'error-residue', 'dirty-buffer', 'no-fixlengths', 'odd-payload', 'roundtrip', 'field-extreme',
                    'out-of-domain', 'malformed', 'seed'],
    'rule': '802.11 frames built field by field by the harness for every one of the 64 type/subtype values with the flag combinations that change '
            'the header shape (ToDS+FromDS, Order, WEP): decoded, decoded into a reused object (first frame: four addresses, QoS, HT control), '
            'round-tripped, serialized under all option/buffer combinations; every truncation length 8..header+FCS for flags 0 and 0x83 of every '
            'type; the HT control field with every first octet against five second..fourth octet patterns (VHT/HT variant, unsolicited MFB, '
            'no-feedback-present, ASEL) on QoS data and management frames; QoS control octets; field-built layers of every type inside the C06 '
            'domain and outside it (type 64/130/255, protocol 4/255, addresses of 0,1,5,7,8 octets, sequence 4096/65535, fragment 16/65535); '
            'the 802.11 frames behind the RadioTap headers of the test-file literals; a malformed stream.',
    'shrink_keep_first': 0,
    'assumptions': ['Go slice/copy/append semantics as modelled (slices checked against len, stricter than cap)',
                    'gopacket.LayerString/LayerDump/LayerGoString total on non-nil layers (reflective, nil pointer fields included); Dot11 has no String method',
                    'the data sub-layers\' DecodeFromBytes (Dot11Data..., assign Payload only) always succeed; Dot11TypeMetadata / dataDecodeMap tables as listed in runner/ldot11.ml',
                    'the HT control structure is compared as the canonical list of its fields (nil pointer = -1)'],
    'trusted_base': ['model: coq/Model/Ldot11Model.v is a hand transcription of layers/dot11.go Dot11.DecodeFromBytes/NextLayerType/SerializeTo as repaired by the fix: commits of agent-fixer and agent-ldot11'],
    'explanation': 'Theorems over all byte strings / layer values about the Gallina model of the 802.11 MAC header codec: decoder (no panic, fresh = reused) and serializer (no panic, junk freedom, round trip PROVED in the form that is true of the code (C06_dot11_roundtrip: the last four payload octets come back as Checksum)). The plain C06 statement is refuted (C06_dot11_roundtrip_refuted: SerializeTo writes no FCS, QoS control or HT control; recorded by the Sweep known findings). ComputeChecksums is ignored by Dot11.SerializeTo.',
    'mutations_tried': ['drop the QOS/HTControl reset (caught)', 'mgmt/data length check offset+14 -> +12 (caught)', 'four-address condition && -> || (caught)', 'QoS TID mask 0x0F -> 0x07 (caught)', 'SerializeTo does not zero the prepended region (caught)', 'Payload starts one octet late (caught)'],
}
