"""Lprism (Prism monitor-mode header decoder sub-check: C19, C05, C01; C06/C07 n/a) configuration for ./check"""
CONF = {
    'interesting': ['truncated-prefix-of-valid', 'length-extreme', 'values-present', 'values-half-filled', 'error-after-fields-set',
                    'residue-after-error', 'decode-error', 'malformed'],
    'rule': 'Prism headers with 0,1,2,10 (300; thorough: 5459, the largest) values; header length 13 less .. 13 more than 24+12k for k=0..3 over 0,5,30 octets behind, and 0,1,23,32768,65532,65535; message codes 0x44,0x41 and others; value lengths 0,1,3,4,5,8,12,255,256,65535 at each of three positions; every truncation; decoded into fresh and reused objects; a malformed stream.',
    'shrink_keep_first': 0,
    'assumptions': ['Go slice semantics as modelled (slices checked against len, stricter than cap)',
                    'gopacket.LayerString/LayerDump/LayerGoString total on non-nil layers (reflective); PrismDID.String and IsSupplied exercised on every decoded value',
                    'PrismHeader has no SerializeTo: C06 and C07 do not apply'],
    'trusted_base': ['model: coq/Model/LprismModel.v is a hand transcription of layers/prism.go:17-26,113-151'],
    'explanation': 'Theorems over all byte strings about the Gallina model of the Prism header decoder (value loop by recursion on the value count); correspondence ties it to layers/prism.go.',
}
