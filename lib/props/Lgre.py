"""Lgre (layer sub-check: GRE) configuration for ./check"""
CONF = {
    'coq_sample': 15,   # cases re-evaluated inside Coq by vm_compute against the extracted runner's output
    'interesting': ['truncated-prefix-of-valid', 'option-length-extreme', 'residue-options', 'routing', 'routing-and-ack',
                    'odd-payload', 'dirty-buffer', 'no-fixlengths', 'error-after-add', 'error-residue', 'dispatch-table'],
    'rule': 'GRE headers built field by field by the harness for all 64 combinations of the six flag bits with 0..3 source-route '
            'entries, every truncation length, every SRE length byte forced to 0,1,max,+-1 and to the exact rest; the GRE layers of the '
            'packet literals of layers/*_test.go (go/ast) whole, truncated and with the first 12 bytes mutated; ordered pairs into a '
            'reused object; serialization of decoded values, error-path residues and values built from public fields (inconsistent '
            'SRELength, out-of-range flag fields, routing without the flag) under the option combinations into fresh/dirty/pre-sized '
            'buffers; round trips incl. checksum extremes; the EthernetType->LayerType table (all entries, neighbours, random; all 65536 '
            'in the thorough tier); a malformed stream.',
    'assumptions': ['input slices have cap == len (spare capacity can only hide a missing length check)',
                    'Go int unbounded (sizes < 2^62); fmt/reflect total on non-nil values'],
    'trusted_base': ['model: coq/Model/LgreModel.v is a hand transcription of layers/gre.go:17-237 of the repaired tree, checksum.go:36-59'],
    'explanation': 'Per-layer theorems C19/C05/C06/C07/C01 about the Gallina model of the GRE codec; the correspondence run ties the '
                   'model to the Go code on every observable.',
}
