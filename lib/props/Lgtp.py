"""Lgtp (GTPv1-U codec sub-check: C19, C05, C06, C07, C01) configuration for ./check"""
CONF = {
    'interesting': ['truncated-prefix-of-valid', 'flags-every-value', 'ext-length-extreme', 'e-flag-next-type-0', 'length-extreme', 'extension-headers',
                    'error-after-fields-set', 'residue-after-error', 'error-residue', 'dirty-buffer', 'no-fixlengths', 'odd-payload', 'roundtrip',
                    'field-extreme', 'serialize-error', 'out-of-domain', 'decode-error', 'malformed'],
    'rule': 'GTPv1-U messages built field by field: every first octet; E/S/PN flag combinations with 0..3 extension headers of 2,6,10 content octets; '
            'extension length octet 0,1,right,3,255; E flag with next extension header type 0; message length short/long by 1,2,8,1000; messages cut at '
            '8..13 octets with a consistent length; payloads starting with an IPv4/IPv6/other nibble (NextLayerType); every truncation; decoded into fresh '
            'and reused objects (first packet with all flags and two extension headers); serialized under all option/buffer combinations (three kinds of '
            'PrependBytes regions) and round-tripped; field-built layers (version 8/255, protocol type 0, sequence number without flag, extension '
            'headers of type 0 or content lengths 0,1,3,4,1018,1022); GTP packets of layers/*_test.go; a malformed stream.',
    'shrink_keep_first': 0,
    'assumptions': ['Go slice/copy/append semantics as modelled (slices checked against len, stricter than cap)',
                    'gopacket.LayerString/LayerDump/LayerGoString total on non-nil layers (reflective); GTPv1U has no String method or flow accessor'],
    'trusted_base': ['model: coq/Model/LgtpModel.v is a hand transcription of layers/gtp.go:47-198 as repaired'],
    'explanation': 'Theorems over all byte strings / layer values about the Gallina model of the GTPv1-U codec; correspondence ties it to layers/gtp.go.',
}
