"""Lerspan2 (ERSPAN type II header codec sub-check: C19, C05, C06, C07, C01) configuration for ./check"""
CONF = {
    'interesting': ['truncated-prefix-of-valid', 'octet-every-value', 'decode-error', 'malformed', 'residue-after-error', 'error-residue', 'dirty-buffer', 'no-fixlengths', 'odd-payload', 'roundtrip', 'field-extreme', 'out-of-domain'],
    'rule': 'ERSPAN II headers: every value of the octets holding the sub-octet fields (0, 2, 4, 5), all-zero/all-ones, every truncation 0..9, decoded into fresh and reused objects, serialized under all option/buffer combinations and round-tripped; field-built layers with every field at and one over its bit width; a malformed stream.',
    'shrink_keep_first': 0,
    'assumptions': ['Go slice semantics as modelled (slices checked against len, stricter than cap)',
                    'gopacket.LayerString/LayerDump/LayerGoString total on non-nil layers (reflective)', 'EthernetType/next layer constant (LayerTypeEthernet)'],
    'trusted_base': ['model: coq/Model/Lerspan2Model.v is a hand transcription of layers/erspan2.go:36-86'],
    'explanation': 'Theorems over all byte strings / layer values about the Gallina model of the ERSPAN type II header codec; correspondence ties it to layers/erspan2.go.',
}
