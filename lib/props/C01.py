"""C01: composite of sub-checks (DESIGN.md section 2 'Sub-checks')"""
import os, sys
sys.path.insert(0, os.path.join(os.path.dirname(os.path.abspath(__file__)), '..'))
from layerset import LAYERS, SWEEP, have

CONF = {
    'components': ['C01core'] + LAYERS + SWEEP,
    'theorem_prefix': 'C01_',
    'clause_prefix': 'C01:',
    'parallel': 5,
    'rule': 'C01core: scripted decoder families (actions, terminators, panics at any point) through the real packet builder under all option sets and accessor programs; per layer: renderers and flows on every state decoding can leave; Sweep: every registered layer type as first decoder x option sets x all read-only calls (testing).',
    'explanation': 'C01_total / C01_error_discipline for ALL decoder families of the tail-call shape (source facts F1, F2, F6 re-extracted every run) + C01_<layer>_render_total per modelled layer; the other ~150 layers renderers are covered by the Sweep only (testing).',
    'assumptions': [],
}
