"""Lasfpong (ASF presence pong codec sub-check: C19, C05, C06, C07, C01) configuration for ./check"""
CONF = {
    'coq_sample': 10,   # cases re-evaluated inside Coq by vm_compute against the extracted runner's output
    'interesting': ['truncated-prefix-of-valid', 'octet-every-value', 'decode-error', 'malformed', 'residue-after-error', 'error-residue', 'dirty-buffer', 'no-fixlengths', 'odd-payload', 'roundtrip', 'field-extreme', 'dcmi', 'seed'],
    'rule': 'ASF presence pong messages: every value of octets 8 (entities), 9 (interactions), 10 and 15 (reserved), the DCMI/ASF enterprise numbers, all-zero/all-ones, every truncation 0..17 (also against a reused object with every field set), decoded into fresh and reused objects, serialized under all option/buffer combinations and round-tripped; field-built layers with extreme fields and all 16 flag combinations; presence pong literals of layers/*_test.go; a malformed stream.',
    'shrink_keep_first': 0,
    'assumptions': ['Go slice semantics as modelled (slices checked against len, stricter than cap)',
                    'gopacket.LayerString/LayerDump/LayerGoString total on non-nil layers (reflective); SupportsDCMI and CanDecode exercised on every decoded value',
                    'OEM is a [4]byte array (four octet fields in the model); the reserved octets 10..15 and the unassigned bits of octets 8 and 9 are not kept by the decoder (written as 0): the round trip is on fields, not on octets'],
    'trusted_base': ['model: coq/Model/LasfpongModel.v is a hand transcription of layers/asf_presencepong.go:112-183'],
    'explanation': 'Theorems over all byte strings / layer values about the Gallina model of the ASF presence pong codec; correspondence ties it to layers/asf_presencepong.go.',
}
