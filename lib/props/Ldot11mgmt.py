"""Ldot11mgmt (802.11 management bodies and information elements sub-check: C19, C05, C06, C07, C01) configuration for ./check"""
CONF = {
    'interesting': ['truncated-prefix-of-valid', 'option-length-extreme', 'consistent-length-cut', 'element-walk', 'max-options', 'residue-options',
                    'vendor-element', 'extension-element', 'error-after-add', 'error-after-fields-set', 'residue-after-error', 'error-residue',
                    'dirty-buffer', 'no-fixlengths', 'odd-payload', 'roundtrip', 'field-extreme', 'serialize-error', 'out-of-domain', 'malformed', 'seed'],
    'rule': 'Information elements built by the harness: ordinary, vendor (221) and extension (255) IDs with the length field 0..6, 254, 255 against '
            'one octet less / exact / one and seven more present (the element ends at every internal boundary: after ID, length, OUI, extension ID); '
            'decoded into fresh and reused objects (first element vendor or extension, so OUI/ExtensionID are set), serialized from decoded values, '
            'error residues and field-built values (OUI of 0,3,4,5 octets, Info up to 300 octets, extension ID on other IDs) and round-tripped. '
            'The eight bodies with fixed parts (association request/response, reassociation request, probe response, beacon, disassociation, '
            'authentication, deauthentication): every truncation, reuse, serialization (reassociation address of 0,1,5,7,8 octets), round trip. '
            'The element walk: each body followed by 0..5 elements decoded as a packet from the body\'s layer type; the list cut at every length; '
            'the last element\'s declared length 0..6 against 0..6 octets present, with and without a further element behind it (consistent-length '
            'cuts); 200 empty elements; the beacon bodies of the test-file literals; a malformed stream.',
    'shrink_keep_first': 1,
    'assumptions': ['Go slice/copy/append semantics as modelled (slices checked against len, stricter than cap)',
                    'gopacket.LayerString/LayerDump/LayerGoString total on non-nil layers (reflective); Dot11InformationElement.String indexes Info only below len(Info)',
                    'the packet decoding loop (decodingLayerDecoder, eagerPacket.NextDecoder: stop on empty payload) as modelled by ie_walk; it is the subject of C01/C03',
                    'a body value is represented by the little-endian octets of its fields (bijection done by the harness)'],
    'trusted_base': ['model: coq/Model/Ldot11mgmtModel.v is a hand transcription of layers/dot11.go Dot11InformationElement and the Dot11Mgmt* bodies with fixed parts as repaired by the fix: commits of agent-fixer and agent-ldot11'],
    'explanation': 'Theorems over all byte strings / values about the Gallina model of the management bodies and the information element: decoders (no panic, fuel bound of the element walk, fresh = reused) and serializers (explicit output, hence no panic and junk freedom; round trip of the element and of the bodies) all proved; correspondence ties the model to layers/dot11.go. Bodies without fields (ReassociationResp, ProbeReq, MeasurementPilot, ATIM, Action, ActionNoAck, ArubaWLAN) only store Contents and are not modelled.',
    'mutations_tried': ['drop the OUI/ExtensionID reset (caught)', 'drop checkOffsetLength of vendor elements (caught)', 'extension element Info starts at the extension ID (caught)', 'AssociationResp payload starts at octet 4 (caught)', 'ProbeResp.SerializeTo does not write Flags (caught)', 'element length check off by one (caught)'],
}
