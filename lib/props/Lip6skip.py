"""Lip6skip (IPv6ExtensionSkipper DecodingLayer sub-check: C19, C05; C06/C07/C01 n/a) configuration for ./check"""
CONF = {
    'coq_sample': 10,   # cases re-evaluated inside Coq by vm_compute against the extracted runner's output
    'interesting': ['truncated-prefix-of-valid', 'length-extreme', 'next-header-every-value', 'long-extension', 'residue-after-error', 'decode-error', 'malformed'],
    'rule': 'IPv6 extension headers built octet by octet: header length octet 0,1,2,5,30,31,254,255 with exactly, one fewer and one more octets than it '
            'announces; every next-header value 0..255; every truncation; decoded into fresh and reused objects; a malformed stream.',
    'shrink_keep_first': 0,
    'assumptions': ['Go slice semantics as modelled (slices checked against len, stricter than cap)',
                    'IPProtocol.LayerType() is a table lookup (abstract: the next-layer id is the protocol number)',
                    'IPv6ExtensionSkipper is a DecodingLayer only (no LayerType, SerializeTo or renderers of its own): C06, C07, C01 do not apply; '
                    'the harness wraps it in a type with a LayerType method'],
    'trusted_base': ['model: coq/Model/Lip6skipModel.v is a hand transcription of layers/ip6.go:453-496'],
    'explanation': 'Theorems over all byte strings about the Gallina model of IPv6ExtensionSkipper; correspondence ties it to layers/ip6.go.',
}
