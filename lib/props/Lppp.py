"""Lppp (PPP codec sub-check: C19, C06, C07, C01; C05 n/a) configuration for ./check"""
CONF = {
    'interesting': ['truncated-prefix-of-valid', 'type-every-value', 'prefix-boundary', 'address-control-prefix', 'one-octet-type',
                    'invalid-type-or-short', 'decode-error', 'error-residue', 'dirty-buffer', 'no-fixlengths', 'odd-payload', 'roundtrip',
                    'field-extreme', 'out-of-domain', 'malformed'],
    'rule': 'PPP frames with and without the ff 03 prefix: every first type octet with an odd / even / missing second octet; one- and two-octet '
            'protocol numbers; prefix boundary strings (ff, ff03, ff0300, ff03ff03, ...); every truncation; decoded through the registered decoder '
            'on a recording PacketBuilder (class, truncation flag, fields, link layer set, next decoder); serialized under all option/buffer '
            'combinations (two PrependBytes regions) and round-tripped; field-built layers with types 0, 0x100, 0x121, 0xff03, 0xffff; PPP payloads of '
            'the PPPoE frames of layers/*_test.go; a malformed stream.',
    'shrink_keep_first': 0,
    'assumptions': ['Go slice/copy semantics as modelled (slices checked against len, stricter than cap)',
                    'gopacket.LayerString/LayerDump/LayerGoString total on non-nil layers (reflective); PPP has no String method; LinkFlow returns a package constant',
                    'PPP has no DecodeFromBytes: decodePPP allocates the layer, C05 (reused object) does not apply'],
    'trusted_base': ['model: coq/Model/LpppModel.v is a hand transcription of layers/ppp.go:37-97 (with the length checks of the earlier PPP repair)'],
    'explanation': 'Theorems over all byte strings / layer values about the Gallina model of the PPP codec; correspondence ties it to layers/ppp.go.',
}
