"""Lcdpinfo (CiscoDiscoveryInfo: typed interpretation of the CDP TLVs; decoder sub-check: C19, C01; C05/C06/C07 n/a) configuration for ./check"""
CONF = {
    'coq_sample': 10,   # cases re-evaluated inside Coq by vm_compute against the extracted runner's output
    'interesting': ['truncated-prefix-of-valid', 'consistent-cut', 'type-every-value', 'prefix-length-extreme', 'count-extreme', 'option-length-extreme',
                    'value-length-extreme', 'residue-options', 'error-after-add', 'residue-after-error', 'several-addresses', 'power-values',
                    'energywise-inner', 'decode-error', 'malformed', 'seed'],
    'rule': 'TLV lists with 0..8 TLVs of every known and some unknown types with valid typed values; every truncation up to 40 and a sparse set beyond; consistent-length cuts: each typed value cut at every internal octet boundary with the TLV length rewritten, as last TLV and followed by another; every type 0..39 with value lengths 0..4; IP prefix: every prefix-length octet, value lengths 0..16; address TLVs: count 0,1..5,2^31-1,2^31,2^32-1,2^29, protocol type 0..3 x protocol length 0..10, address length 0,1,3,4,5,15,16,17, one less/equal/one more than what is left, 255,256,65535, second entry cut everywhere; power TLVs with value lengths 0..13 last and not last; EnergyWise outer length 0,1,exact-1,exact,exact+1,65535 x count 0..4,65535, inner length 0,1,rest-1,rest,rest+1,2^31-1,2^31,2^32-1 for each inner type; outer TLV length field against what is left; all types in one packet followed by an error; CDP packet literals of layers/*_test.go; a malformed stream.',
    'shrink_keep_first': 0,
    'assumptions': ['Go slice semantics as modelled (slices checked against len, stricter than cap); the harness decodes a copy whose capacity equals its length',
                    'gopacket.LayerString/LayerDump/LayerGoString total on non-nil layers (reflective); CDPTLVType.String, net.IP.String, net.IPNet.String, net.HardwareAddr.String exercised on every decoded value',
                    'net.ParseCIDR("a.b.c.d/m") of %d-printed octets fails exactly when m > 32 and yields the masked 4-octet address (tested on every m)',
                    'CiscoDiscoveryInfo has only a decoder function (a new layer per call: C05 n/a) and no SerializeTo (C06/C07 n/a)',
                    'fuel: exhaustion of the three loops of this model is a Panic (99), excluded by C19_cdpinfo_no_panic; the TLV walk LcdpModel.cdp_loop gives the same result for every fuel above len (C19_cdpinfo_walk_fuel)'],
    'trusted_base': ['model: coq/Model/LcdpinfoModel.v is a hand transcription of layers/cdp.go:274-516, 534-590, 700-705 (and LcdpModel.cdp_loop of :250-272)'],
    'explanation': 'Theorems over all byte strings about the Gallina model of decodeCiscoDiscoveryInfo (TLV walk, the switch over 25 TLV types, decodeAddresses, the IP prefix, power and EnergyWise loops); the layer is the ordered log of field assignments; correspondence ties it to layers/cdp.go. The code before the two repairs (nil IPNet dereference, power-value slice past the TLV) is ci_decode_orig with refuted witnesses.',
}
