"""C06: composite of sub-checks (DESIGN.md section 2 'Sub-checks')"""
import os, sys
sys.path.insert(0, os.path.join(os.path.dirname(os.path.abspath(__file__)), '..'))
from layerset import LAYERS, SWEEP, have

CONF = {
    'components': LAYERS + SWEEP,
    'theorem_prefix': 'C06_',
    'clause_prefix': 'C06:',
    'parallel': 5,
    'rule': 'Per modelled layer: decode-derived and field-built layer values x payloads (empty, odd, large) serialized with FixLengths+ComputeChecksums and decoded again; fixpoint re-serialization. Sweep: every serializable+decodable type (testing).',
    'explanation': 'C06_<layer>_roundtrip / _fixpoint theorems over all well-formed layer values (well-formedness is a boolean predicate proved to hold for every decoded value where stated); exceptions are refuted theorems + known findings (IPv4 Padding, MPTCP options).',
    'assumptions': [],
}
