"""Lvrrp (VRRPv2 decoder sub-check: C19, C05, C01; C06/C07 n/a) configuration for ./check"""
CONF = {
    'interesting': ['truncated-prefix-of-valid', 'length-extreme', 'type-every-value', 'error-after-fields-set', 'trailing-auth-data', 'max-addresses',
                    'residue-after-error', 'decode-error', 'malformed'],
    'rule': 'VRRP packets built field by field: every version/type byte, address count 0,1,2,63,64,254,255 with the bytes present one less / exact / '
            'one more / eight more (authentication data) than the count announces, every truncation; decoded into fresh objects and into an object '
            'holding three addresses from a previous packet (the error returns leave them next to new header fields); VRRP packets of layers/*_test.go; a malformed stream.',
    'shrink_keep_first': 0,
    'assumptions': ['Go slice/append semantics as modelled (slices checked against len, stricter than cap)',
                    'gopacket.LayerString/LayerDump/LayerGoString total on non-nil layers (reflective); VRRPv2Type/VRRPv2AuthType String are switches with a default',
                    'VRRPv2 has no SerializeTo: C06 and C07 do not apply'],
    'trusted_base': ['model: coq/Model/LvrrpModel.v is a hand transcription of layers/vrrp.go:93-157'],
    'explanation': 'Theorems over all byte strings about the Gallina model of the VRRPv2 decoder; correspondence ties it to layers/vrrp.go.',
}
