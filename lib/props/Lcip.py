"""Lcip (CIP decoder sub-check: C19, C05, C01; C06 and C07 do not apply) configuration for ./check"""
CONF = {
    'coq_sample': 12,   # cases re-evaluated inside Coq by vm_compute against the extracted runner's output
    'interesting': ['truncated-prefix-of-valid', 'segment-shape', 'path-size-extreme', 'additional-status-extreme', 'request', 'response', 'additional-status',
                    'no-data', 'error-after-fields-set', 'residue-after-error', 'decode-error', 'malformed'],
    'rule': 'Requests built by the harness with every class-segment shape (8-bit, 16-bit, each cut after every octet, other type, none) x every instance-segment '
            'shape x path size 0,1,2,3,exact,127,128,255 x 0/1/5 data octets (the request ends exactly after each segment octet); path size 127 with 255,256,257 '
            'octets present; responses with additional-status size 0,1,2,3,127,128,255 against 0..3 words present, with and without a trailing octet; size 255 '
            'with 509,510,511 octets; every truncation; a malformed stream; all decoded into fresh and reused objects, the first packet of a pair leaving '
            'ClassID/InstanceID/Data (request) or Status/AdditionalStatus/Data (response) behind, and the reverse order.',
    'assumptions': ['Go slice/copy/append/make semantics as modelled (slices checked against len, stricter than cap)',
                    'gopacket.LayerString/LayerDump/LayerGoString total on non-nil layers (reflective)'],
    'trusted_base': ['model: coq/Model/LenipModel.v is a hand transcription of layers/cip.go:255-397'],
    'not_applicable': ['C06, C07: CIP has no SerializeTo'],
    'explanation': 'Theorems over all byte strings about the Gallina model of CIP.DecodeFromBytes; correspondence ties it to layers/cip.go.',
}
