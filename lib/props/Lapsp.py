"""Lapsp (Andromeda PSP header codec sub-check: C19, C05, C06, C07, C01) configuration for ./check"""
CONF = {
    'coq_sample': 10,   # cases re-evaluated inside Coq by vm_compute against the extracted runner's output
    'interesting': ['truncated-prefix-of-valid', 'registered-decoder', 'field-byte-extreme', 'length-extreme', 'empty-payload', 'field-extreme', 'roundtrip', 'dirty-buffer',
                    'no-fixlengths', 'odd-payload', 'error-residue', 'residue-after-error', 'decode-error', 'malformed', 'seed'],
    'rule': 'APSP headers built field by field (fields random, all ones, all zero); each of the 40 header octets forced to 0x00, 0x80, 0xff in turn; '
            'inputs of 36..44 octets around the 40-octet bound; every truncation 0..41; decoded into fresh and reused objects; serialized under all '
            'option/buffer combinations and round-tripped; field-built layers with 0, 1, 2^32-1, 2^32, 2^63, 2^64-1 in the 32/64-bit fields; the '
            'APSP packet of layers/apsp_test.go (hex literal, UDP port 1000); a malformed stream.',
    'shrink_keep_first': 0,
    'assumptions': ['Go slice/copy semantics as modelled (slices checked against len, stricter than cap)',
                    'gopacket.LayerString/LayerDump/LayerGoString total on non-nil layers (reflective); APSP has no String method or flow accessor'],
    'trusted_base': ['model: coq/Model/LapspModel.v is a hand transcription of layers/apsp.go:54-112'],
    'explanation': 'Theorems over all byte strings / layer values about the Gallina model of the APSP header codec; correspondence ties it to layers/apsp.go.',
}
