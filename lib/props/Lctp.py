"""Lctp (EthernetCTP decoder chain sub-check: C19, C01; C05/C06/C07 n/a) configuration for ./check"""
CONF = {
    'coq_sample': 10,   # cases re-evaluated inside Coq by vm_compute against the extracted runner's output
    'interesting': ['truncated-prefix-of-valid', 'skip-extreme', 'function-every-value', 'forward-data-layers', 'reply-layer', 'long-chain',
                    'chain-ends-on-empty-payload', 'error-after-add', 'decode-error', 'malformed', 'seed'],
    'rule': 'EthernetCTP frames built octet by octet: skip count 0,1,2,3,255..257,65534,65535 (odd counts are rejected); 0..6 forward-data layers '
            '(also 10, 50, 180) followed by a reply with 0,1,8,40 data octets, a bare reply header, nothing, or an unknown function; every function low '
            'octet 0..255 with high octet 0 and 1 and 0..12 following octets; every truncation of chains with 0..4 forward-data layers; loopback '
            '(EtherType 0x9000) frames of layers/*_test.go; a malformed stream.  The registered decoder runs on a recording PacketBuilder and the '
            'chain is continued as the eager packet does.',
    'shrink_keep_first': 0,
    'assumptions': ['Go slice semantics as modelled (slices checked against len, stricter than cap)',
                    'gopacket.LayerString/LayerDump/LayerGoString total on non-nil layers (reflective)',
                    'packet.go NextDecoder semantics as modelled: the next decoder runs on LayerPayload() of the last layer; nothing happens when it is empty',
                    'the CTP layers have no DecodeFromBytes (new objects per decode: C05 does not apply) and no SerializeTo (C06, C07 do not apply)'],
    'trusted_base': ['model: coq/Model/LctpModel.v is a hand transcription of layers/ctp.go:74-127 as repaired'],
    'explanation': 'Theorems over all byte strings about the Gallina model of the EthernetCTP decoder chain; correspondence ties it to layers/ctp.go.',
}
