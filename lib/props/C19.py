"""C19: composite of sub-checks (DESIGN.md section 2 'Sub-checks')"""
import os, sys
sys.path.insert(0, os.path.join(os.path.dirname(os.path.abspath(__file__)), '..'))
from layerset import LAYERS, SWEEP, have

CONF = {
    'components': LAYERS + SWEEP,
    'theorem_prefix': 'C19_',
    'clause_prefix': 'C19:',
    'parallel': 5,
    'rule': 'Per modelled layer: valid headers built field by field, every truncation length, every length/offset/type field forced to its extremes, option lists, packet literals of layers/*_test.go, a malformed stream - DecodeFromBytes on fresh and reused objects, compared with the Coq decoder model (outcome class ok/err/panic, fields). Sweep component (testing, no model): every registered decoder / DecodingLayer over seeds from the working tree, all truncations and byte forcings, with and without panic recovery.',
    'explanation': 'C19_<layer>_no_panic theorems: for EVERY byte string (and every prior state of the receiver) the modelled decoder has no Panic outcome and its loops terminate; tied to the Go decoders by the per-layer correspondence. Layers that are not hand-modelled are covered by the Sweep component only, which is testing, not proof.',
    'assumptions': [],
}
