"""Lenip (EtherNet/IP decoder sub-check: C19, C05, C01; C06 and C07 do not apply) configuration for ./check"""
CONF = {
    'coq_sample': 12,   # cases re-evaluated inside Coq by vm_compute against the extracted runner's output
    'interesting': ['truncated-prefix-of-valid', 'item-count-extreme', 'consistent-length-cut', 'item-length-extreme', 'unknown-item', 'next-layer',
                    'register-session', 'send-data', 'next-cip', 'other-command', 'error-after-fields-set', 'residue-after-error', 'decode-error', 'malformed', 'seed'],
    'rule': 'Encapsulation packets built field by field by the harness: RegisterSession, SendRRData / SendUnitData with 0..3 common-packet-format items of every '
            'known type id, other commands; every truncation; item count 0..7,255,256,65535 against five items present; consistent-length cuts: the data ends '
            'exactly at every octet of the item list (after each id, length, item) for item counts 1,3,5,6; connected-data item length 0,1,4,5,6,7,100,0xfffb,'
            '0xfffc,0xffff with and without bytes after it; unknown item ids; interface handle 0/non-zero (next layer CIP or payload); a malformed stream; '
            'all decoded into fresh and reused objects (after a SendRRData packet that leaves CommandSpecific.Data, Contents and Payload behind).',
    'assumptions': ['Go slice/copy/append/make semantics as modelled (slices checked against len, stricter than cap)',
                    'gopacket.LayerString/LayerDump/LayerGoString total on non-nil layers (reflective)'],
    'trusted_base': ['model: coq/Model/LenipModel.v is a hand transcription of layers/enip.go:151-288'],
    'not_applicable': ['C06, C07: ENIP has no SerializeTo'],
    'explanation': 'Theorems over all byte strings about the Gallina model of ENIP.DecodeFromBytes; correspondence ties it to layers/enip.go.',
}
