"""Lcdp (CiscoDiscovery header + raw TLV list decoder sub-check: C19, C01; C05/C06/C07 n/a; CiscoDiscoveryInfo: sub-check Lcdpinfo) configuration for ./check"""
CONF = {
    'interesting': ['truncated-prefix-of-valid', 'octet-every-value', 'value-length-extreme', 'value-header-cut', 'several-values', 'decode-error', 'malformed'],
    'rule': 'CDP messages with 0..8 TLVs of 0..40 value octets; every version octet; the last TLV\'s length 0,1,3,4,5, one less/equal/one more than what is left, 255,256,65535 (also exactly fitting 65535); a TLV header cut after 0..4 octets; every truncation up to 40 and a sparse set beyond; a malformed stream.',
    'shrink_keep_first': 0,
    'assumptions': ['Go slice semantics as modelled (slices checked against len, stricter than cap)',
                    'gopacket.LayerString/LayerDump/LayerGoString total on non-nil layers (reflective); CDPTLVType.String exercised on every decoded value',
                    'CiscoDiscovery has only a decoder function (a new layer per call: C05 n/a) and no SerializeTo (C06/C07 n/a)',
                    'the CiscoDiscoveryInfo layer (decodeCiscoDiscoveryInfo, the typed interpretation of the TLVs) that is decoded next is the sub-check Lcdpinfo; the harness of this one stops after the CiscoDiscovery layer'],
    'trusted_base': ['model: coq/Model/LcdpModel.v is a hand transcription of layers/cdp.go:221-272'],
    'explanation': 'Theorems over all byte strings about the Gallina model of the CiscoDiscovery decoder (TLV loop by recursion on fuel len+1); correspondence ties it to layers/cdp.go.',
}
