"""Ldot1q (802.1Q codec sub-check: C19, C05, C06, C07, C01) configuration for ./check"""
CONF = {
    'coq_sample': 15,   # cases re-evaluated inside Coq by vm_compute against the extracted runner's output
    'interesting': ['truncated-prefix-of-valid', 'drop-eligible', 'residue-flags', 'dirty-buffer', 'no-fixlengths',
                    'odd-payload', 'roundtrip', 'field-extreme'],
    'rule': 'All 256 values of the first tag byte (priority, drop-eligible, VLAN high nibble) with boundary low bytes; random tags with '
            'boundary types, decoded, serialized under all option/buffer combinations and round-tripped; every truncation length 0..5; '
            'ordered pairs into one object; field-built layers (priority 0..255, VLAN id 0,1,4094,4095,4096,65535); 802.1Q tags of the '
            'packet literals of layers/*_test.go; a malformed stream.',
    'shrink_keep_first': 0,
    'assumptions': ['Go slice/copy semantics as modelled', 'EthernetType.LayerType table abstract',
                    'gopacket.LayerString/LayerDump/LayerGoString total on non-nil layers (reflective)'],
    'trusted_base': ['model: coq/Model/Ldot1qModel.v is a hand transcription of layers/dot1q.go:30-77'],
    'explanation': 'Theorems over all byte strings / layer values about the Gallina model of the 802.1Q codec; correspondence ties it to layers/dot1q.go.',
}
