"""C01core configuration for ./check (framework half of C01: totality and error-layer
discipline of the packet builder for all decoders)"""
import os, sys
sys.path.insert(0, os.path.join(os.path.dirname(os.path.abspath(__file__)), '..'))
from pcore_facts import facts_hook

CONF = {
    'coq_sample': 12,   # cases re-evaluated inside Coq by vm_compute against the extracted runner's output
    'interesting': ['error-after-add', 'panic-after-add', 'nested', 'multi-layer-decoder', 'accessor-after-error',
                    'accessor-stops-early', 'class-lookup', 'set-error-layer'],
    'rule': ('Scripted decoder families (see C03) with errors and panics at every point of a decoder, on the REAL packet.go builder '
             'and on the extracted Coq model, every eighth family under all 16 combinations of Lazy/NoCopy/Pool/'
             'DecodeStreamsAsDatagrams (recovery on), inputs including empty and 1499/1500/1501 bytes; compared: NewPacket outcome, '
             'data origin, accessor results, final layers / truncated / kind pointers / error layer. Oracle C01:error-discipline on the '
             'implementation: "some decoder failed or panicked" is known from instrumented decoders; failed <=> ErrorLayer != nil, the '
             'error layer is a DecodeFailure, is last, no other DecodeFailure (families calling SetErrorLayer: only the unconditional half); '
             'C01:total: no panic out of NewPacket or an accessor. The same oracle on real stacks (layers/*_test.go literals whole, '
             'truncated, mutated; eager and lazy after Layers()), without instrumentation. Real-stack cases have no model side (tag impl-only).'),
    'shrink_keep_first': 3,
    'pre': [facts_hook],
    'assumptions': [
        'decoders have the shape data -> options -> (PacketBuilder calls, terminator) (source facts F1/F1b)',
        'C01_total: progress hypothesis - a decoder that continues has added a layer whose payload is strictly shorter than its input, or empty (the framework itself has no recursion bound); recursion depth <= |data|+1',
        'C01_error_discipline: no decoder calls SetErrorLayer (F2: exactly one does, decodeSCTPChunkTypeUnknown - known finding) and none constructs a DecodeFailure (F8)',
        'no recover() inside layers/ (F3)',
        'recovery on (SkipDecodeRecovery=false)',
    ],
    'trusted_base': [
        'model: coq/Model/PacketCore.v is a hand transcription of packet.go:131-260,494-671,725-769 and layertype.go:87-98; coq/Model/PacketScript.v interprets the scripts',
        'harness/facts (go/ast) source-fact extractor and its expected table lib/pcore_facts.py',
    ],
    'explanation': ('C01_total / C01_total_lazy / C01_total_new_packet: for every decoder family with the progress property and recovery on, '
                    'NewPacket returns and every accessor program terminates without panic. C01_error_discipline(+_lazy): without SetErrorLayer, '
                    'failed <=> ErrorLayer != nil, and then it is the last layer, a DecodeFailure and the only one. C01_seterror_refuted: with a '
                    'decoder that sets the error layer and continues (SCTP unknown chunk) the discipline fails - witness in the model and a real packet in corpus/.'),
}
