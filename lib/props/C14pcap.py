"""C14pcap (sub-check of C14: classic pcap writer/reader) configuration for ./check"""
CONF = {
    'coq_sample': 8,   # cases re-evaluated inside Coq by vm_compute against the extracted runner's output
    'interesting': ['cut-in-header', 'cut-in-data', 'cut-at-boundary', 'nano', 'big-endian', 'zero-copy'],
    'rule': 'Files of 0..8 (small) or up to ~4000 (large) packets with boundary data lengths, timestamps, snap lengths and link types, micro/nanosecond, written by pcapgo.Writer or built by hand in either byte order; files <= 4 KiB are read at EVERY truncation offset, larger ones at offsets 0..26, around record boundaries and at random offsets; ReadPacketData and ZeroCopyReadPacketData alternate. Written bytes, header, every read result and per cut (packets returned, final error class, prefix-of-full-read flag) are compared with the model; the round-trip / true-prefix oracle runs on the implementation for cases inside the hypotheses. Support oracle (testing only, not modelled): whole files with 1<=snaplen<=262144 are also read through libpcap (pcap.OpenOffline, cgo) and must give the same packets (seconds compared mod 2^32: libpcap 1.10 reads tv_sec as signed).',
    'shrink_keep_first': 1,
    'assumptions': ['64-bit Go int (int(uint32) is non-negative)',
                    'bufio.Reader.Peek / io.ReadFull behave as specified: results depend only on the bytes before the first failing read',
                    'the io.Writer given to pcapgo.Writer accepts every write (bytes.Buffer)',
                    'timestamps handed to the writer are not the zero time (time.Now() is outside the model)',
                    'libpcap is outside any model: the C14:libpcap clause is support only'],
    'trusted_base': ['model: coq/Model/PcapModel.v is a hand transcription of pcapgo/write.go:80-129 and pcapgo/read.go:73-177'],
    'explanation': 'C14_pcap_roundtrip and C14_pcap_prefix are proved for every packet list and every cut offset (and every chunking of the file); the correspondence run ties the model to write.go/read.go.',
}
