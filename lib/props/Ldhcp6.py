"""Ldhcp6 (DHCPv6 message and option codec sub-check: C19, C05, C06, C07, C01) configuration for ./check"""
CONF = {
    'interesting': ['truncated-prefix-of-valid', 'option-length-extreme', 'option-header-cut', 'requested-options', 'odd-requested-options-at-end', 'relay-message', 'relay-boundary',
                    'option-end-over-16-bits', 'error-after-options-appended', 'error-after-fields-set', 'roundtrip-no-payload',
                    'decode-error', 'malformed', 'residue-after-error', 'error-residue', 'dirty-buffer', 'no-fixlengths', 'roundtrip', 'field-extreme', 'out-of-domain'],
    'rule': 'DHCPv6 client/server and relay messages with 0..6 options of 0..40 octets; the last option\'s length one less .. two more than what is left, 255, 256, 65531, 65532, 65535; an option header cut after 0..5 octets; requested-options options of length 0..5,9 last and not last; relay header boundary 33..35; messages of 64 KiB and more (4+Length over 16 bits); every truncation up to 40 and a sparse set beyond; decoded into fresh and reused objects (both message kinds); serialized under all option/buffer combinations; round trips without payload; field-built layers with the option Length field different from the data, 0/4/5/16/17-octet addresses, 0/2/3/4-octet transaction ids; a malformed stream.',
    'shrink_keep_first': 0,
    'assumptions': ['Go slice semantics as modelled (slices checked against len, stricter than cap): the harness decodes from slices whose capacity is their length',
                    'gopacket.LayerString/LayerDump/LayerGoString total on non-nil layers (reflective); Len, Options.String, every option\'s String and Code.String exercised on every decoded layer',
                    'the layer has no payload (every octet behind the header is options): round trips are made with an empty payload',
                    'C06_dhcp6_roundtrip is for well-formed messages (option Length = len(Data) < 65536, 16-octet relay addresses, 3-octet transaction id) without payload; the oracle also round-trips layers whose option Length differs from the data (FixLengths repairs them)',
                    'C07_dhcp6_no_panic assumes option Length fields are non-negative (uint16 in Go)'],
    'trusted_base': ['model: coq/Model/Ldhcp6Model.v is a hand transcription of layers/dhcpv6.go:86-188 and layers/dhcpv6_options.go:565-622'],
    'explanation': 'Theorems over all byte strings / layer values about the Gallina model of the DHCPv6 codec (option loop by recursion on fuel len+1); correspondence ties it to layers/dhcpv6.go.  Refuted for the code before the repairs: C19 (uint16 option end), C05 (header fields of the other message kind kept), C01 (odd requested-options String).',
}
