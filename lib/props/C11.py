"""C11 configuration for ./check"""
CONF = {
    'coq_sample': 15,   # cases re-evaluated inside Coq by vm_compute against the extracted runner's output
    'interesting': ['multi-page-packet', 'reopen-same-tuple', 'limit-hit', 'flush-by-age-partial', 'decline-removal', 'keep-from'],
    'rule': 'Multi-connection histories for both assemblers (half of the cases tcpassembly, half reassembly): 1-4 four-tuples x 2 '
            'directions, each direction a sender stream cut into segments (1-30 bytes, 500-1900, multi-page 1901-5900, page-boundary '
            'lengths), arrival order with bounded displacement, duplicates, overlapping retransmissions, lost segments, SYN (with and '
            'without data) / FIN / RST / none, re-opens of the same tuple with a new ISN, stray retransmissions after the close, ISNs at '
            'the wrap and the quarter boundaries, clocks that stall, advance and (a quarter of the cases) go backwards; limits none / '
            'per-connection {1,2,3,5} / total {1,2,4,8} / both; age flushes around the clock (CloseAll on/off; TC = T, earlier, zero) '
            'and FlushAll in the middle and at the end; for reassembly KeepFrom scripts (none, all, last k bytes, new data only, mixed) '
            'and streams that decline removal. After every call the callbacks per stream (New, one record per Reassembled/ReassembledSG, '
            'Complete with its return value), the flush return values, pages in use, live connections, free-list length and the page '
            'counters/list lengths of every connection (verif accessors) are compared with the extracted model; the Go oracle states the '
            'five clauses on the implementation.',
    'shrink_keep_first': 4,
    'assumptions': [
        'one Assembler on its own StreamPool, calls are sequential (concurrency is C12)',
        'Accept returns true and does not force start; the factory never returns nil',
        'byte contents are not modelled (lengths only; delivery of the right bytes is C09/C10)',
        'map iteration order of StreamPool.connections() is not observable (per-connection flushes are independent; callbacks of one call are compared per stream)',
        'Go int as unbounded Z; time.Time as Unix seconds',
    ],
    'trusted_base': ['model: coq/Model/C11TModel.v (tcpassembly/assembly.go:106-163,238-290,313-345,377-396,479-783), '
                     'coq/Model/C11RModel.v (reassembly/tcpassembly.go:66-78,320-347,640-760,752-887,930-1020,1022-1236,1265-1337; memory.go:25-67,88-209) '
                     'are hand transcriptions at the level of lengths (repaired tree; the unchanged tree is the variant origv)'],
    'explanation': 'tcpassembly (any history, pool of connections): C11_t_pages (used = pages queued in live connections, counters = queues), '
                   'C11_t_once (+ C11_once_*: log accepted by the lifecycle automaton = New first, data only while open, exactly one Complete, nothing after; '
                   'open streams = live connections), C11_t_flushall (pool empty, used = 0), C11_t_limit (repaired: after every call < limit per connection and < total limit in use), '
                   'C11_t_age (+untouched). reassembly (repaired model): C11_r_pages, C11_r_flushall (used = 0; remaining connections closed both ways with a stream that declined removal), '
                   'C11_r_once (panic-free histories). Refuted on the unchanged tree (witnesses replayed on the real code): C11_pages_orig_refuted, C11_hpages_orig_refuted, '
                   'C11_age_idle_orig_refuted, C11_limit_t_orig_refuted; C11_limit_r_refuted still holds of the repaired reassembly (known finding). '
                   'Round 2: C11_r_age / C11_r_age_untouched (age flush of the repaired reassembly), C11_r_limit_step / C11_r_limit / C11_r_limit_single_page '
                   '(the bound that holds of reassembly as it stands: limit - 1 + sum over the calls of (pages of the segment - 1); the property bound itself stays refuted, C11_limit_r_refuted), '
                   'C11_r_once_total (log accepted for every variant and every history, also when the model panics; open-stream characterisation while no call panicked).',
}
