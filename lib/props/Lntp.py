"""Lntp (NTP codec sub-check: C19, C05, C06, C07, C01) configuration for ./check"""
CONF = {
    'interesting': ['truncated-prefix-of-valid', 'first-byte-every-value', 'length-extreme', 'extension-bytes', 'residue-after-error', 'error-residue',
                    'dirty-buffer', 'no-fixlengths', 'odd-payload', 'roundtrip', 'field-extreme', 'out-of-domain', 'decode-error', 'malformed'],
    'rule': 'NTP headers: every first byte (leap/version/mode), every poll/precision byte (int8 boundaries), all-zero/all-ones timestamps, 0..33 '
            'extension octets, lengths 47/48/49 and every truncation; decoded into fresh and reused objects; serialized under all option/buffer '
            'combinations (48 prepended + len(ExtensionBytes) appended octets) with empty and non-empty payloads; round-tripped; field-built layers '
            '(leap 4/255, version/mode 8/255, poll/precision -128..127, 64-bit extremes); NTP packets of layers/*_test.go; a malformed stream.',
    'shrink_keep_first': 0,
    'assumptions': ['Go slice/copy semantics as modelled (slices checked against len, stricter than cap)',
                    'gopacket.LayerString/LayerDump/LayerGoString total on non-nil layers (reflective); NTP has no String method or flow accessor',
                    'C06 is about an NTP layer with nothing under it: the decoder keeps no payload and SerializeTo appends ExtensionBytes behind the buffer content'],
    'trusted_base': ['model: coq/Model/LntpModel.v is a hand transcription of layers/ntp.go:294-411'],
    'explanation': 'Theorems over all byte strings / layer values about the Gallina model of the NTP codec; correspondence ties it to layers/ntp.go.',
}
