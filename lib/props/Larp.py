"""Larp (ARP codec sub-check: C19, C05, C06, C07, C01) configuration for ./check"""
CONF = {
    'interesting': ['truncated-prefix-of-valid', 'length-extreme', 'zero-size-address', 'max-size-address', 'error-after-fields-set',
                    'residue-after-error', 'error-residue', 'dirty-buffer', 'no-fixlengths', 'odd-payload', 'roundtrip', 'field-extreme',
                    'serialize-error', 'out-of-domain', 'seed', 'malformed'],
    'rule': 'ARP packets built field by field by the harness with hardware/protocol address sizes 0,1,6,127,128,255 and random, cut at '
            'len-1/len/len+1 and at every prefix length; decoded, decoded into a reused object after a packet that leaves residue, serialized '
            'under all option/buffer combinations (also from error residues) and round-tripped; field-built layers with nil/empty/255/256/300-byte '
            'and mismatched addresses; ARP packet literals of layers/*_test.go; a malformed stream.',
    'shrink_keep_first': 0,
    'assumptions': ['Go slice/copy semantics as modelled (slices checked against len, stricter than cap)',
                    'gopacket.LayerString/LayerDump/LayerGoString total on non-nil layers (reflective); ARP has no String method or flow accessor'],
    'trusted_base': ['model: coq/Model/LarpModel.v is a hand transcription of layers/arp.go:43-116'],
    'explanation': 'Theorems over all byte strings / layer values about the Gallina model of the ARP codec; correspondence ties it to layers/arp.go.',
}
