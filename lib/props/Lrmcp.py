"""Lrmcp (RMCP header codec sub-check: C19, C05, C06, C07, C01) configuration for ./check"""
CONF = {
    'interesting': ['truncated-prefix-of-valid', 'octet-every-value', 'decode-error', 'malformed', 'residue-after-error', 'error-residue', 'dirty-buffer', 'no-fixlengths', 'odd-payload', 'roundtrip', 'field-extreme', 'out-of-domain'],
    'rule': 'RMCP headers: every value of octets 0 (version), 1 (reserved) and 3 (ack/class), all-zero/all-ones, every truncation 0..5, decoded into fresh and reused objects, serialized under all option/buffer combinations and round-tripped; field-built layers with classes 0,6,7,8,15 and (outside the domain of the round trip) 16,134,255; a malformed stream.',
    'shrink_keep_first': 0,
    'assumptions': ['Go slice semantics as modelled (slices checked against len, stricter than cap)',
                    'gopacket.LayerString/LayerDump/LayerGoString total on non-nil layers (reflective); RMCPClass.String and Payload exercised on every decoded layer',
                    'the reserved octet 1 and bits 4-6 of octet 3 are not kept by the decoder: the round trip is on fields, not on octets',
                    'a class above 15 (never produced by the decoder) indexes outside the 16-entry class table in NextLayerType/String: C01 is stated for decoded layers'],
    'trusted_base': ['model: coq/Model/LrmcpModel.v is a hand transcription of layers/rmcp.go:26-31,108-150'],
    'explanation': 'Theorems over all byte strings / layer values about the Gallina model of the RMCP header codec; correspondence ties it to layers/rmcp.go.',
}
