"""Lllc (LLC and SNAP codec sub-check: C19, C05, C06, C07, C01) configuration for ./check"""
CONF = {
    'interesting': ['truncated-prefix-of-valid', 'control-every-value', 'control-two-bytes', 'control-two-bytes-small', 'control-one-byte',
                    'error-after-fields-set', 'residue-after-error', 'error-residue', 'dirty-buffer', 'no-fixlengths', 'odd-payload',
                    'roundtrip', 'field-extreme', 'serialize-error', 'out-of-domain', 'seed', 'malformed', 'snap'],
    'rule': 'LLC: all 256 first control bytes x second byte 0/3/0xff (decoded, round-tripped, cut to 3 bytes, decoded into a reused object, '
            'serialized from the error residue); random headers with SNAP/STP/odd SAPs; field-built layers with odd SAPs and control 0..0xffff '
            'boundary values (0xff, 0x100, 0x103, 0x300, 0x3ff); 802.3 frames of layers/*_test.go.  SNAP: random headers, every truncation, '
            'field-built layers with nil/short/long OrganizationalCode, SNAP headers of the test packets.  All under every option/buffer combination; a malformed stream.',
    'shrink_keep_first': 1,
    'assumptions': ['Go slice/copy semantics as modelled (slices checked against len, stricter than cap)',
                    'gopacket.LayerString/LayerDump/LayerGoString total on non-nil layers (reflective); LLC and SNAP have no String method or flow accessor',
                    'EthernetType.LayerType table abstract (SNAP next = the type value)'],
    'trusted_base': ['model: coq/Model/LllcModel.v is a hand transcription of layers/llc.go:31-199 (as repaired by the two fix: commits of agent-lmisc)'],
    'explanation': 'Theorems over all byte strings / layer values about the Gallina models of the LLC and SNAP codecs; correspondence ties them to layers/llc.go.',
}
