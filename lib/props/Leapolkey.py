"""Leapolkey (EAPOL-Key frame codec sub-check: C19, C05, C06, C07, C01) configuration for ./check"""
CONF = {
    'coq_sample': 10,   # cases re-evaluated inside Coq by vm_compute against the extracted runner's output
    'interesting': ['truncated-prefix-of-valid', 'info-every-bit', 'key-data-length-extreme', 'residue-key-data', 'length-extreme', 'field-byte-extreme',
                    'encrypted-key-data', 'plain-key-data', 'error-after-fields-set', 'field-extreme', 'out-of-domain', 'roundtrip', 'dirty-buffer',
                    'no-fixlengths', 'odd-payload', 'error-residue', 'serialize-error', 'residue-after-error', 'decode-error', 'malformed', 'seed'],
    'rule': 'EAPOL-Key frames built field by field: every bit of the key information word alone, all and none, with and without key data; key data '
            'length 0,1,right,off by one,+5,255,256,65535 against 0,1,16 octets present, encrypted and not; inputs of 92..98 octets; the 64-bit fields '
            'all zero / all ones / 0x80..; every truncation 0..97; decoded into fresh and reused objects (first packet with encrypted key data); '
            'serialized under all option/buffer combinations and round-tripped; field-built layers (version/type/index beyond their bit fields, nonce/IV/MIC '
            'nil, short and long, key data length disagreeing with the key data); EAPOL frames of layers/*_test.go; a malformed stream.',
    'shrink_keep_first': 0,
    'assumptions': ['Go slice/copy semantics as modelled (slices checked against len, stricter than cap)',
                    'gopacket.LayerString/LayerDump/LayerGoString total on non-nil layers (reflective); the three enum String methods index nothing',
                    'SerializeTo: the zeroing loop and the field writes are modelled as one write of the assembled 95 + len(EncryptedKeyData) octets'],
    'trusted_base': ['model: coq/Model/LeapolkeyModel.v is a hand transcription of layers/eapol.go:176-304 as repaired'],
    'explanation': 'Theorems over all byte strings / layer values about the Gallina model of the EAPOL-Key codec; correspondence ties it to layers/eapol.go.',
}
