"""Sweep: implementation-side sweep for C01/C19/C06/C07 over every registered layer type, every
type with an in-place DecodeFromBytes and every SerializableLayer.  TESTING, not proof."""
CONF = {
    'no_proofs': True,          # no coq/Props/Sweep.v, no model, no runner: nothing here is proved
    'model_optional': True,
    'level': 'other',   # implementation-side sweep: testing only (no model, no theorem); 'other' is the schema's name for it
    'interesting': ['past-header', 'err-not-short', 'truncated-prefix-of-valid', 'option-length-extreme',
                    'nested-tunnel', 'error-after-add', 'panic-after-add', 'dirty-buffer', 'no-fixlengths'],
    # histogram-only tag: consistent-length-cut (cases of the consistent-length truncation/extension family)
    'rule': ('Exploration support only (no theorem): one case = one input for one registered layer type '
             '(`in:<layer type id>,<name>/<generator>,<option-set mask>,<hex>`). Domains are derived at run time: layer types by '
             'probing LayerType ids 0..4095 and cross-checking gopacket.DecodersByLayerName; Go types by a go/ast enumeration of '
             'the working tree validated against the constructor table (a missing type is reported as tie:missing-type). '
             'Seeds are read from the tree at run time: every constant []byte literal of layers/*_test.go, packets of the '
             'captures under layers/testdata and pcapgo/tests, the fuzz corpus; each seed is decoded with every registered '
             'first decoder and every layer found contributes (its type, contents++payload) as an input at the offset where '
             'that layer starts. Per input: whole (all 16 option sets), truncated at every length, each of the first 64 bytes '
             'forced to 00/01/7f/80/ff, length-like bytes/words pushed up and down, tails appended; consistent-length cuts/extensions (tag consistent-length-cut: the input cut by 1..8 and a few random lengths or extended by 1..8 bytes with every 1-4 byte BE/LE field in the first 64 bytes, or within 64 bytes of an inner layer start of the seed, that equalled the total length / length minus its offset / minus 0,4,8,12,20 rewritten to the new extent, and in two further variants also every inner TLV/AVP length field in the last 1 KiB whose end coincided with the end of the input; sampled in quick except cuts of 1..4 bytes, full in thorough); a literal of X_test.go that decodes cleanly as layer type X is a seed input for X even as a single layer; per decoder: every length '
             '0..128 all-zero/all-ff/incrementing/random, larger sizes; every seed whole as first layer of every decoder '
             '(sampled in quick). Each case runs DecodeFromBytes on fresh objects, NewPacket with SkipDecodeRecovery '
             '(eager/lazy x datagrams), DecodingLayerParser{IgnorePanic}, NewPacket with recovery for the option sets in the '
             'mask followed by every read-only call and the error-layer discipline, SerializeTo of every produced layer '
             '(4 option sets x fresh/dirty/pre-sized/again) and the C06 round trip dec(ser(l1))=l1 for l1=dec(ser(dec x)), '
             'b2=b1 (see harness/cmd/gpverif/sweep_props.go). Failures are identified by clause + site (top gopacket frame of '
             'the panic, or the Go type); per site the shortest failing input is minimised at byte level and listed first. '
             'The tags past-header / err-not-short mean: the decoder under test accepted its fixed header (a direct decode '
             'succeeded or the packet has a non-failure layer), or returned an error that is not of the "too short" family; '
             'the generator tags (truncated-prefix-of-valid, option-length-extreme) are only given to such cases.'),
    'assumptions': ['testing only: a clean sweep says nothing about inputs that were not generated',
                    'a hang is a case (about 100 calls on one input) whose worker thread burns more than 3 s of CPU, or that makes no progress for 90 s of wall-clock time',
                    'site = function name of the first gopacket frame under the panic; two defects in one function share a site (kind= index/slice/nil/... separates some)'],
    'trusted_base': ['no Coq model: the oracle is the executable statement of the four properties in harness/cmd/gpverif/sweep*.go',
                     'go/ast enumeration harness/sweepast; Go reflect for the exported-field comparison of C06'],
    'explanation': ('Implementation-side sweep complementing the hand-modelled core layers: C19 (no panic / no hang without '
                    'recovery), C01 (no panic after decoding, error-layer discipline), C07 (serialization total and junk-free), '
                    'C06 (round trip at the first re-decode) over all registered decoders and all (de)serializable types. '
                    'Evidence level: testing.'),
}
