#!/bin/bash
# run every claimed check (quick tier) and summarise
cd "$(dirname "$0")/.."
for c in $(python3 -c "import json;print(' '.join(x['property_id'] for x in json.load(open('MANIFEST.json'))['checks']))"); do
  s=$(date +%s)
  out=$(./check $c --tier ${1:-quick} 2>&1); rc=$?
  e=$(( $(date +%s) - s ))
  echo "$c rc=$rc ${e}s $(echo "$out" | grep -c '^KNOWN-FINDING') known; $(echo "$out" | grep -E "^$c tier" | cut -c1-150)"
  echo "$out" | grep -E "^VIOLATION|^BROKEN" | cut -c1-300
done
