HOOK_COMMITS = []

CHECKS = [
 {"property_id": "C18",
  "text": "Coq theorems (Props/C18.v: C18_refines, C18_stack, C18_clear, window lengths) prove for every op sequence and size hints that the modelled serialize buffer refines a two-ended tape; the model is tied to writer.go by a correspondence run (exhaustive small op sequences + seeded random ones, Bytes/window/layers compared after every op) and an implementation-side tape oracle.",
  "note": "Trusted: Coq kernel, hand transcription of writer.go:110-218 into coq/Model/C18Model.v (validated by the correspondence), extraction (ExtrOcamlBasic), OCaml runner glue, Go harness. Go slice semantics as modelled.",
  "technique": "Coq proof (refinement invariant by induction over ops) + model/implementation correspondence check"},
]

_ALL = ["C%02d" % i for i in range(1, 21)]
_claimed = {c["property_id"] for c in CHECKS}
NOT_APPLICABLE = [{"property_id": p, "reason": "not yet built in this session (work in progress; see DESIGN.md section 7 work order) - will be claimed once its model, theorems and correspondence check exist"} for p in _ALL if p not in _claimed]
