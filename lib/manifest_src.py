"""MANIFEST sources: lib/manifest/Cxx.json (property_id, text, note, technique[, design_ref]),
lib/manifest/not_applicable.json (optional list), lib/manifest/hook_commits.json (optional list)."""
import glob, json, os
_d = os.path.join(os.path.dirname(os.path.abspath(__file__)), 'manifest')
CHECKS = [json.load(open(f)) for f in sorted(glob.glob(os.path.join(_d, 'C*.json')))]
HOOK_COMMITS = json.load(open(os.path.join(_d, 'hook_commits.json'))) if os.path.exists(os.path.join(_d, 'hook_commits.json')) else []
_ALL = ["C%02d" % i for i in range(1, 21)]
_claimed = {c["property_id"] for c in CHECKS}
_na = json.load(open(os.path.join(_d, 'not_applicable.json'))) if os.path.exists(os.path.join(_d, 'not_applicable.json')) else {}
NOT_APPLICABLE = [{"property_id": p, "reason": _na.get(p, "check not built yet in this development (DESIGN.md section 7 work order); it will be claimed once its model, theorems and correspondence check exist")} for p in _ALL if p not in _claimed]
