#!/usr/bin/env python3
"""seedtest.py <out-dir-of-one-change> <check-id> [<check-id>...]

Confirms a seeded change (patch.diff + demo + meta.json) in a scratch worktree of /repo:
 (a) the patch applies and the affected packages build,
 (b) the repository's existing tests of the packages it touches still pass,
 (c) the demonstration fails with the patch and passes without it,
then runs the given checks against the patched worktree (VERIF_REPO) and records which report a
VIOLATION.  Evidence files are saved and restored (evidence must come from the unchanged tree).
Result: <out-dir>/result.json; with --keep <id> the change is copied to /verif/seeded/<id>/.
"""
import sys, os, json, subprocess, shutil, re, glob, time

ROOT = os.path.dirname(os.path.dirname(os.path.abspath(__file__)))
ENV = dict(os.environ); ENV['GOFLAGS'] = '-mod=mod'; ENV['GOPROXY'] = 'off'

def sh(cmd, cwd=None, timeout=3000, env=None):
    p = subprocess.run(cmd, cwd=cwd, shell=isinstance(cmd, str), stdout=subprocess.PIPE, stderr=subprocess.STDOUT,
                       text=True, errors='replace', timeout=timeout, env=env or ENV)
    return p.returncode, p.stdout

def main():
    args = sys.argv[1:]
    keep = None
    if '--keep' in args:
        i = args.index('--keep'); keep = args[i + 1]; del args[i:i + 2]
    out = os.path.abspath(args[0]); checks = args[1:]
    patch = os.path.join(out, 'patch.diff')
    meta = json.load(open(os.path.join(out, 'meta.json'))) if os.path.exists(os.path.join(out, 'meta.json')) else {}
    tag = re.sub(r'[^A-Za-z0-9]', '_', out)[-40:]
    wt = '/tmp/seedtest/' + tag
    sh(['git', '-C', '/repo', 'worktree', 'remove', '--force', wt]); shutil.rmtree(wt, ignore_errors=True)
    os.makedirs('/tmp/seedtest', exist_ok=True)
    rc, o = sh(['git', '-C', '/repo', 'worktree', 'add', '--detach', wt, 'HEAD'])
    res = {'dir': out, 'checks': {}, 'meta_title': meta.get('title')}
    try:
        files = re.findall(r'^\+\+\+ b/(\S+)', open(patch).read(), re.M)
        pkgs = sorted(set('./' + os.path.dirname(f) if os.path.dirname(f) else '.' for f in files))
        res['files'] = files
        # demo placement
        demos = [f for f in glob.glob(os.path.join(out, '*')) if f.endswith('_test.go')]
        demo_main = os.path.join(out, 'demo', 'main.go')
        how = (meta.get('demo_how_to_run') or '') + ' ' + json.dumps(meta)
        def place_demo():
            placed = []
            for d in demos:
                src = open(d).read()
                m = re.search(r'^package\s+(\w+)', src, re.M)
                pkgname = m.group(1) if m else ''
                # directory: mentioned in meta, else inferred from package name
                target = None
                for cand in re.findall(r'(?:in|into|under|to)\s+`?((?:\./)?[a-z0-9_/]+)/?`?', how):
                    c = cand.strip('./')
                    if os.path.isdir(os.path.join(wt, c)) and c:
                        target = c; break
                if target is None:
                    base = pkgname[:-5] if pkgname.endswith('_test') else pkgname
                    if base == 'gopacket': target = ''
                    else:
                        hits = [os.path.dirname(p) for p in glob.glob(os.path.join(wt, '**', '*.go'), recursive=True)
                                if re.search(r'^package %s\b' % base, open(p, errors='replace').read(), re.M)]
                        target = os.path.relpath(sorted(hits, key=len)[0], wt) if hits else ''
                dst = os.path.join(wt, target, 'zz_seed_' + os.path.basename(d))
                shutil.copy(d, dst); placed.append((target or '.', dst))
            return placed
        def run_demo(placed):
            ok = True; outs = []
            for target, dst in placed:
                names = re.findall(r'^func (Test\w+)', open(dst).read(), re.M)
                rc, o = sh(['go', 'test', '-vet=off', '-count=1', '-run', '^(' + '|'.join(names) + ')$', './' + target], cwd=wt, timeout=1200)
                outs.append(o[-1500:]); ok = ok and rc == 0
            if os.path.exists(demo_main):
                dd = os.path.join(wt, 'zz_seed_demo'); os.makedirs(dd, exist_ok=True); shutil.copy(demo_main, dd)
                rc, o = sh(['go', 'run', './zz_seed_demo'], cwd=wt, timeout=1200); outs.append(o[-1500:]); ok = ok and rc == 0
            return ok, outs
        placed = place_demo()
        ok_clean, o1 = run_demo(placed)
        res['demo_passes_without_patch'] = ok_clean
        rc, o = sh(['git', 'apply', patch], cwd=wt)
        res['patch_applies'] = rc == 0
        if rc != 0:
            res['error'] = o[-800:]
            return res
        ok_patched, o2 = run_demo(placed)
        res['demo_fails_with_patch'] = not ok_patched
        res['demo_output_with_patch'] = o2[0][-600:] if o2 else ''
        # existing tests of the touched packages (demo files removed first)
        for _, dst in placed: os.remove(dst)
        shutil.rmtree(os.path.join(wt, 'zz_seed_demo'), ignore_errors=True)
        tp = [p if p != '.' else '.' for p in pkgs]
        extra = ['./layers/'] if any(p in ('.',) for p in tp) else []
        rc, o = sh(['go', 'test', '-vet=off', '-count=1', '-skip', 'TestEthernetHandle_Close'] + sorted(set(tp + extra)), cwd=wt, timeout=3000)  # the two EthernetHandle tests fail on the baseline too
        res['existing_tests_pass'] = rc == 0
        if rc != 0: res['existing_tests_output'] = o[-1500:]
        # the checks
        saved = {}
        for c in checks:
            for ev in glob.glob(os.path.join(ROOT, 'evidence', c + '*.json')):
                saved.setdefault(ev, open(ev).read())
            env = dict(os.environ); env['VERIF_REPO'] = wt
            t0 = time.time()
            rc, o = sh([os.path.join(ROOT, 'check'), c], cwd=ROOT, timeout=7200, env=env)
            vl = [l for l in o.splitlines() if l.startswith('VIOLATION')]
            res['checks'][c] = {'rc': rc, 'violation_lines': vl[:5], 'nofail': any('no-failing-input-found' in l for l in vl),
                                'broken': [l for l in o.splitlines() if l.startswith('BROKEN')][:3], 'wall_s': round(time.time() - t0, 1),
                                'tail': o.splitlines()[-3:]}
        for ev, txt in saved.items(): open(ev, 'w').write(txt)
    finally:
        sh(['git', '-C', '/repo', 'worktree', 'remove', '--force', wt]); shutil.rmtree(wt, ignore_errors=True)
        json.dump(res, open(os.path.join(out, 'result.json'), 'w'), indent=1)
    confirmed = res.get('patch_applies') and res.get('demo_passes_without_patch') and res.get('demo_fails_with_patch') and res.get('existing_tests_pass')
    res['confirmed'] = bool(confirmed)
    json.dump(res, open(os.path.join(out, 'result.json'), 'w'), indent=1)
    if keep and confirmed:
        dst = os.path.join(ROOT, 'seeded', keep)
        prev = {}
        try: prev = json.load(open(os.path.join(dst, 'meta.json'))).get('checks', {})
        except Exception: pass
        shutil.rmtree(dst, ignore_errors=True); os.makedirs(dst)
        for f in glob.glob(os.path.join(out, '*')):
            if os.path.isfile(f) and os.path.basename(f) != 'result.json': shutil.copy(f, dst)
        if os.path.isdir(os.path.join(out, 'demo')): shutil.copytree(os.path.join(out, 'demo'), os.path.join(dst, 'demo'))
        m = dict(meta); m['confirmed_by_coordinator'] = {k: res.get(k) for k in ('patch_applies', 'demo_passes_without_patch', 'demo_fails_with_patch', 'existing_tests_pass')}
        m['what_was_run'] = 'lib/seedtest.py: scratch worktree of /repo HEAD; demo without and with the patch; go test of the touched packages with the patch; ./check ' + ' '.join(checks) + ' with VERIF_REPO pointing at the patched worktree'
        m['checks'] = {c: {'detected': bool(v['violation_lines']), 'no_failing_input_found': v['nofail'], 'first': (v['violation_lines'] or [''])[0]} for c, v in res['checks'].items()}
        for c, v in prev.items():      # results of earlier runs of other checks against the same change are kept
            m['checks'].setdefault(c, v)
        json.dump(m, open(os.path.join(dst, 'meta.json'), 'w'), indent=1)
    return res

if __name__ == '__main__':
    r = main()
    print(json.dumps({k: r.get(k) for k in ('confirmed', 'patch_applies', 'demo_passes_without_patch', 'demo_fails_with_patch', 'existing_tests_pass', 'error')}))
    for c, v in r.get('checks', {}).items():
        print(c, 'DETECTED' if v['violation_lines'] else 'MISSED', v['violation_lines'][:1], v['tail'][-1:] if not v['violation_lines'] else '')
