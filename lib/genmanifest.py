#!/usr/bin/env python3
"""Regenerate MANIFEST.json from lib/manifest_src.py (kept valid at all times)."""
import json, os, sys
sys.path.insert(0, os.path.dirname(os.path.abspath(__file__)))
from manifest_src import CHECKS, NOT_APPLICABLE, HOOK_COMMITS
root = os.path.dirname(os.path.dirname(os.path.abspath(__file__)))
m = {
 "version": 1,
 "setup_cmd": "./setup.sh",
 "hooks": {
  "guard": "verif",
  "enable": "go build -tags verif (harness/cmd/gpverif is built with the tag against /repo's working tree by every check)",
  "baseline_off_cmd": "cd /repo && GOFLAGS=-mod=mod GOPROXY=off go test -vet=off -count=1 -timeout 25m ./...",
  "source_commits": HOOK_COMMITS,
  "add_only": True
 },
 "engines": [
  {"name": "coq-proof+correspondence", "path": "check", "serves_properties": [c["property_id"] for c in CHECKS],
   "kind_free_text": "Gallina models (coq/Model), theorems (coq/Props, Coq 8.16.1), extracted OCaml runner (runner/), Go correspondence harness built against /repo (harness/), driver ./check"}
 ],
 "checks": [],
 "not_applicable": NOT_APPLICABLE,
 "notes": "See DESIGN.md. VERIF_SEED seeds every generator; VERIF_TIER overrides --tier."
}
for c in CHECKS:
    pid = c["property_id"]
    m["checks"].append({
      "property_id": pid,
      "quick_cmd": "./check %s --tier quick" % pid,
      "thorough_cmd": "./check %s --tier thorough" % pid,
      "evidence_file": "/verif/evidence/%s.json" % pid,
      "replay_cmd_template": "./check %s --replay {path}" % pid,
      "engine": "coq-proof+correspondence",
      "level_claimed": {"category": "proof", "text": c["text"], "design_ref": c.get("design_ref", "DESIGN.md section 5, " + pid)},
      "level_note": c["note"],
      "technique": c["technique"],
    })
json.dump(m, open(os.path.join(root, "MANIFEST.json"), "w"), indent=1)
print("MANIFEST.json written:", len(m["checks"]), "checks,", len(NOT_APPLICABLE), "not applicable")
